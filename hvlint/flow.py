"""Statement-level control-flow graph, reaching definitions, dominators, structured path conditions."""
from __future__ import annotations

import ast

from .loader import parent


class Node:
    __slots__ = ("id", "ast", "kind", "succ", "pred", "loops")

    def __init__(self, id_, ast_node, kind):
        self.id = id_
        self.ast = ast_node
        self.kind = kind  # entry exit raise stmt test for with handler
        self.succ: list[tuple[Node, str | None]] = []
        self.pred: list[tuple[Node, str | None]] = []
        self.loops: tuple = ()

    def __repr__(self):
        ln = getattr(self.ast, "lineno", "-")
        return f"<N{self.id} {self.kind} L{ln}>"


class Def:
    __slots__ = ("name", "node", "kind", "value", "index", "stmt")

    def __init__(self, name, node, kind, value=None, index=None, stmt=None):
        self.name = name
        self.node = node  # CFG node
        self.kind = kind  # param assign aug unpack for with except import walrus funcdef global
        self.value = value  # ast expression giving the value (for unpack: the whole RHS)
        self.index = index  # for unpack/for: index path (tuple of ints) into the value
        self.stmt = stmt  # ast statement

    def __repr__(self):
        return f"<Def {self.name} {self.kind} @{self.node}>"


class CFG:
    def __init__(self, func: ast.FunctionDef):
        self.func = func
        self.nodes: list[Node] = []
        self.entry = self._new(func, "entry")
        self.exit = self._new(func, "exit")
        self.raise_exit = self._new(func, "raise")
        self.node_of: dict[ast.AST, Node] = {}
        self.loop_nodes: dict[ast.AST, set[Node]] = {}
        self._loop_stack: list = []
        self._try_stack: list = []
        outs = self._seq(func.body, [(self.entry, None)], None)
        for n, lab in outs:
            self._edge(n, self.exit, lab)
        self._compute_defs()
        self._dom = None

    # -- construction -----------------------------------------------------------------
    def _new(self, a, kind):
        n = Node(len(self.nodes), a, kind)
        n.loops = tuple(getattr(self, "_loop_stack", []))
        self.nodes.append(n)
        return n

    def _edge(self, a: Node, b: Node, label=None):
        if (b, label) not in a.succ:
            a.succ.append((b, label))
            b.pred.append((a, label))

    def _connect(self, preds, node):
        for p, lab in preds:
            self._edge(p, node, lab)

    def _exc_edges(self, node):
        if self._try_stack:
            for h in self._try_stack[-1]:
                self._edge(node, h, "exc")

    def _seq(self, stmts, preds, _ctx):
        for s in stmts:
            preds = self._stmt(s, preds)
        return preds

    def _stmt(self, s, preds):
        if isinstance(s, ast.If):
            t = self._new(s, "test")
            self.node_of[s] = t
            self._register_loops(t)
            self._connect(preds, t)
            self._exc_edges(t)
            a = self._seq(s.body, [(t, "T")], None)
            b = self._seq(s.orelse, [(t, "F")], None) if s.orelse else [(t, "F")]
            return a + b
        if isinstance(s, (ast.While, ast.For, ast.AsyncFor)):
            kind = "test" if isinstance(s, ast.While) else "for"
            self._loop_stack.append(s)
            t = self._new(s, kind)
            self.node_of[s] = t
            self.loop_nodes[s] = {t}
            self._register_loops(t)
            self._connect(preds, t)
            self._exc_edges(t)
            brk: list = []
            cont: list = []
            self._loop_ctx = getattr(self, "_loop_ctx", [])
            self._loop_ctx.append((s, t, brk, cont))
            body_out = self._seq(s.body, [(t, "T")], None)
            self._loop_ctx.pop()
            for n, lab in body_out + cont:
                self._edge(n, t, lab if lab in ("T", "F") else "back")
            self._loop_stack.pop()
            infinite = isinstance(s, ast.While) and isinstance(s.test, ast.Constant) and bool(s.test.value)
            outs = [] if infinite else [(t, "F")]
            if s.orelse:
                outs = self._seq(s.orelse, outs, None)
            return outs + brk
        if isinstance(s, ast.Try) or s.__class__.__name__ == "TryStar":
            handlers = []
            for h in s.handlers:
                hn = self._new(h, "handler")
                self.node_of[h] = hn
                self._register_loops(hn)
                handlers.append(hn)
            # an exception may be raised before the first statement completes
            for p, _ in preds:
                for hn in handlers:
                    self._edge(p, hn, "exc")
            self._try_stack.append(handlers)
            body_out = self._seq(s.body, preds, None)
            self._try_stack.pop()
            if s.orelse:
                body_out = self._seq(s.orelse, body_out, None)
            outs = list(body_out)
            for h, hn in zip(s.handlers, handlers):
                outs += self._seq(h.body, [(hn, None)], None)
            if s.finalbody:
                outs = self._seq(s.finalbody, outs, None)
            return outs
        if isinstance(s, (ast.With, ast.AsyncWith)):
            w = self._new(s, "with")
            self.node_of[s] = w
            self._register_loops(w)
            self._connect(preds, w)
            self._exc_edges(w)
            return self._seq(s.body, [(w, None)], None)
        # simple statements
        n = self._new(s, "stmt")
        self.node_of[s] = n
        self._register_loops(n)
        self._connect(preds, n)
        if isinstance(s, ast.Return):
            self._edge(n, self.exit, "return")
            return []
        if isinstance(s, ast.Raise):
            if self._try_stack:
                for h in self._try_stack[-1]:
                    self._edge(n, h, "exc")
                # a handler may not match: also to raise exit
            self._edge(n, self.raise_exit, "raise")
            return []
        if isinstance(s, ast.Break):
            self._loop_ctx[-1][2].append((n, None))
            return []
        if isinstance(s, ast.Continue):
            self._loop_ctx[-1][3].append((n, None))
            return []
        self._exc_edges(n)
        return [(n, None)]

    def _register_loops(self, node):
        for lp in self._loop_stack:
            self.loop_nodes.setdefault(lp, set()).add(node)

    # -- definitions ------------------------------------------------------------------
    def _compute_defs(self):
        self.defs_at: dict[Node, list[Def]] = {n: [] for n in self.nodes}
        f = self.func
        args = f.args
        allargs = list(args.posonlyargs) + list(args.args)
        self.params = [a.arg for a in allargs]
        for i, a in enumerate(allargs):
            self.defs_at[self.entry].append(Def(a.arg, self.entry, "param", None, i, None))
        extra = ([args.vararg] if args.vararg else []) + list(args.kwonlyargs) + ([args.kwarg] if args.kwarg else [])
        for j, a in enumerate(extra):
            self.defs_at[self.entry].append(Def(a.arg, self.entry, "param", None, len(allargs) + j, None))
        for n in self.nodes:
            a = n.ast
            if n.kind in ("entry", "exit", "raise"):
                continue
            if n.kind == "stmt":
                if isinstance(a, ast.Assign):
                    for t in a.targets:
                        self._target_defs(n, t, a.value, (), "assign", a)
                elif isinstance(a, ast.AnnAssign) and a.value is not None:
                    self._target_defs(n, a.target, a.value, (), "assign", a)
                elif isinstance(a, ast.AugAssign):
                    if isinstance(a.target, ast.Name):
                        self.defs_at[n].append(Def(a.target.id, n, "aug", a, None, a))
                    elif (isinstance(a.target, ast.Attribute) and isinstance(a.target.value, ast.Name) and self.params
                          and a.target.value.id == self.params[0]):
                        self.defs_at[n].append(Def(f"{a.target.value.id}.{a.target.attr}", n, "aug", a, None, a))
                elif isinstance(a, (ast.Import, ast.ImportFrom)):
                    for al in a.names:
                        nm = (al.asname or al.name).split(".")[0]
                        self.defs_at[n].append(Def(nm, n, "import", None, None, a))
                elif isinstance(a, (ast.FunctionDef, ast.ClassDef, ast.AsyncFunctionDef)):
                    self.defs_at[n].append(Def(a.name, n, "funcdef", None, None, a))
                    continue  # do not descend into nested scopes for walrus
            elif n.kind == "for":
                self._target_defs(n, a.target, a.iter, (), "for", a)
            elif n.kind == "with":
                for it in a.items:
                    if it.optional_vars is not None:
                        self._target_defs(n, it.optional_vars, it.context_expr, (), "with", a)
            elif n.kind == "handler":
                if a.name:
                    self.defs_at[n].append(Def(a.name, n, "except", None, None, a))
            # walrus anywhere in the node's own expressions
            for sub in self._own_exprs(n):
                for w in ast.walk(sub):
                    if isinstance(w, ast.NamedExpr) and isinstance(w.target, ast.Name):
                        self.defs_at[n].append(Def(w.target.id, n, "walrus", w.value, None, a))
        # a pseudo-variable `self.x` has a value before the method runs (whatever the object holds): without an entry
        # definition a store on one branch only would look like the sole definition at the join
        pseudo = sorted({d.name for ds in self.defs_at.values() for d in ds if "." in d.name})
        for nm in pseudo:
            self.defs_at[self.entry].append(Def(nm, self.entry, "attr-entry", None, None, None))
        # iterate
        self.rd_in: dict[Node, dict[str, frozenset]] = {n: {} for n in self.nodes}
        self.rd_out: dict[Node, dict[str, frozenset]] = {n: {} for n in self.nodes}
        work = list(self.nodes)
        inwork = set(work)
        while work:
            n = work.pop(0)
            inwork.discard(n)
            new_in: dict[str, set] = {}
            for p, _ in n.pred:
                for k, v in self.rd_out[p].items():
                    new_in.setdefault(k, set()).update(v)
            new_in_f = {k: frozenset(v) for k, v in new_in.items()}
            self.rd_in[n] = new_in_f
            out = dict(new_in_f)
            for d in self.defs_at[n]:
                out[d.name] = frozenset([d])
            # several defs of one name in the same node (tuple targets): keep the last; fine
            if out != self.rd_out[n]:
                self.rd_out[n] = out
                for s, _ in n.succ:
                    if s not in inwork:
                        work.append(s)
                        inwork.add(s)

    def _own_exprs(self, n):
        a = n.ast
        if n.kind == "test":
            return [a.test]
        if n.kind == "for":
            return [a.iter]
        if n.kind == "with":
            return [it.context_expr for it in a.items]
        if n.kind == "handler":
            return [a.type] if a.type else []
        if n.kind == "stmt":
            return [a]
        return []

    def _target_defs(self, n, target, value, path, kind, stmt):
        if isinstance(target, ast.Name):
            k = kind
            if path and kind == "assign":
                k = "unpack"
            self.defs_at[n].append(Def(target.id, n, k, value, path if (path or kind != "assign") else None, stmt))
        elif isinstance(target, (ast.Tuple, ast.List)):
            for i, e in enumerate(target.elts):
                self._target_defs(n, e, value, path + (i,), kind, stmt)
        elif isinstance(target, ast.Starred):
            self._target_defs(n, target.value, value, path + ("*",), kind, stmt)
        elif (isinstance(target, ast.Attribute) and isinstance(target.value, ast.Name) and self.params
              and target.value.id == self.params[0] and kind in ("assign", "unpack")):
            # `self.x = ...` inside a method: a flow-sensitive pseudo-variable "self.x"
            k = "unpack" if path else "assign"
            self.defs_at[n].append(Def(f"{target.value.id}.{target.attr}", n, k, value, path if path else None, stmt))
        # other attribute / subscript targets are stores, not local definitions

    # -- queries ----------------------------------------------------------------------
    def node_for(self, a: ast.AST) -> Node | None:
        """CFG node of the statement that contains AST node `a`."""
        cur = a
        while cur is not None:
            if cur in self.node_of:
                n = self.node_of[cur]
                # an expression inside the *body* of a compound statement belongs to an inner node,
                # which would have been found first; reaching a compound here means header expr.
                return n
            if cur is self.func:
                return None
            cur = parent(cur)
        return None

    def dominators(self):
        if self._dom is not None:
            return self._dom
        allset = set(self.nodes)
        dom = {n: set(allset) for n in self.nodes}
        dom[self.entry] = {self.entry}
        changed = True
        order = self.nodes
        while changed:
            changed = False
            for n in order:
                if n is self.entry:
                    continue
                ps = [dom[p] for p, _ in n.pred]
                new = set.intersection(*ps) if ps else set()
                new = new | {n}
                if new != dom[n]:
                    dom[n] = new
                    changed = True
        self._dom = dom
        return dom

    def dominates(self, a: Node, b: Node) -> bool:
        return a in self.dominators()[b]

    def reachable_from(self, start: Node, avoid=()):
        seen = set()
        stack = [start]
        avoid = set(avoid)
        while stack:
            n = stack.pop()
            if n in seen or n in avoid:
                continue
            seen.add(n)
            for s, _ in n.succ:
                stack.append(s)
        return seen

    def all_paths_pass(self, src: Node, dst: Node, through: set) -> bool:
        """Every path src -> dst passes through a node of `through`."""
        r = self.reachable_from(src, avoid=through)
        return dst not in r

    def back_edge_sources(self, loop: ast.AST):
        hdr = self.node_of[loop]
        body = self.loop_nodes[loop]
        return [p for p, _lab in hdr.pred if p in body and p is not hdr]


# ---------------------------------------------------------------------------------------
# structured path conditions


def _always_exits(stmts) -> bool:
    if not stmts:
        return False
    last = stmts[-1]
    if isinstance(last, (ast.Return, ast.Raise, ast.Continue, ast.Break)):
        return True
    if isinstance(last, ast.If):
        return _always_exits(last.body) and bool(last.orelse) and _always_exits(last.orelse)
    return False


def _falls_through(stmts):
    """Condition (True / False / an expression AST) under which control runs off the end of the block."""
    if not stmts:
        return True
    if len(stmts) > 1:
        # every statement of the block has to be got past (guard clauses in front of the last statement count too)
        acc = True
        for st in stmts:
            f = _falls_through([st])
            if f is False:
                return False
            if f is True:
                continue
            acc = f if acc is True else ast.copy_location(ast.BoolOp(op=ast.And(), values=[acc, f]), st)
        return acc
    last = stmts[-1]
    if isinstance(last, (ast.Return, ast.Raise, ast.Continue, ast.Break)):
        return False
    if not isinstance(last, ast.If):
        return True
    a, b = _falls_through(last.body), _falls_through(last.orelse)
    t = last.test
    try:
        t._hv_at = last  # inside a combined condition this test is still evaluated at its own `if`
    except Exception:
        pass

    def AND(x, y):
        if x is False or y is False:
            return False
        if x is True:
            return y
        if y is True:
            return x
        return ast.copy_location(ast.BoolOp(op=ast.And(), values=[x, y]), t)

    def OR(x, y):
        if x is True or y is True:
            return True
        if x is False:
            return y
        if y is False:
            return x
        return ast.copy_location(ast.BoolOp(op=ast.Or(), values=[x, y]), t)

    nt = ast.copy_location(ast.UnaryOp(op=ast.Not(), operand=t), t)
    return OR(AND(t, a), AND(nt, b))


def _block_of(node):
    p = parent(node)
    if p is None:
        return None, None
    for fld in ("body", "orelse", "finalbody"):
        blk = getattr(p, fld, None)
        if isinstance(blk, list) and node in blk:
            return blk, fld
    if isinstance(p, ast.Try):
        for h in p.handlers:
            if node is h:
                return None, "handler"
    return None, None


def path_conditions(stmt: ast.AST, func: ast.AST):
    """Conditions (test_ast, polarity, stmt, kind) that hold whenever control reaches `stmt`,
    derived from the enclosing if/elif/else structure and from earlier sibling `if`s whose
    taken branch always leaves the block (return / raise / continue / break)."""
    conds = []
    cur = stmt
    while cur is not None and cur is not func:
        blk, fld = _block_of(cur)
        p = parent(cur)
        if blk is not None:
            idx = blk.index(cur)
            for prev in blk[:idx]:
                if isinstance(prev, ast.If):
                    body_exit = _always_exits(prev.body)
                    else_exit = bool(prev.orelse) and _always_exits(prev.orelse)
                    if body_exit and not else_exit:
                        conds.append((prev.test, False, prev, "prior"))
                        # (the arm that does not always leave may itself leave on some paths - an elif chain of early returns)
                        fall = _falls_through(prev.orelse)
                        if fall is not True and fall is not False:
                            conds.append((fall, True, prev, "prior"))
                    elif else_exit and not body_exit:
                        conds.append((prev.test, True, prev, "prior"))
                        fall = _falls_through(prev.body)
                        if fall is not True and fall is not False:
                            conds.append((fall, True, prev, "prior"))
                    elif not body_exit and not else_exit:
                        # an if / elif / else chain some of whose arms leave: control gets past it under the disjunction of
                        # the arms that fall through
                        fall = _falls_through([prev])
                        if fall is not True and fall is not False:
                            conds.append((fall, True, prev, "prior"))
            if isinstance(p, ast.If):
                conds.append((p.test, fld == "body", p, "if"))
            elif isinstance(p, ast.While) and fld == "body":
                conds.append((p.test, True, p, "while"))
        cur = p
    conds.reverse()
    return conds
