"""Reconstruction of expressions as symbolic terms by def-use analysis.

`Recon.expr(ctx, node)` answers: *what is the value of this expression at this program
point, expressed in function parameters, struct fields (by layout position), loop-carried
variables (PHI) and calls that are not inlined?*  Local variable names, attribute names of
single-assignment `self._x` helpers and simple pure helper functions disappear from the
result, which is what makes the rules robust against behaviour-preserving refactoring.
"""
from __future__ import annotations

import ast
import re

from . import sym as S
from .flow import CFG, Def, Node
from .loader import AnalysisError, enclosing_class, parent
from .program import ClassInfo, CType, LayoutRef, ModuleInfo, NotConst, Program

MAX_DEPTH = 40
MAX_INLINE = 6

_BINOPS = {ast.Add: "add", ast.Sub: "sub", ast.Mult: "mul", ast.FloorDiv: "floordiv", ast.Mod: "mod",
           ast.LShift: "lshift", ast.RShift: "rshift", ast.BitAnd: "and", ast.BitOr: "or", ast.BitXor: "xor",
           ast.Pow: "pow", ast.Div: "div"}
_CMPOPS = {ast.Eq: "==", ast.NotEq: "!=", ast.Lt: "<", ast.LtE: "<=", ast.Gt: ">", ast.GtE: ">=",
           ast.In: "in", ast.NotIn: "notin", ast.Is: "is", ast.IsNot: "isnot"}
_BUILTINS = {"min", "max", "len", "divmod", "int", "bool", "bytes", "str", "abs", "isinstance", "hasattr",
             "getattr", "all", "any", "list", "tuple", "dict", "set", "sorted", "map", "range", "memoryview",
             "bytearray", "open", "print", "repr", "super", "enumerate", "zip", "iter", "next", "sum", "type",
             "reversed", "frozenset", "float", "ord", "chr", "hex", "bin", "oct", "round", "pow", "filter", "slice",
             "format", "callable", "issubclass", "id", "hash"}


class FuncCtx:
    def __init__(self, prog: Program, mi: ModuleInfo, ci: ClassInfo | None, func: ast.FunctionDef):
        self.prog = prog
        self.mi = mi
        self.ci = ci
        self.func = func
        self.cfg = CFG(func)
        self.qual = f"{mi.mod.relpath}::{(ci.name + '.') if ci else ''}{func.name}"
        decos = {ast.unparse(d).split("(")[0].split(".")[-1] for d in func.decorator_list}
        self.is_static = "staticmethod" in decos
        self.is_classmethod = "classmethod" in decos
        self.loops = [n for n in ast.walk(func) if isinstance(n, (ast.While, ast.For))]
        self.loops.sort(key=lambda n: (n.lineno, n.col_offset))
        self._read_sites: list[ast.Call] | None = None

    def loop_ordinal(self, loop) -> int:
        return self.loops.index(loop)


class Recon:
    def __init__(self, prog: Program):
        self.prog = prog
        self._ctx: dict[str, FuncCtx] = {}
        self._ctx_by_node: dict[ast.AST, FuncCtx] = {}
        self.param_names: dict[tuple, str] = {}
        self._attr_cache: dict = {}
        self._stack: list = []

    # -- contexts ---------------------------------------------------------------------
    def ctx(self, relpath: str, qual: str) -> FuncCtx:
        key = f"{relpath}::{qual}"
        if key in self._ctx:
            return self._ctx[key]
        mi = self.prog.info(relpath)
        ci = None
        if "." in qual:
            cname = qual.split(".", 1)[0]
            ci = self.prog.cls(relpath, cname)
        fn = self.prog.func(relpath, qual)
        c = FuncCtx(self.prog, mi, ci, fn)
        self._ctx[key] = c
        self._ctx_by_node[fn] = c
        for i, a in enumerate(c.cfg.params):
            self.param_names[(c.qual, i)] = a
        return c

    def ctx_of(self, func: ast.FunctionDef) -> FuncCtx:
        if func in self._ctx_by_node:
            return self._ctx_by_node[func]
        mod = func._module  # type: ignore[attr-defined]
        cls = enclosing_class(func)
        if cls is not None and parent(func) is cls:
            return self.ctx(mod.relpath, f"{cls.name}.{func.name}")
        return self.ctx(mod.relpath, func.name)

    # -- main entry -------------------------------------------------------------------
    def expr(self, ctx: FuncCtx, node: ast.AST, at: Node | None = None, binds=None, after=False, depth=0) -> tuple:
        if at is None:
            at = ctx.cfg.node_for(node)
        try:
            return self._e(ctx, node, at, binds or {}, after, depth)
        except RecursionError:
            return S.unk("recursion")

    def _e(self, ctx, node, at, binds, after, depth):
        hv_at = getattr(node, "_hv_at", None)
        if hv_at is not None and getattr(ctx, "cfg", None) is not None:
            own = ctx.cfg.node_of.get(hv_at)
            if own is not None and own is not at:
                at, after = own, False
        if depth > MAX_DEPTH:
            return S.unk("depth:" + ast.unparse(node)[:40])
        rec = lambda n: self._e(ctx, n, at, binds, after, depth + 1)  # noqa: E731
        if isinstance(node, ast.Constant):
            return S.C(node.value)
        if isinstance(node, ast.Name):
            comp = self._comprehension_var(ctx, node, at, binds, after, depth)
            if comp is not None:
                return comp
            return self._name(ctx, node.id, at, binds, after, depth)
        if isinstance(node, ast.NamedExpr):
            return rec(node.value)
        if isinstance(node, ast.Attribute):
            if (isinstance(node.value, ast.Name) and at is not None and ctx.ci is not None and ctx.cfg.params
                    and node.value.id == ctx.cfg.params[0] and not ctx.is_static and not ctx.is_classmethod):
                # flow-sensitive view of `self.x` inside the method that assigns it
                pseudo = f"{node.value.id}.{node.attr}"
                table = ctx.cfg.rd_out[at] if after else ctx.cfg.rd_in[at]
                defs = table.get(pseudo)
                if defs and 0 not in binds:
                    return self._from_defs(ctx, pseudo, defs, at, binds, depth, after)
            base = rec(node.value)
            return self.attr(base, node.attr, ctx, depth)
        if isinstance(node, ast.BinOp):
            o = _BINOPS.get(type(node.op))
            if o is None:
                return S.unk(ast.unparse(node))
            return S.op(o, rec(node.left), rec(node.right))
        if isinstance(node, ast.UnaryOp):
            v = rec(node.operand)
            if isinstance(node.op, ast.Not):
                if S.is_const(v):
                    return S.C(not v[1])
                flip = {"==": "!=", "!=": "==", "is": "isnot", "isnot": "is", "in": "notin", "notin": "in"}
                if v[0] == "cmp" and v[1] in flip:
                    return ("cmp", flip[v[1]], v[2], v[3])  # not (a == b)  is  a != b
                if v[0] == "not":
                    return ("call", "bool", (v[1],), ())
                return ("not", v)
            if isinstance(node.op, ast.USub):
                if S.is_const(v) and isinstance(v[1], (int, float)):
                    return S.C(-v[1])
                return ("neg", v)
            if isinstance(node.op, ast.Invert):
                if S.is_const(v) and isinstance(v[1], int):
                    return S.C(~v[1])
                return ("inv", v)
            return v
        if isinstance(node, ast.BoolOp):
            return ("bool", "and" if isinstance(node.op, ast.And) else "or", tuple(rec(v) for v in node.values))
        if isinstance(node, ast.Compare):
            parts = []
            left = rec(node.left)
            for o, r in zip(node.ops, node.comparators):
                right = rec(r)
                parts.append(S.cmp_(_CMPOPS[type(o)], left, right))
                left = right
            return parts[0] if len(parts) == 1 else ("bool", "and", tuple(parts))
        if isinstance(node, ast.IfExp):
            return ("ite", rec(node.test), rec(node.body), rec(node.orelse))
        if isinstance(node, ast.Tuple):
            return ("tuple", tuple(rec(e) for e in node.elts))
        if isinstance(node, ast.List):
            return ("list", tuple(rec(e) for e in node.elts))
        if isinstance(node, ast.Subscript):
            base = rec(node.value)
            if isinstance(node.slice, ast.Slice):
                lo = rec(node.slice.lower) if node.slice.lower else S.C(None)
                hi = rec(node.slice.upper) if node.slice.upper else S.C(None)
                idx = ("slice", lo, hi) if node.slice.step is None else ("slice", lo, hi, rec(node.slice.step))
            else:
                idx = rec(node.slice)
            return self.subscript(base, idx, ctx, depth)
        if isinstance(node, ast.Call):
            return self._call(ctx, node, at, binds, after, depth)
        if isinstance(node, ast.Starred):
            return ("call", "*", (rec(node.value),), ())
        if isinstance(node, ast.Yield):
            return rec(node.value) if node.value else S.C(None)
        if isinstance(node, ast.JoinedStr):
            # an f-string of constants is a constant (plain {value} fields only)
            parts = []
            for v in node.values:
                if isinstance(v, ast.Constant):
                    parts.append(str(v.value))
                elif isinstance(v, ast.FormattedValue) and v.conversion == -1 and v.format_spec is None:
                    t = rec(v.value)
                    if S.is_const(t) and isinstance(t[1], (str, int)) and not isinstance(t[1], bool) and type(t[1]) in (str, int):
                        parts.append(str(t[1]))
                    else:
                        return S.unk("fstring")
                else:
                    return S.unk("fstring")
            return S.C("".join(parts))
        if isinstance(node, (ast.Dict, ast.Set)):
            try:
                return S.C(self.prog.fold(node, ctx.mi, ctx.ci))
            except NotConst:
                return S.unk(type(node).__name__.lower())
        if isinstance(node, (ast.ListComp, ast.GeneratorExp, ast.SetComp, ast.DictComp)):
            if node.generators and not any(g.is_async for g in node.generators):
                # ('comp', kind, element, iterable, filters): the bound names inside are ('iter', iterable, index) terms;
                # several `for` clauses: the iterables as a tuple, all filters together (every element passes all of them)
                kind = {ast.ListComp: "list", ast.GeneratorExp: "gen", ast.SetComp: "set", ast.DictComp: "dict"}[type(node)]
                its = [rec(g.iter) for g in node.generators]
                it = its[0] if len(its) == 1 else ("tuple", tuple(its))
                if isinstance(node, ast.DictComp):
                    elt = ("tuple", (rec(node.key), rec(node.value)))
                else:
                    elt = rec(node.elt)
                return ("comp", kind, elt, it, tuple(rec(c) for g in node.generators for c in g.ifs))
            return S.unk("comp:" + ast.unparse(node)[:60])
        if isinstance(node, ast.Lambda):
            return S.unk("lambda")
        return S.unk(type(node).__name__)

    def _comprehension_var(self, ctx, node: ast.Name, at, binds, after, depth):
        """A name bound by an enclosing comprehension: an element of the iterated expression."""
        cur = parent(node)
        child = node
        while cur is not None and cur is not ctx.func:
            if isinstance(cur, (ast.ListComp, ast.SetComp, ast.GeneratorExp, ast.DictComp)):
                for gen in cur.generators:
                    if child is gen.iter or any(child is x for x in ast.walk(gen.iter)):
                        continue
                    names = []
                    tg = gen.target
                    elts = tg.elts if isinstance(tg, (ast.Tuple, ast.List)) else [tg]
                    for i, e in enumerate(elts):
                        if isinstance(e, ast.Name) and e.id == node.id:
                            it = self._e(ctx, gen.iter, at, binds, after, depth + 1)
                            return ("iter", it, i if isinstance(tg, (ast.Tuple, ast.List)) else None)
                # a name bound by `:=` inside the comprehension (its filters run before the element is built)
                for w in ast.walk(cur):
                    if isinstance(w, ast.NamedExpr) and isinstance(w.target, ast.Name) and w.target.id == node.id and not any(x is node for x in ast.walk(w)):
                        return self._e(ctx, w.value, at, binds, after, depth + 1)
            child = cur
            cur = parent(cur)
        return None

    # -- names ------------------------------------------------------------------------
    def _name(self, ctx: FuncCtx, name: str, at: Node | None, binds, after, depth):
        if "." in name:
            table = (ctx.cfg.rd_out[at] if after else ctx.cfg.rd_in[at]) if at is not None else {}
            defs = table.get(name)
            if defs:
                return self._from_defs(ctx, name, defs, at, binds, depth, after)
            return self.self_attr(ctx.ci.key, name.split(".", 1)[1], depth) if ctx.ci is not None else S.unk(name)
        defs = None
        if at is not None:
            table = ctx.cfg.rd_out[at] if after else ctx.cfg.rd_in[at]
            defs = table.get(name)
        if defs:
            ex = binds.get("__exclude_loop__") if binds else None
            if ex is not None:
                body = ctx.cfg.loop_nodes.get(ex, set())
                outside = frozenset(d for d in defs if d.node not in body)
                if outside:
                    defs = outside
            return self._from_defs(ctx, name, defs, at, binds, depth, after)
        return self.global_name(ctx, name)

    def global_name(self, ctx: FuncCtx, name: str):
        if name in ("True", "False", "None"):
            return S.C({"True": True, "False": False, "None": None}[name])
        try:
            return S.C(self.prog.fold(ast.Name(id=name), ctx.mi, ctx.ci))
        except NotConst:
            pass
        r = self.prog.resolve_name(name, ctx.mi)
        if r is not None:
            if r[0] == "class":
                return ("cls", r[1].key)
            if r[0] == "func":
                return ("func", f"{r[1].mod.relpath}::{r[2].name}")
            if r[0] == "module":
                return ("mod", r[1].mod.relpath)
            if r[0] == "external":
                return ("mod", "ext:" + r[1])
            if r[0] == "assign":
                vals = []
                for v in r[2]:
                    vals.append(self._module_level(r[1], v))
                return vals[0] if len(vals) == 1 else ("join", tuple(vals))
        if name in _BUILTINS:
            return ("func", "builtin:" + name)
        return S.unk("global:" + name)

    def _namedtuple_fields(self, classkey):
        """Field names of a typing.NamedTuple class of the package (annotated class-body names, in order), else None."""
        ci = self._class_by_key(classkey)
        if ci is None or not any(b.split(".")[-1] == "NamedTuple" for b in ci.bases):
            return None
        return [s_.target.id for s_ in ci.node.body if isinstance(s_, ast.AnnAssign) and isinstance(s_.target, ast.Name)]

    def _construct(self, classkey, args, kws):
        """Construction of a class instance.  An instance of a NamedTuple class *is* the tuple of its fields: it is represented
        as that tuple (so `run.offset`, `run[0]` and `offset, size = run` all denote the same component); which class a tuple
        term came from is remembered for attribute access."""
        fields = self._namedtuple_fields(classkey)
        if fields is not None:
            ci = self._class_by_key(classkey)
            vals = list(args)
            kw = dict(kws)
            ok = len(vals) <= len(fields)
            for f_ in fields[len(vals):]:
                if f_ in kw:
                    vals.append(kw.pop(f_))
                elif f_ in ci.class_assigns and len(ci.class_assigns[f_]) == 1:
                    vals.append(self._module_level(ci.mod, ci.class_assigns[f_][0]))
                else:
                    ok = False
            if ok and not kw and len(vals) == len(fields):
                t = ("tuple", tuple(vals))
                self.__dict__.setdefault("_nt_terms", {})[t] = classkey
                return t
        return S.call("new:" + classkey, args, kws)

    def _namedtuple_of(self, base):
        """The NamedTuple class a term is an instance of: a tuple built by its constructor, or an element of what a generator /
        function of the package produces when all it yields / returns are such tuples."""
        reg = self.__dict__.setdefault("_nt_terms", {})
        if base in reg:
            return reg[base]
        if base[0] in ("ite", "join"):
            ks = {self._namedtuple_of(a) for a in S.alternatives(base)}
            return ks.pop() if len(ks) == 1 and None not in ks else None
        if base[0] == "iter" and base[2] is None and base[1][0] == "call":
            name = base[1][1]
            cache = self.__dict__.setdefault("_nt_yields", {})
            if name not in cache:
                cache[name] = None
                fdef = self._func_by_key(name) if "::" in name else None
                if fdef is not None:
                    fctx = self.ctx_of(fdef)
                    ks = set()
                    produced = [y.value for y in ast.walk(fdef) if isinstance(y, ast.Yield) and y.value is not None]
                    if not produced:
                        # not a generator: the elements of the list it builds and returns
                        produced = [c.args[0] for c in ast.walk(fdef) if isinstance(c, ast.Call) and isinstance(c.func, ast.Attribute)
                                    and c.func.attr == "append" and len(c.args) == 1]
                    for y in produced:
                        try:
                            ks.add(self._namedtuple_of(self.expr(fctx, y, fctx.cfg.node_for(y))))
                        except Exception:
                            ks.add(None)
                    if len(ks) == 1 and None not in ks:
                        cache[name] = ks.pop()
            return cache[name]
        return None

    def _class_level(self, c, name):
        """A class attribute that is not a constant: an object built from constants (ENTRY = struct.Struct(">I")) is its call term."""
        t = self._module_level(c.mod, c.class_assigns[name][0])
        if t[0] == "unk":
            return S.unk(f"classattr:{c.name}.{name}")
        return t

    def _module_level(self, mi: ModuleInfo, v: ast.AST):
        try:
            return S.C(self.prog.fold(v, mi))
        except NotConst:
            pass
        if isinstance(v, ast.Call) and not any(isinstance(x, (ast.Lambda, ast.ListComp, ast.GeneratorExp, ast.DictComp, ast.SetComp)) for x in ast.walk(v)):
            # a module-level object built from constants (struct.Struct("<I"), re.compile(...)): the call term itself
            key = ("modlevel", mi.mod.relpath, id(v))
            if key not in self._stack:
                self._stack.append(key)
                try:
                    t = self._e(FuncCtxLite(self.prog, mi), v, None, {}, False, 1)
                finally:
                    self._stack.pop()
                if t[0] == "call" and t[1].startswith("ext:") and not S.contains(t, lambda x: isinstance(x, tuple) and x and x[0] == "unk"):
                    return t
        return S.unk("modlevel:" + ast.unparse(v)[:60])

    def _from_defs(self, ctx: FuncCtx, name, defs, at: Node, binds, depth, after=False):
        defs = sorted(defs, key=lambda d: d.node.id)
        if len(defs) == 1:
            return self._def(ctx, defs[0], binds, depth)
        # loop-carried?
        for loop in reversed(at.loops):
            body = ctx.cfg.loop_nodes.get(loop, set())
            inside = [d for d in defs if d.node in body]
            outside = [d for d in defs if d.node not in body]
            if inside and outside:
                # value on loop entry = what reaches the header from outside the loop; inside an outer loop this can be
                # a value produced by an earlier round of this very loop (then it is itself loop-carried by the outer loop)
                hdr = ctx.cfg.node_of.get(loop)
                entry = []
                key = (ctx.qual, "phi-entry", id(loop), name)
                if hdr is not None and key not in self._stack:
                    self._stack.append(key)
                    try:
                        for p, _lab in hdr.pred:
                            if p in body:
                                continue
                            pdefs = ctx.cfg.rd_out[p].get(name)
                            if not pdefs:
                                continue
                            if all(d.node not in body for d in pdefs) and len(pdefs) > 1:
                                # several definitions in front of the loop (`n = a; if c: n += 1`): the gated value, not a plain join
                                entry.append(self._from_defs(ctx, name, pdefs, p, binds, depth + 1, True))
                            elif all(d.node not in body for d in pdefs):
                                entry += [self._def(ctx, d, binds, depth + 1) for d in sorted(pdefs, key=lambda d: d.node.id)]
                            else:
                                entry.append(self._from_defs(ctx, name, pdefs, p, binds, depth + 1, True))
                    finally:
                        self._stack.pop()
                if not entry:
                    entry = [self._def(ctx, d, binds, depth + 1) for d in outside]
                entry = _dedup(entry)
                e = entry[0] if len(entry) == 1 else ("join", tuple(sorted(entry, key=repr)))
                phi = ("phi", ctx.qual, ctx.loop_ordinal(loop), e, name)
                # definitions made earlier in THIS round of the loop (they reach `at` without passing the header): the value
                # is what those leave behind, and the loop-carried value only on the paths that skip them
                fwd = [d for d in inside if d.stmt is not None and hdr is not None and self._reaches_forward(ctx, d.node, at, hdr, after)]
                if fwd and not any(k[:3] == (ctx.qual, "fwd-gate", id(loop)) and k[3] == name for k in self._stack if isinstance(k, tuple) and len(k) == 4):
                    self._stack.append((ctx.qual, "fwd-gate", id(loop), name))
                    try:
                        marker = object()
                        items = [(loop, marker)] + [(d.stmt, d) for d in fwd]
                        g = self._gate(ctx, items, ctx.func, lambda d_: phi if d_ is marker else self._def(ctx, d_, binds, depth + 1), binds, depth)
                    finally:
                        self._stack.pop()
                    if g is not None:
                        return g
                return phi
        params = [d for d in defs if d.stmt is None and d.kind == "param"]
        if all(d.stmt is not None for d in defs):
            gated = self._gate(ctx, [(d.stmt, d) for d in defs], ctx.func, lambda d: self._def(ctx, d, binds, depth + 1), binds, depth)
        elif len(params) == 1 and all(d.stmt is not None for d in defs if d is not params[0]) and not at.loops:
            # a parameter that is conditionally re-assigned: its entry value is what the assignments replace
            gated = self._gate_block(ctx, [(ctx.func, params[0])] + [(d.stmt, d) for d in defs if d is not params[0]], ctx.func,
                                     lambda d: self._def(ctx, d, binds, depth + 1), binds, depth)
        else:
            gated = None
        if gated is not None:
            return gated
        alts = _dedup([self._def(ctx, d, binds, depth + 1) for d in defs])
        if len(alts) == 1:
            return alts[0]
        return ("join", tuple(sorted(alts, key=repr)))

    def _reaches_forward(self, ctx: FuncCtx, src: Node, dst: Node, hdr: Node, after=False) -> bool:
        """A definition at src reaches the use at dst without passing the loop header (a definition in the same node
        reaches only the value *after* that node)."""
        if src is dst:
            return bool(after)
        key = ("fwd", id(src), id(hdr))
        cache = ctx.__dict__.setdefault("_fwd_cache", {})
        seen = cache.get(key)
        if seen is None:
            seen = set()
            stack = [s_ for s_, _lab in src.succ if s_ is not hdr]
            while stack:
                n = stack.pop()
                if n in seen:
                    continue
                seen.add(n)
                for s_, _lab in n.succ:
                    if s_ is not hdr:
                        stack.append(s_)
            cache[key] = seen
        return dst in seen

    def _gate(self, ctx: FuncCtx, items, func, value_of, binds, depth):
        """Gated join: if the definitions sit in opposite arms of an if/else (recursively), build a conditional
        term ite(test, ...) instead of an unordered JOIN.  items: [(stmt, payload)]."""
        if len(items) == 1:
            return value_of(items[0][1])
        if depth > MAX_DEPTH:
            return None
        # candidate If statements: ancestors of the first item
        def arms(stmt):
            out = []
            cur = stmt
            p = parent(cur)
            while p is not None and cur is not func:
                if isinstance(p, ast.If):
                    if cur in p.body:
                        out.append((p, True))
                    elif cur in p.orelse:
                        out.append((p, False))
                cur = p
                p = parent(p)
            return out
        per_item = [dict((id(i), (i, side)) for i, side in arms(st)) for st, _ in items]
        common = set(per_item[0])
        for d in per_item[1:]:
            common &= set(d)
        # outermost-first is not required; pick an If that actually separates the items
        for key in common:
            ifnode = per_item[0][key][0]
            sides = [d[key][1] for d in per_item]
            if all(sides) or not any(sides):
                continue
            t_items = [it for it, sd in zip(items, sides) if sd]
            f_items = [it for it, sd in zip(items, sides) if not sd]
            a = self._gate(ctx, t_items, func, value_of, binds, depth + 1)
            b = self._gate(ctx, f_items, func, value_of, binds, depth + 1)
            if a is None or b is None:
                return None
            test = self._e(ctx, ifnode.test, ctx.cfg.node_of.get(ifnode), binds, False, depth + 1)
            if a == b:
                return a
            return ("ite", test, a, b)
        # general shape: run through the statements of the smallest block that holds all definitions, in order:
        # a direct assignment replaces the value, an `if` selects between what its arms leave behind
        return self._gate_block(ctx, items, func, value_of, binds, depth)

    def _gate_block(self, ctx: FuncCtx, items, func, value_of, binds, depth):
        if depth > MAX_DEPTH:
            return None
        by_stmt = {}
        fallback = None
        for st, payload in items:
            if isinstance(st, (ast.While, ast.For, ast.FunctionDef, ast.AsyncFunctionDef)):
                fallback = (st, payload)  # the value carried into this round of the loop / the parameter's value on entry
            else:
                by_stmt[id(st)] = payload
        if not by_stmt:
            return value_of(fallback[1]) if fallback else None
        stmts = [st for st, _ in items if not isinstance(st, (ast.While, ast.For, ast.FunctionDef, ast.AsyncFunctionDef))]

        def holds(node):
            return [st for st in stmts if any(x is st for x in ast.walk(node))]

        if fallback is not None:
            block = fallback[0].body
        else:
            # smallest enclosing block of all definitions
            block = func.body
            changed = True
            while changed:
                changed = False
                for st in block:
                    if len(holds(st)) == len(stmts) and id(st) not in by_stmt:
                        for fld in ("body", "orelse", "finalbody"):
                            sub = getattr(st, fld, None)
                            if isinstance(sub, list) and sub and all(any(x is d for s2 in sub for x in ast.walk(s2)) for d in stmts):
                                block = sub
                                changed = True
                                break
                        break
        MISSING = object()

        def run(block, cur):
            for st in block:
                if id(st) in by_stmt:
                    cur = value_of(by_stmt[id(st)])
                    continue
                inside = holds(st)
                if not inside:
                    continue
                if isinstance(st, ast.If):
                    a = run(st.body, cur)
                    b = run(st.orelse, cur)
                    if a is None or b is None:
                        return None
                    if a is MISSING or b is MISSING:
                        if a is MISSING and b is MISSING:
                            cur = MISSING
                            continue
                        return None
                    if a == b:
                        cur = a
                    else:
                        test = self._e(ctx, st.test, ctx.cfg.node_of.get(st), binds, False, depth + 1)
                        cur = ("ite", test, a, b)
                elif isinstance(st, ast.With):
                    cur = run(st.body, cur)
                    if cur is None:
                        return None
                else:
                    return None  # definitions inside a nested loop / try: not a simple selection
            return cur

        start = value_of(fallback[1]) if fallback is not None else MISSING
        r = run(block, start)
        return None if r is MISSING else r

    def _def(self, ctx: FuncCtx, d: Def, binds, depth):
        key = (ctx.qual, id(d))
        if key in self._stack:
            return S.unk("cyclic:" + d.name)
        self._stack.append(key)
        try:
            return self._def1(ctx, d, binds, depth)
        finally:
            self._stack.pop()

    def _def1(self, ctx: FuncCtx, d: Def, binds, depth):
        k = d.kind
        if k == "param":
            if d.index in binds:
                return binds[d.index]
            if ctx.ci is not None and d.index == 0 and not ctx.is_static:
                if ctx.is_classmethod:
                    return ("cls", ctx.ci.key)
                return ("self", ctx.ci.key)
            ann = self._param_annotation(ctx, d.index)
            if ann is not None:
                return ("self", ann.key)
            ct = self._param_ctype(ctx, d.index)
            if ct is not None:
                return ("inst", ct.name, ("p", ctx.qual, d.index), ct.layout_key)
            if args_ann(ctx, d.index) is None:
                # no annotation: the type every caller inside the package passes (annotations are hints, not the source of truth)
                inf = self._infer_param(ctx, d.index, depth)
                if inf is not None:
                    if inf[0] == "class":
                        return ("self", inf[1])
                    return ("inst", inf[1], ("p", ctx.qual, d.index)) + tuple(inf[2])
            return ("p", ctx.qual, d.index)
        if k == "attr-entry":
            if ctx.ci is None:
                return S.unk("attr-entry:" + d.name)
            return self.attr(("self", ctx.ci.key), d.name.split(".", 1)[1], ctx, depth + 1)
        if k in ("assign", "walrus"):
            if "." in d.name and ctx.ci is not None and _is_empty_container(d.value):
                return ("attr", ("self", ctx.ci.key), d.name.split(".", 1)[1])
            return self._e(ctx, d.value, d.node, binds, False, depth + 1)
        if k == "unpack":
            return self._unpack(ctx, d, binds, depth)
        if k == "aug":
            a: ast.AugAssign = d.value
            before = self._name(ctx, d.name, d.node, binds, False, depth + 1)
            o = _BINOPS.get(type(a.op))
            val = self._e(ctx, a.value, d.node, binds, False, depth + 1)
            if o is None:
                return S.unk("aug")
            return S.op(o, before, val)
        if k == "for":
            b2 = dict(binds)
            b2["__exclude_loop__"] = d.stmt
            it = self._e(ctx, d.value, d.node, b2, False, depth + 1)
            idx = d.index if d.index else None
            if idx is not None and len(idx) == 1:
                idx = idx[0]
            return ("iter", it, idx)
        if k == "with":
            # `with EXPR as name`: for file-like objects __enter__ returns the object itself
            if not d.index:
                return self._e(ctx, d.value, d.node, binds, False, depth + 1)
            return S.unk("with:" + d.name)
        if k == "except":
            return S.unk("exc:" + d.name)
        if k == "import":
            return S.unk("import:" + d.name)
        return S.unk(k + ":" + d.name)

    def _unpack(self, ctx, d: Def, binds, depth):
        v = d.value
        path = d.index
        if isinstance(v, (ast.Tuple, ast.List)):
            cur = v
            ok = True
            for i in path:
                if isinstance(cur, (ast.Tuple, ast.List)) and isinstance(i, int) and i < len(cur.elts):
                    cur = cur.elts[i]
                else:
                    ok = False
                    break
            if ok:
                return self._e(ctx, cur, d.node, binds, False, depth + 1)
        if (isinstance(v, ast.Call) and isinstance(v.func, ast.Name) and v.func.id == "divmod"
                and len(v.args) == 2 and len(path) == 1 and path[0] in (0, 1)):
            a = self._e(ctx, v.args[0], d.node, binds, False, depth + 1)
            b = self._e(ctx, v.args[1], d.node, binds, False, depth + 1)
            return S.op("floordiv" if path[0] == 0 else "mod", a, b)
        base = self._e(ctx, v, d.node, binds, False, depth + 1)
        return self._index_path(base, path, depth)

    def _index_path(self, base, path, depth=0):
        if base[0] == "ite" and depth < MAX_DEPTH and path:
            return ("ite", base[1], self._index_path(base[2], path, depth + 1), self._index_path(base[3], path, depth + 1))
        for i in path:
            if base[0] in ("tuple", "list") and isinstance(i, int) and i < len(base[1]):
                base = base[1][i]
            else:
                base = ("sub", base, S.C(i))
        return base

    def _call_index(self):
        """function / method / class name -> [(caller FunctionDef, Call node)] over the whole package (syntactic)."""
        idx = getattr(self, "_call_idx", None)
        if idx is None:
            idx = {}
            for rel, mi in self.prog.infos.items():
                for fn in ast.walk(mi.mod.tree):
                    if not isinstance(fn, (ast.FunctionDef, ast.AsyncFunctionDef)):
                        continue
                    for n in _own_nodes(fn):
                        if isinstance(n, ast.Call):
                            f = n.func
                            nm = f.id if isinstance(f, ast.Name) else f.attr if isinstance(f, ast.Attribute) else None
                            if nm:
                                idx.setdefault(nm, []).append((fn, n))
            self._call_idx = idx
        return idx

    def _infer_param(self, ctx: FuncCtx, index, depth):
        """('class', key) | ('inst', struct name, rest) when every call site inside the package passes that type for the
        parameter (None values of optional parameters aside); None if there is no call site or the sites disagree."""
        cache = self.__dict__.setdefault("_infer_cache", {})
        key = (ctx.qual, index)
        if key in cache:
            return cache[key]
        skey = ("infer", ctx.qual, index)
        if skey in self._stack or depth > MAX_DEPTH or ctx.func is None:
            return None
        fn = ctx.func
        names = [a.arg for a in fn.args.posonlyargs + fn.args.args]
        if index is None or index >= len(names):
            return None
        is_method = ctx.ci is not None and not ctx.is_static
        pname = names[index]
        sites = []
        if fn.name == "__init__" and ctx.ci is not None:
            sites = [(c, n, index - 1) for c, n in self._call_index().get(ctx.ci.name, [])]
            # super().__init__(...) in the constructors of subclasses
            for c, n in self._call_index().get("__init__", []):
                f_ = n.func
                if (isinstance(f_, ast.Attribute) and isinstance(f_.value, ast.Call) and isinstance(f_.value.func, ast.Name) and f_.value.func.id == "super"
                        and c.name == "__init__"):
                    cc = self.ctx_of(c)
                    if cc.ci is not None and cc.ci.key != ctx.ci.key and any(b.key == ctx.ci.key for b in self.prog.mro(cc.ci)[1:2]):
                        sites.append((c, n, index - 1))
        else:
            for c, n in self._call_index().get(fn.name, []):
                via_attr = isinstance(n.func, ast.Attribute)
                if is_method and not via_attr:
                    continue
                sites.append((c, n, index - 1 if (is_method and via_attr) else index))
        kinds = set()
        self._stack.append(skey)
        try:
            for caller, call, pos in sites:
                if caller is fn:
                    continue
                if not self._site_calls(ctx, caller, call, depth):
                    continue
                node = None
                if 0 <= pos < len(call.args) and not any(isinstance(a, ast.Starred) for a in call.args[: pos + 1]):
                    node = call.args[pos]
                else:
                    for kw in call.keywords:
                        if kw.arg == pname:
                            node = kw.value
                if node is None:
                    continue
                cctx = self.ctx_of(caller)
                try:
                    t = self._e(cctx, node, cctx.cfg.node_for(call), {}, False, depth + 2)
                except (AnalysisError, RecursionError):
                    return None
                for a in S.alternatives(t):
                    if a == S.C(None):
                        continue
                    if a[0] == "self":
                        kinds.add(("class", a[1]))
                    elif a[0] == "call" and a[1].startswith("new:"):
                        kinds.add(("class", a[1][4:]))
                    elif a[0] == "inst":
                        kinds.add(("inst", a[1], tuple(a[3:])))
                    else:
                        kinds.add(("other",))
        finally:
            self._stack.pop()
        res = next(iter(kinds)) if len(kinds) == 1 and next(iter(kinds))[0] != "other" else None
        if res is None and not kinds:
            # never called inside the package: structural typing - the one class of this module that has every attribute
            # the function reads from the parameter
            used = {x.attr for x in _own_nodes(fn) if isinstance(x, ast.Attribute) and isinstance(x.value, ast.Name) and x.value.id == pname}
            if used:
                cands = []
                for ci in ctx.mi.classes.values() if hasattr(ctx.mi, "classes") else []:
                    have = set(ci.methods) | set(ci.self_assigns) | set(getattr(ci, "class_assigns", {}))
                    for b in self.prog.mro(ci)[1:]:
                        have |= set(b.methods) | set(b.self_assigns) | set(getattr(b, "class_assigns", {}))
                    if used <= have:
                        cands.append(ci)
                if len(cands) == 1:
                    res = ("class", cands[0].key)
        cache[key] = res
        return res

    def _site_calls(self, ctx: FuncCtx, caller, call: ast.Call, depth) -> bool:
        """Does this call site (found by name) call the function of ctx?"""
        cctx = self.ctx_of(caller)
        f = call.func
        if (isinstance(f, ast.Attribute) and f.attr == "__init__" and isinstance(f.value, ast.Call) and isinstance(f.value.func, ast.Name)
                and f.value.func.id == "super"):
            return ctx.func.name == "__init__"  # pre-filtered to direct subclasses by the caller
        if isinstance(f, ast.Name):
            r = self.prog.resolve_name(f.id, cctx.mi)
            if r is None:
                return False
            if ctx.func.name == "__init__" and ctx.ci is not None:
                return r[0] == "class" and r[1].key == ctx.ci.key
            return r[0] == "func" and r[2] is ctx.func
        if isinstance(f, ast.Attribute):
            if ctx.func.name == "__init__" and ctx.ci is not None:
                # module.Class(...)
                try:
                    t = self._e(cctx, f, cctx.cfg.node_for(call), {}, False, depth + 2)
                except (AnalysisError, RecursionError):
                    return False
                return t == ("cls", ctx.ci.key)
            if ctx.ci is None:
                return False
            try:
                recv = self._e(cctx, f.value, cctx.cfg.node_for(call), {}, False, depth + 2)
            except (AnalysisError, RecursionError):
                return False
            keys = set()
            for a in S.alternatives(recv):
                if a[0] == "self":
                    keys.add(a[1])
                elif a[0] == "call" and a[1].startswith("new:"):
                    keys.add(a[1][4:])
            if keys:
                for k in keys:
                    ci = self._class_by_key(k)
                    if ci is not None and any(c.key == ctx.ci.key for c in self.prog.mro(ci)):
                        return True
                return False
            # receiver of unknown type: only if no other class of the package has a method of this name
            owners = [c for mi in self.prog.infos.values() for c in mi.classes.values() if ctx.func.name in c.methods]
            return len(owners) == 1
        return False

    def _param_annotation(self, ctx: FuncCtx, index) -> ClassInfo | None:
        args = list(ctx.func.args.posonlyargs) + list(ctx.func.args.args)
        if index is None or index >= len(args):
            return None
        ann = args[index].annotation
        if ann is None:
            return None
        if isinstance(ann, ast.Constant) and isinstance(ann.value, str):
            nm = ann.value
        elif isinstance(ann, ast.Name):
            nm = ann.id
        else:
            return None
        r = self.prog.resolve_name(nm, ctx.mi)
        if r and r[0] == "class":
            return r[1]
        return None

    def _param_ctype(self, ctx: FuncCtx, index):
        """Parameter annotated with a cstruct struct type (`x: c_vhd.footer | None`)."""
        args = list(ctx.func.args.posonlyargs) + list(ctx.func.args.args)
        if index is None or index >= len(args) or args[index].annotation is None:
            return None
        ann = args[index].annotation
        cands = []
        stack = [ann]
        while stack:
            a = stack.pop()
            if isinstance(a, ast.BinOp) and isinstance(a.op, ast.BitOr):
                stack += [a.left, a.right]
            elif isinstance(a, ast.Constant) and isinstance(a.value, str):
                try:
                    stack.append(ast.parse(a.value, mode="eval").body)
                except SyntaxError:
                    pass
            elif isinstance(a, (ast.Attribute, ast.Name)):
                cands.append(a)
        out = []
        for a in cands:
            try:
                v = self.prog.fold(a, ctx.mi, ctx.ci)
            except NotConst:
                continue
            if isinstance(v, CType) and v.is_struct:
                out.append(v)
        return out[0] if len(out) == 1 else None

    # -- attributes -------------------------------------------------------------------
    def attr(self, base, name: str, ctx: FuncCtx | None = None, depth=0):
        k = base[0]
        if k == "call" and base[1] == "ext:struct.Struct" and name == "size" and len(base[2]) == 1 and S.is_const(base[2][0]) and isinstance(base[2][0][1], str):
            import struct as _st

            try:
                return S.C(_st.calcsize(base[2][0][1]))
            except _st.error:
                pass
        if k == "self":
            return self.self_attr(base[1], name, depth)
        if k in ("tuple", "iter", "ite", "join"):
            ntk = self._namedtuple_of(base)
            if ntk is not None:
                fields = self._namedtuple_fields(ntk)
                if fields and name in fields:
                    idx = fields.index(name)
                    if k == "tuple":
                        return base[1][idx]
                    if k == "iter":
                        return ("iter", base[1], idx)
        if k == "call" and base[1].startswith("new:"):
            v = self.self_attr(base[1][4:], name, depth)
            # an attribute of THIS instance: the constructor's parameters are the arguments of this construction
            init = base[1][4:] + ".__init__"
            if base[2] and isinstance(v, tuple) and len(v) == 3 and v[0] == "p" and v[1] == init:
                # (only for an attribute that simply stores a constructor argument; derived attributes keep the class-level term)
                mp = {("p", init, i + 1): a for i, a in enumerate(base[2])}
                fdef = self._func_by_key(init)
                if fdef is not None and base[3]:
                    names = [a.arg for a in fdef.args.posonlyargs + fdef.args.args]
                    for kw, val in base[3]:
                        if kw in names:
                            mp[("p", init, names.index(kw))] = val
                v = S.subst(v, mp)
            return v
        if k == "c":
            v = base[1]
            if isinstance(v, LayoutRef):
                try:
                    return S.C(self.prog._fold_attr(v, name, ast.Name(id=name)))
                except NotConst:
                    return ("attr", base, name)
            if isinstance(v, CType):
                try:
                    return S.C(self.prog._fold_attr(v, name, ast.Name(id=name)))
                except NotConst:
                    return ("attr", base, name)
            return ("attr", base, name)
        if k == "inst":
            return self.field(base, name)
        if k == "mod":
            if not base[1].startswith("ext:"):
                mi = self.prog.infos.get(base[1])
                if mi is not None and ctx is not None:
                    fake = FuncCtxLite(self.prog, mi)
                    return self.global_name(fake, name)
            else:
                from .program import _EXTERNAL_CONSTS
                key = (base[1][4:], name)
                if key in _EXTERNAL_CONSTS:
                    return S.C(_EXTERNAL_CONSTS[key])
            return ("attr", base, name)
        if k == "cls":
            ci = self._class_by_key(base[1])
            if ci is not None:
                for c in self.prog.mro(ci):
                    if name in c.methods:
                        return ("func", f"{c.key}.{name}")
                    if name in c.class_assigns and len(c.class_assigns[name]) == 1:
                        try:
                            return S.C(self.prog.fold_class_level(c.class_assigns[name][0], c))
                        except NotConst:
                            return self._class_level(c, name)
            return ("attr", base, name)
        if k == "join":
            alts = _dedup([self.attr(a, name, ctx, depth + 1) for a in base[1]])
            if all(a[0] == "inst" for a in base[1]):
                # union of struct kinds behind one attribute: keep the kinds that have the field
                good = [a for a in alts if a[0] != "attr"]
                if good:
                    alts = good
            return alts[0] if len(alts) == 1 else ("join", tuple(sorted(alts, key=repr)))
        if k == "ite":
            return ("ite", base[1], self.attr(base[2], name, ctx, depth + 1), self.attr(base[3], name, ctx, depth + 1))
        if k == "bool" and base[1] in ("or", "and") and len(base[2]) == 2 and depth < MAX_DEPTH:
            # (a or b).x is a.x if a else b.x;  (a and b).x is b.x if a else a.x
            a, b = base[2]
            first, second = (a, b) if base[1] == "or" else (b, a)
            return ("ite", a, self.attr(first, name, ctx, depth + 1), self.attr(second, name, ctx, depth + 1))
        if k == "call" and "::" in base[1] and depth < MAX_DEPTH:
            # the result of a factory of the package (`DiskDescriptor.parse(..)` returns `cls(..)`): a *property* of that class read on
            # it is the property's body (its own attributes stay the class-level terms, as everywhere for typed receivers)
            kls = self._returned_class(base[1])
            if kls is not None:
                ci = self._class_by_key(kls)
                for c in (self.prog.mro(ci) if ci is not None else ()):
                    if name in c.methods:
                        if c.is_property(name):
                            return self.inline(c.methods[name], [("self", kls)], {}, depth + 1, force=True)
                        break
        return ("attr", base, name)

    def _returned_class(self, funckey):
        """Class key every return of a function of the package constructs (`return cls(..)` in a classmethod, `return K(..)`)."""
        cache = self.__dict__.setdefault("_ret_class", {})
        if funckey in cache:
            return cache[funckey]
        cache[funckey] = None
        fdef = self._func_by_key(funckey)
        if fdef is None:
            return None
        fctx = self.ctx_of(fdef)
        rets = [n for n in _own_nodes(fdef) if isinstance(n, ast.Return)]
        ks = set()
        for r in rets:
            v = r.value
            if isinstance(v, ast.Call) and isinstance(v.func, ast.Name):
                if v.func.id == "cls" and fctx.is_classmethod and fctx.ci is not None:
                    ks.add(fctx.ci.key)
                    continue
                res = self.prog.resolve_name(v.func.id, fctx.mi)
                if res and res[0] == "class":
                    ks.add(res[1].key)
                    continue
            ks.add(None)
        if len(ks) == 1 and None not in ks:
            cache[funckey] = ks.pop()
        return cache[funckey]

    def _class_by_key(self, key: str) -> ClassInfo | None:
        rel, _, cname = key.partition("::")
        mi = self.prog.infos.get(rel)
        if mi is None:
            return None
        return mi.classes.get(cname)

    def field(self, inst, name: str):
        _, tname, origin = inst[0], inst[1], inst[2]
        lay, st = self._struct(tname, inst)
        if st is None:
            return ("attr", inst, name)
        f = st.get(name)
        if f is None:
            return ("attr", inst, name)
        if f.kind == "struct":
            return ("inst", f.typename, ("member", inst, f.offset))
        size = f.size if f.count is None else (f.total if f.total is not None else 0)
        return ("f", st.name, f.offset, size, f.endian, f.bitoff, f.bitwidth, f.signed and f.count is None, inst)

    def _struct(self, tname, inst=None):
        # struct names are unique across the package's layouts except for generic words;
        # the instance carries its layout key when built from a CType.
        key = inst[3] if inst is not None and len(inst) > 3 else None
        if key is not None:
            mi = self.prog.infos.get(key[0])
            if mi and key[1] in mi.layouts and tname in mi.layouts[key[1]].structs:
                lay = mi.layouts[key[1]]
                return lay, lay.structs[tname]
        for mi in self.prog.infos.values():
            for lay in mi.layouts.values():
                if tname in lay.structs:
                    return lay, lay.structs[tname]
        return None, None

    def self_attr(self, classkey: str, name: str, depth=0):
        ck = (classkey, name)
        if ck in self._attr_cache:
            return self._attr_cache[ck]
        if ck in self._stack:
            return S.unk(f"cyclic-attr:{name}")
        self._stack.append(ck)
        try:
            r = self._self_attr(classkey, name, depth)
        finally:
            self._stack.pop()
        if not S.contains(r, lambda x: isinstance(x, tuple) and x and x[0] == "unk" and str(x[1]).startswith("cyclic")):
            self._attr_cache[ck] = r
        return r

    def _self_attr(self, classkey, name, depth):
        ci = self._class_by_key(classkey)
        selfsym = ("self", classkey)
        if ci is None:
            return ("attr", selfsym, name)
        if depth > MAX_DEPTH:
            return S.unk("depth-attr:" + name)
        mro = self.prog.mro(ci)
        vals = []
        gate_items = []
        for c in mro:
            for (m, stmt, v) in c.self_assigns.get(name, []):
                if _is_cache_rebinding(v, name):
                    continue
                mctx = self.ctx_of(m)
                if isinstance(stmt, ast.AugAssign):
                    vals.append(S.unk(f"mutated:{name}"))
                    continue
                tgt_index = None
                if isinstance(stmt, ast.Assign):
                    for t in stmt.targets:
                        if isinstance(t, (ast.Tuple, ast.List)):
                            for i, e in enumerate(t.elts):
                                if isinstance(e, ast.Attribute) and e.attr == name:
                                    tgt_index = i
                node = mctx.cfg.node_for(stmt)
                if _is_empty_container(v):
                    # a mutable container filled later: its identity is the attribute, not the empty literal
                    val = ("attr", ("self", classkey), name)
                else:
                    val = self._e(mctx, v, node, {}, False, depth + 1)
                if tgt_index is not None:
                    val = self._index_path(val, (tgt_index,), depth)
                if m.name != "__init__" and S.contains(val, lambda x: isinstance(x, tuple) and len(x) == 3 and x[0] == "p"
                                                       and x[1] == mctx.qual and isinstance(x[2], int) and x[2] >= 1):
                    # stored by an ordinary method from that call's own arguments: what a later reader finds depends on the
                    # history of calls, it is not a function of the object's construction - keep the attribute opaque
                    val = ("attr", ("self", classkey), name)
                vals.append(val)
                gate_items.append((m, stmt, val))
            if vals:
                break
        if vals:
            if len(vals) > 1 and len(gate_items) == len(vals) and len({id(m) for m, _, _ in gate_items}) == 1:
                mctx = self.ctx_of(gate_items[0][0])
                idx = {id(st): v for (m, st, v) in gate_items}
                g = self._gate(mctx, [(st, st) for (m, st, v) in gate_items], mctx.func, lambda st: idx[id(st)], {}, depth + 1)
                if g is not None:
                    return g
            vals = _dedup(vals)
            return vals[0] if len(vals) == 1 else ("join", tuple(sorted(vals, key=repr)))
        for c in mro:
            if name in c.methods:
                if c.is_property(name):
                    return self.inline(c.methods[name], [("self", classkey)], {}, depth + 1, force=True)
                return ("func", f"{c.key}.{name}")
            if name in c.class_assigns and len(c.class_assigns[name]) == 1:
                try:
                    return S.C(self.prog.fold_class_level(c.class_assigns[name][0], c))
                except NotConst:
                    return self._class_level(c, name)
        for c in mro:
            ga = c.methods.get("__getattr__")
            if ga is not None:
                tgt = _getattr_delegate(ga)
                if tgt is not None:
                    inner = self.self_attr(classkey, tgt, depth + 1)
                    return self.attr(inner, name, None, depth + 1)
        return ("attr", selfsym, name)

    # -- subscripts -------------------------------------------------------------------
    def subscript(self, base, idx, ctx, depth):
        if base[0] == "ite" and depth < MAX_DEPTH and idx[0] != "slice" and not any(
                S.is_const(a) and isinstance(a[1], CType) for a in S.alternatives(base)):
            # a container chosen by a condition: the element of whichever was chosen
            return ("ite", base[1], self.subscript(base[2], idx, ctx, depth + 1), self.subscript(base[3], idx, ctx, depth + 1))
        if base[0] in ("tuple", "list") and S.is_const(idx) and isinstance(idx[1], int):
            try:
                return base[1][idx[1]]
            except IndexError:
                pass
        if S.is_const(base) and S.is_const(idx):
            try:
                return S.C(base[1][idx[1]])
            except Exception:
                pass
        if S.is_const(base) and isinstance(base[1], CType):
            return ("arrtype", base[1], idx)
        recv = None
        if base[0] == "self":
            recv = base[1]
        elif base[0] == "call" and base[1].startswith("new:"):
            recv = base[1][4:]
        if recv is not None:
            ci = self._class_by_key(recv)
            if ci is not None:
                fm = self.prog.find_method(ci, "__getitem__")
                if fm is not None:
                    return self.inline(fm[1], [("self", recv), idx], {}, depth + 1)
        return ("sub", base, idx)

    # -- calls ------------------------------------------------------------------------
    def _call(self, ctx: FuncCtx, node: ast.Call, at, binds, after, depth):
        rec = lambda n: self._e(ctx, n, at, binds, after, depth + 1)  # noqa: E731
        args = [rec(a) for a in node.args]
        kws = {kw.arg or "**": rec(kw.value) for kw in node.keywords}
        fn = node.func
        # super().__init__(...) etc.
        if (isinstance(fn, ast.Attribute) and isinstance(fn.value, ast.Call) and isinstance(fn.value.func, ast.Name)
                and fn.value.func.id == "super"):
            return S.call("super." + fn.attr, args, kws)
        # bound method call: receiver becomes first argument
        if isinstance(fn, ast.Attribute):
            return self._method_call(ctx, node, rec(fn.value), fn.attr, args, kws, depth)
        f = rec(fn)
        if f[0] == "attr" and isinstance(f[2], str):
            # a bound method kept in a local (`find = self.table.find; find(x)`) is the method call on its receiver
            return self._method_call(ctx, node, f[1], f[2], args, kws, depth)
        return self._call_value(ctx, node, f, args, kws, depth)

    def _method_call(self, ctx: FuncCtx, node: ast.Call, recv, name: str, args, kws, depth):
        if recv[0] == "ite" and depth < MAX_DEPTH and all(a == S.C(None) or (a[0] == "call" and a[1].startswith("ext:")) for a in S.alternatives(recv)):
            # a method of an object chosen by a condition (a Struct / helper object picked from a table)
            return ("ite", recv[1], self._method_call(ctx, node, recv[2], name, args, kws, depth + 1),
                    self._method_call(ctx, node, recv[3], name, args, kws, depth + 1))
        if name in ("unpack", "unpack_from", "pack", "iter_unpack") and recv[0] == "call" and recv[1] == "ext:struct.Struct" and len(recv[2]) == 1 and not kws:
            return S.call("ext:struct." + name, [recv[2][0]] + list(args))  # Struct(fmt).unpack(data) is struct.unpack(fmt, data)
        if name == "digest" and not args and not kws and recv[0] == "call" and recv[1] == "ext:hmac.new" and len(recv[2]) == 3:
            return S.call("ext:hmac.digest", list(recv[2]))  # hmac.new(key, msg, alg).digest() is hmac.digest(key, msg, alg)
        if name == "format" and S.is_const(recv) and type(recv[1]) is str and all(S.is_const(a) and type(a[1]) in (str, int) for a in args):
            # "template".format(constants): a constant (string formatting of literals, nothing of the repository runs)
            kw = {}
            okk = True
            for k_, v_ in kws.items():
                if k_ == "**":
                    if S.is_const(v_) and isinstance(v_[1], dict) and all(type(x) in (str, int) for x in v_[1].values()):
                        kw.update({str(a): b for a, b in v_[1].items()})
                    else:
                        okk = False
                elif S.is_const(v_) and type(v_[1]) in (str, int):
                    kw[k_] = v_[1]
                else:
                    okk = False
            if okk:
                try:
                    return S.C(recv[1].format(*[a[1] for a in args], **kw))
                except Exception:
                    pass
        class _Fn:  # the few attributes of the ast.Attribute the code below reads
            attr = name
        fn = _Fn
        if True:
            target = self.attr(recv, fn.attr, ctx, depth + 1)
            if target[0] == "func" and not target[1].startswith("builtin:"):
                fdef = self._func_by_key(target[1])
                is_method = "." in target[1].split("::")[-1]
                if fdef is not None and is_method and recv[0] in ("self", "call", "cls"):
                    fctx = self.ctx_of(fdef)
                    if fctx.is_static:
                        return self.call_func(target[1], fdef, args, kws, depth)
                    if fctx.is_classmethod:
                        return self.call_func(target[1], fdef, [("cls", fctx.ci.key)] + args, kws, depth)
                    recv_self = recv if recv[0] == "self" else ("self", recv[1][4:]) if recv[0] == "call" and recv[1].startswith("new:") else recv
                    return self.call_func(target[1], fdef, [recv_self] + args, kws, depth)
                if fdef is not None:
                    return self.call_func(target[1], fdef, args, kws, depth)
            if target[0] in ("cls",):
                return self._construct(target[1], args, kws)
            if target[0] == "c" and isinstance(target[1], CType):
                return self._ctype_call(ctx, node, target[1], S.C(1), args, kws)
            if target[0] == "arrtype":
                return self._ctype_call(ctx, node, target[1], target[2], args, kws)
            if target[0] == "attr" and recv[0] == "p" and fn.attr not in _COMMON_METHOD_NAMES and not fn.attr.startswith("__"):
                # an untyped parameter as receiver: a method name that exactly one class of the package defines is that method
                # (what an annotation would have said; receivers with an identity of their own keep it)
                owners = [c for mi_ in self.prog.infos.values() for c in mi_.classes.values() if fn.attr in c.methods]
                if len(owners) == 1 and not owners[0].is_property(fn.attr):
                    c0 = owners[0]
                    fdef = c0.methods[fn.attr]
                    fctx = self.ctx_of(fdef)
                    if not fctx.is_static and not fctx.is_classmethod and ("umo", c0.key, fn.attr) not in self._stack:
                        self._stack.append(("umo", c0.key, fn.attr))
                        try:
                            return self.call_func(f"{c0.key}.{fn.attr}", fdef, [("self", c0.key)] + list(args), kws, depth)
                        finally:
                            self._stack.pop()
            if target[0] == "attr":
                if recv[0] == "mod" and str(recv[1]).startswith("ext:"):
                    args, kws = _positional(f"{recv[1]}.{fn.attr}", args, kws)
                    return S.call(f"{recv[1]}.{fn.attr}", args, kws)
                return S.call("." + fn.attr, [recv] + args, kws)
            if target[0] == "mod" and str(target[1]).startswith("ext:"):
                return S.call(target[1], args, kws)
            if target[0] == "join":
                # e.g. self.get rebinding plus method; pick function alternatives
                funcs = [a for a in target[1] if a[0] == "func"]
                if len(funcs) == 1:
                    fdef = self._func_by_key(funcs[0][1])
                    if fdef is not None:
                        return self.call_func(funcs[0][1], fdef, [recv] + args, kws, depth)
            return S.call("." + fn.attr, [recv] + args, kws)

    def _call_value(self, ctx: FuncCtx, node: ast.Call, f, args, kws, depth):
        if f[0] == "ite" and depth < MAX_DEPTH:
            return ("ite", f[1], self._call_value(ctx, node, f[2], args, kws, depth + 1), self._call_value(ctx, node, f[3], args, kws, depth + 1))
        if f[0] == "call" and f[1] == "ext:operator.attrgetter" and len(f[2]) == 1 and S.is_const(f[2][0]) and isinstance(f[2][0][1], str) and len(args) == 1 and not kws \
                and "." not in f[2][0][1]:
            return self.attr(args[0], f[2][0][1], ctx, depth + 1)  # attrgetter("x")(obj) is obj.x
        if f[0] == "call" and f[1] == "ext:operator.itemgetter" and len(f[2]) == 1 and len(args) == 1 and not kws:
            return self.subscript(args[0], f[2][0], ctx, depth + 1)
        if f[0] == "call" and f[1] == "ext:operator.methodcaller" and f[2] and S.is_const(f[2][0]) and isinstance(f[2][0][1], str) and len(args) == 1 and not kws:
            return self._method_call(ctx, node, args[0], f[2][0][1], list(f[2][1:]), dict(f[3]), depth + 1)
        if f[0] == "func":
            nm = f[1]
            if nm.startswith("builtin:"):
                return self._builtin(nm[8:], args, kws, node)
            fdef = self._func_by_key(nm)
            if fdef is not None:
                return self.call_func(nm, fdef, args, kws, depth)
            return S.call(nm, args, kws)
        if f[0] == "cls":
            return self._construct(f[1], args, kws)
        if f[0] == "mod" and str(f[1]).startswith("ext:"):
            return S.call(f[1], args, kws)
        if f[0] == "c" and isinstance(f[1], CType):
            return self._ctype_call(ctx, node, f[1], S.C(1), args, kws)
        if f[0] == "arrtype":
            return self._ctype_call(ctx, node, f[1], f[2], args, kws)
        if f[0] == "sub" and all(S.is_const(a) and isinstance(a[1], CType) for a in S.alternatives(f[1])):
            # array type chosen at run time: (uint32 | uint64)[n](handle)
            site = ("site", ctx.qual, self._read_site_ordinal(ctx, node))
            return ("read", f[1], f[2], args[0] if args else S.C(None), site)
        if f[0] == "call":
            # call of a call result, e.g. lru_cache(128)(self.f)
            return S.call("(" + S.show(f) + ")", args, kws)
        return S.call(S.show(f), args, kws)

    def _ctype_call(self, ctx: FuncCtx, node: ast.Call, ct: CType, count, args, kws):
        site = ("site", ctx.qual, self._read_site_ordinal(ctx, node))
        src = args[0] if args else S.C(None)
        if kws and not args:
            return S.call("construct:" + ct.name, [], kws)
        rd = ("read", ct.name, count, src, site)
        if ct.is_enum:
            S.ENUM_TYPES.add(ct.name)  # Enum(value): the evaluator maps it to the value itself
        if ct.is_struct and count == S.C(1):
            return ("inst", ct.name, rd, ct.layout_key)
        return rd

    def _read_site_ordinal(self, ctx: FuncCtx, node: ast.Call) -> int:
        if ctx._read_sites is None:
            sites = []
            for n in ast.walk(ctx.func):
                if isinstance(n, ast.Call):
                    sites.append(n)
            sites.sort(key=lambda n: (n.lineno, n.col_offset))
            # ordinal among calls whose callee text mentions a layout variable is fragile;
            # instead number *all* calls with identical unparsed callee text
            ctx._read_sites = sites
        # (names introduced by inlining carry a per-inlining prefix: two inlined copies of one helper are two sites of the same callee)
        norm = lambda n: re.sub(r"__hv\d+_", "", ast.unparse(n.func))  # noqa: E731
        txt = norm(node)
        same = [n for n in ctx._read_sites if norm(n) == txt]
        try:
            return same.index(node)
        except ValueError:
            return -1

    def _builtin(self, name, args, kws, node):
        if name in ("min", "max") and len(args) >= 2 and not kws:
            if all(S.is_const(a) for a in args):
                try:
                    return S.C((min if name == "min" else max)(a[1] for a in args))
                except Exception:
                    pass
            return (name, tuple(args))
        if name == "divmod" and len(args) == 2:
            return ("tuple", (S.op("floordiv", args[0], args[1]), S.op("mod", args[0], args[1])))
        if name == "len" and len(args) == 1:
            a = args[0]
            if S.is_const(a):
                v = a[1]
                if isinstance(v, CType):
                    sz = v.sizeof()
                    if sz is not None:
                        return S.C(sz)
                try:
                    return S.C(len(v))
                except Exception:
                    pass
        if name in ("int", "bool") and len(args) == 1 and S.is_const(args[0]):
            try:
                return S.C({"int": int, "bool": bool}[name](args[0][1]))
            except Exception:
                pass
        if name == "int" and len(args) == 1:
            return args[0]
        return S.call(name, args, kws)

    def _func_by_key(self, key: str) -> ast.FunctionDef | None:
        rel, _, qual = key.partition("::")
        try:
            return self.prog.func(rel, qual)
        except AnalysisError:
            return None

    def call_func(self, key, fdef, args, kws, depth):
        if kws:
            # map keywords to positions
            names = [a.arg for a in list(fdef.args.posonlyargs) + list(fdef.args.args)]
            args = list(args)
            for k, v in list(kws.items()):
                if k in names:
                    i = names.index(k)
                    while len(args) <= i:
                        args.append(None)
                    args[i] = v
                    kws = {a: b for a, b in kws.items() if a != k}
            if any(a is None for a in args):
                return S.call(key, [a if a is not None else S.unk("default") for a in args], kws)
        if not kws and _inlineable(fdef) and depth < MAX_DEPTH and len([k for k in self._stack if k == ("inl", key)]) < 2:
            return self.inline(fdef, args, kws, depth + 1)
        if not kws and depth < MAX_DEPTH and ("inl", key) not in self._stack and not any(
                isinstance(n, (ast.Yield, ast.YieldFrom)) for n in _own_nodes(fdef)):
            # not inlined, but if every return value is a struct instance, keep that type information
            r = self.inline(fdef, args, kws, depth + 1)
            alts = tuple(S.alternatives(r))
            if alts and all(a[0] == "inst" for a in alts) and len({a[1] for a in alts}) == 1:
                # the instance is identified by the call (callee + arguments), not by the read site inside
                a0 = alts[0]
                return ("inst", a0[1], S.call(key, args, kws)) + tuple(a0[3:])
        return S.call(key, args, kws)

    def inline(self, fdef: ast.FunctionDef, args, kws, depth, force=False):
        fctx = self.ctx_of(fdef)
        rets = [n for n in _own_nodes(fdef) if isinstance(n, ast.Return)]
        if not rets:
            return S.C(None)
        binds = {i: a for i, a in enumerate(args)}
        # defaults for missing params
        allargs = list(fdef.args.posonlyargs) + list(fdef.args.args)
        nd = len(fdef.args.defaults)
        for i, a in enumerate(allargs):
            if i not in binds:
                j = i - (len(allargs) - nd)
                if 0 <= j < nd:
                    try:
                        binds[i] = S.C(self.prog.fold(fdef.args.defaults[j], fctx.mi, fctx.ci))
                    except NotConst:
                        binds[i] = S.unk("default")
        key = ("inl", fctx.qual)
        self._stack.append(key)
        try:
            vals = []
            for r in rets:
                if r.value is None:
                    vals.append(S.C(None))
                else:
                    vals.append(self._e(fctx, r.value, fctx.cfg.node_for(r), binds, False, depth + 1))
        finally:
            self._stack.pop()
        vals = _dedup(vals)
        if len(vals) == 1:
            return vals[0]
        return ("join", tuple(sorted(vals, key=repr)))


def args_ann(ctx, index):
    args = list(ctx.func.args.posonlyargs) + list(ctx.func.args.args)
    if index is None or index >= len(args):
        return None
    return args[index].annotation


class FuncCtxLite:
    """Module-level context for resolving names of another module."""

    def __init__(self, prog, mi):
        self.prog = prog
        self.mi = mi
        self.ci = None
        self.func = None
        self.cfg = None
        self.is_static = False
        self.is_classmethod = False
        self.qual = mi.mod.relpath + "::<module>"


def _dedup(xs):
    out = []
    for x in xs:
        if x not in out:
            out.append(x)
    return out


def _own_nodes(func):
    """Nodes of a function body excluding nested function/class scopes."""
    stack = list(func.body)
    while stack:
        n = stack.pop()
        yield n
        for c in ast.iter_child_nodes(n):
            if isinstance(c, (ast.FunctionDef, ast.AsyncFunctionDef, ast.ClassDef, ast.Lambda)):
                continue
            stack.append(c)


_IO_ATTRS = {"seek", "read", "tell", "write", "open", "readinto", "append", "update", "sort"}


def _inlineable(fdef: ast.FunctionDef) -> bool:
    rets = 0
    for n in _own_nodes(fdef):
        if isinstance(n, (ast.While, ast.For, ast.Try, ast.With, ast.Raise, ast.Yield, ast.YieldFrom, ast.If)):
            return False
        if isinstance(n, ast.Return):
            rets += 1
        if isinstance(n, ast.Call) and isinstance(n.func, ast.Attribute) and n.func.attr in _IO_ATTRS:
            return False
    return rets == 1


# parameter names of a few standard-library functions: a keyword argument is the same call as the positional one
_EXT_SIGNATURES = {
    "ext:hashlib.pbkdf2_hmac": ["hash_name", "password", "salt", "iterations", "dklen"],
    "ext:hmac.digest": ["key", "msg", "digest"],
    "ext:hmac.new": ["key", "msg", "digestmod"],
    "ext:hmac.compare_digest": ["a", "b"],
    "ext:struct.unpack": ["format", "buffer"],
    "ext:struct.unpack_from": ["format", "buffer", "offset"],
    "ext:struct.pack": ["format"],
    "ext:base64.b64decode": ["s"],
    "ext:urllib.parse.unquote": ["string"],
    "ext:zlib.decompress": ["data", "wbits", "bufsize"],
}


# method names of built-in / standard-library objects: never attributed to a package class just because only one defines them
_COMMON_METHOD_NAMES = {
    "get", "read", "seek", "tell", "open", "close", "write", "readinto", "readline", "readlines", "peek", "find", "findall", "iterfind",
    "iter", "items", "keys", "values", "append", "extend", "insert", "pop", "remove", "clear", "update", "setdefault", "sort", "copy",
    "index", "count", "join", "split", "rsplit", "strip", "lstrip", "rstrip", "lower", "upper", "encode", "decode", "format",
    "startswith", "endswith", "replace", "partition", "rpartition", "ljust", "rjust", "tobytes", "hex", "digest", "hexdigest", "verify",
    "decrypt", "encrypt", "unpack", "unpack_from", "pack", "group", "groupdict", "match", "search", "fullmatch", "decompress", "exists",
    "is_file", "is_dir", "with_name", "with_suffix", "joinpath", "read_text", "read_bytes", "resolve", "add", "discard", "debug", "info",
    "warning", "error", "exception", "add_argument", "parse_args", "exit", "removeprefix", "removesuffix", "bit_length", "from_bytes",
    "to_bytes", "frombytes", "fromstring", "parse", "size", "dumps", "dump", "loads", "load", "next", "send", "throw",
}


def _positional(name, args, kws):
    sig = _EXT_SIGNATURES.get(name)
    if not sig or not kws:
        return args, kws
    args, kws = list(args), dict(kws)
    while len(args) < len(sig) and sig[len(args)] in kws:
        args.append(kws.pop(sig[len(args)]))
    return args, kws


def _is_empty_container(v: ast.AST) -> bool:
    if isinstance(v, (ast.Dict, ast.List, ast.Set)) and not (getattr(v, "keys", None) or getattr(v, "elts", None)):
        return True
    if isinstance(v, ast.Call) and isinstance(v.func, ast.Name) and v.func.id in ("dict", "list", "set", "OrderedDict", "defaultdict") and not v.args and not v.keywords:
        return True
    return False


def _getattr_delegate(fn: ast.FunctionDef) -> str | None:
    """`def __getattr__(self, a): return getattr(self.X, a)` -> "X"."""
    body = [s for s in fn.body if not (isinstance(s, ast.Expr) and isinstance(s.value, ast.Constant))]
    if len(body) != 1 or not isinstance(body[0], ast.Return):
        return None
    v = body[0].value
    if (isinstance(v, ast.Call) and isinstance(v.func, ast.Name) and v.func.id == "getattr" and len(v.args) == 2
            and isinstance(v.args[0], ast.Attribute) and isinstance(v.args[0].value, ast.Name)
            and v.args[0].value.id == fn.args.args[0].arg and isinstance(v.args[1], ast.Name)
            and v.args[1].id == fn.args.args[1].arg):
        return v.args[0].attr
    return None


def _is_cache_rebinding(v: ast.AST, name: str) -> bool:
    # self.f = lru_cache(N)(self.f)  /  functools.lru_cache(...)(self.f) / cache(self.f)
    if not isinstance(v, ast.Call) or len(v.args) != 1:
        return False
    a = v.args[0]
    if not (isinstance(a, ast.Attribute) and a.attr == name and isinstance(a.value, ast.Name)):
        return False
    f = v.func
    txt = ast.unparse(f)
    return "lru_cache" in txt or txt.split(".")[-1] in ("cache",)
