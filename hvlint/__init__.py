"""hvlint - repository-specific static analysis for dissect.hypervisor (see /verif/DESIGN.md)."""
