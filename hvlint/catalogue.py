"""Catalogue of checker self-test edits: (property, file, name, [(old, new), ...], expected rule substring)."""

MUTANTS = [
    # ---- C04 VHD
    ("C04", "disk/vhd.py", "legacy footer offset -511 -> -510", [("fh.seek(-511, io.SEEK_END)", "fh.seek(-510, io.SEEK_END)")], "footer-location"),
    ("C04", "disk/vhd.py", "feature bit test 2 -> 1", [("footer.features & 0x00000002", "footer.features & 0x00000001")], "legacy-footer-condition"),
    ("C04", "disk/vhd.py", "fixed marker compare weakened", [("footer.data_offset == 0xFFFFFFFFFFFFFFFF", "footer.data_offset >= 0xFFFFFFFF")], "fixed-or-dynamic"),
    ("C04", "disk/vhd.py", "bitmap sectors dropped from data address", [("(sector_offset + self._sector_bitmap_size + offset) * SECTOR_SIZE", "(sector_offset + offset) * SECTOR_SIZE")], "data-address"),
    ("C04", "disk/vhd.py", "bitmap size not rounded up", [("((self._sectors_per_block // 8) + SECTOR_SIZE - 1) // SECTOR_SIZE", "(self._sectors_per_block // 8) // SECTOR_SIZE")], "data-address"),
    ("C04", "disk/vhd.py", "step ignores block remainder", [("read_count = min(count, block_remaining)", "read_count = min(count, self._sectors_per_block)")], "K-SPLIT"),
    ("C04", "disk/vhd.py", "count not advanced by step", [("            count -= read_count\n\n        return b\"\".join(result)", "            count -= 1\n\n        return b\"\".join(result)")], "remaining-advance"),
    ("C04", "disk/vhd.py", "BAT entry stride 4 -> 8", [("self.offset + block * 4", "self.offset + block * 8")], "bat:entry-address"),
    ("C04", "disk/vhd.py", "BAT little endian", [('struct.Struct(">I")', 'struct.Struct("<I")')], "bat:entry-format"),
    ("C04", "disk/vhd.py", "unallocated marker changed", [("if sector_offset == 0xFFFFFFFF:", "if sector_offset == 0xFFFFFFFE:")], "unallocated-marker"),
    ("C04", "disk/vhd.py", "BAT bound check off by one", [("if block + 1 > self.max_entries:", "if block > self.max_entries:")], "index-bound"),
    ("C04", "disk/vhd.py", "sparse and allocated swapped", [("            if sector_offset:\n", "            if not sector_offset:\n")], "K-"),
    ("C04", "disk/vhd.py", "seek removed before data read", [("                self.fh.seek((sector_offset + self._sector_bitmap_size + offset) * SECTOR_SIZE)\n", "")], "seek-before-read"),
    ("C04", "disk/vhd.py", "sector count rounds down", [("count = (length + SECTOR_SIZE - 1) // SECTOR_SIZE", "count = length // SECTOR_SIZE")], "byte-to-sector:count"),
    ("C04", "disk/vhd.py", "fixed disk seek in bytes", [("self.fh.seek(sector * SECTOR_SIZE)", "self.fh.seek(sector)")], "fixed:seek"),
    ("C04", "disk/vhd.py", "size from original_size", [("self.size = self.footer.current_size", "self.size = self.footer.original_size")], "size"),
    ("C04", "disk/c_vhd.py", "footer field order changed", [("    uint64          original_size;\n    uint64          current_size;", "    uint64          current_size;\n    uint64          original_size;")], "K-"),
    ("C04", "disk/c_vhd.py", "dynamic header block_size moved", [("    uint32          max_table_entries;\n    uint32          block_size;", "    uint32          block_size;\n    uint32          max_table_entries;")], "K-"),
    ("C04", "disk/c_vhd.py", "little endian structs", [('cstruct(endian=">")', 'cstruct(endian="<")')], "K-LAYOUT"),
]

TWINS = [
    ("C04", "disk/vhd.py", "locals renamed", [("block, offset = divmod(sector, self._sectors_per_block)\n            block_remaining = self._sectors_per_block - offset\n\n            read_count = min(count, block_remaining)",
                                               "blk, off = divmod(sector, self._sectors_per_block)\n            offset = off\n            block = blk\n            read_count = min(self._sectors_per_block - off, count)")]),
    ("C04", "disk/vhd.py", "shift instead of multiply", [("self.fh.seek((sector_offset + self._sector_bitmap_size + offset) * SECTOR_SIZE)", "self.fh.seek(((sector_offset + offset) << 9) + self._sector_bitmap_size * 512)")]),
    ("C04", "disk/vhd.py", "marker in decimal / helper attr renamed", [("if sector_offset == 0xFFFFFFFF:", "if sector_offset == 4294967295:")]),
    ("C04", "disk/vhd.py", "ceil written with negative floor division", [("count = (length + SECTOR_SIZE - 1) // SECTOR_SIZE", "count = -(-length // SECTOR_SIZE)")]),
    ("C04", "disk/c_vhd.py", "struct field renamed consistently", [("uint64          current_size;", "uint64          cur_size;"), ("disk/vhd.py", "self.footer.current_size", "self.footer.cur_size")]),
]
