"""Check driver: rule-instance bookkeeping, verdicts, known findings, evidence, exit codes."""
from __future__ import annotations

import ast
import hashlib
import json
import os
import sys
import time
import traceback
from pathlib import Path

from . import sym as S
from .loader import AnalysisError, Repo, qualname
from .program import Program
from .recon import Recon

VERIF = Path(__file__).resolve().parent.parent
EVIDENCE = VERIF / "evidence"
KNOWN = VERIF / "known_findings.json"

HOLDS, VIOLATED, UNDECIDED, VANISHED = "HOLDS", "VIOLATED", "UNDECIDED", "ANCHOR-VANISHED"


class Instance:
    def __init__(self, kind, name, rel, func, line, verdict, detail="", expected=None, found=None, construct=None,
                 armed=True, nontrivial=True):
        self.kind = kind
        self.name = name
        self.rel = rel
        self.func = func
        self.line = line
        self.verdict = verdict
        self.detail = detail
        self.expected = expected
        self.found = found
        self.construct = construct
        self.armed = armed
        self.nontrivial = nontrivial

    @property
    def key(self):
        return f"{self.kind}/{self.name}@{self.rel}::{self.func}"

    def to_json(self):
        d = {"rule": self.kind, "instance": self.name, "file": self.rel, "function": self.func, "line": self.line,
             "verdict": self.verdict, "key": self.key}
        for k in ("detail", "expected", "found", "construct"):
            v = getattr(self, k)
            if v not in (None, ""):
                d[k] = v if isinstance(v, (str, int, float, list, dict, bool)) else str(v)
        return d


class World:
    """Everything parsed once per process."""

    def __init__(self, root=None, overrides=None):
        self.repo = Repo(root, overrides)
        self.prog = Program(self.repo)
        self.R = Recon(self.prog)


class Check:
    def __init__(self, prop: str, tier: str, world: World, level: str, quiet=False):
        self.prop = prop
        self.tier = tier
        self.world = world
        self.repo = world.repo
        self.prog = world.prog
        self.R = world.R
        self.level = level
        self.instances: list[Instance] = []
        self.notes: list[str] = []
        self.min_counts: dict[str, int] = {}
        self.analysed_functions: set[str] = set()
        self.analysed_modules: set[str] = set()
        self.quiet = quiet
        self.t0 = time.time()
        self.explanation = ""
        self.assumptions: list[str] = []
        self.trusted_base: list[str] = []
        self.extra: dict = {}
        self.memo: dict = {}  # rule-side caches (never written to the evidence)

    # -- registration -----------------------------------------------------------------
    def where(self, node_or_pair):
        if isinstance(node_or_pair, tuple):
            rel, func = node_or_pair[:2]
            line = node_or_pair[2] if len(node_or_pair) > 2 else 0
            return rel, func, line
        n = node_or_pair
        mod = getattr(n, "_module", None)
        rel = mod.relpath if mod else "?"
        return rel, qualname(n), getattr(n, "lineno", 0)

    def add(self, kind, name, where, verdict, detail="", expected=None, found=None, armed=True, nontrivial=True):
        rel, func, line = self.where(where)
        construct = None
        if not isinstance(where, tuple):
            try:
                construct = where._module.segment(where)[:400]
            except Exception:
                construct = None
        # (rules about *which API is called from where* - K-WHO - read no reconstructed value: the presence of the call is the finding)
        if verdict == VIOLATED and not isinstance(where, tuple) and not kind.startswith("K-WHO"):
            # the analyser's model has a boundary: inside a function that uses constructs it does not interpret (functions
            # passed as values, functools / itertools / operator combinators, structural pattern matching it could not
            # normalise) a mismatch is "cannot decide", never a claimed violation
            why = outside_model(where)
            if why:
                verdict = UNDECIDED
                detail = f"[not decided: the function uses {why}, which is outside the analyser's model] {detail}"
        inst = Instance(kind, name, rel, func, line, verdict, detail, expected, found, construct, armed, nontrivial)
        self.instances.append(inst)
        self.analysed_modules.add(rel)
        self.analysed_functions.add(f"{rel}::{func}")
        return inst

    def holds(self, kind, name, where, detail="", **kw):
        return self.add(kind, name, where, HOLDS, detail, **kw)

    def violated(self, kind, name, where, detail="", **kw):
        return self.add(kind, name, where, VIOLATED, detail, **kw)

    def undecided(self, kind, name, where, detail="", **kw):
        return self.add(kind, name, where, UNDECIDED, detail, **kw)

    def decide(self, ok, kind, name, where, detail="", **kw):
        """ok: True -> HOLDS, False -> VIOLATED, None -> UNDECIDED."""
        v = HOLDS if ok is True else VIOLATED if ok is False else UNDECIDED
        return self.add(kind, name, where, v, detail, **kw)

    def require(self, kind, n):
        self.min_counts[kind] = max(self.min_counts.get(kind, 0), n)

    def note(self, text):
        self.notes.append(text)

    def share(self, prop, pred, minimum=1):
        """Adopt rule instances decided by another property's rule module (same world, same source): a clause that two
        properties have in common is decided once and reported by both.  Adopted instances are prefixed `<prop>:`."""
        from . import rules

        mod = rules.load(prop)
        sub = Check(prop, self.tier, self.world, getattr(mod, "LEVEL", "other"), quiet=True)
        try:
            mod.run(sub)
        except AnalysisError as e:
            self.add("ENGINE", f"{prop}:anchor", ("?", "?", 0), VANISHED, str(e))
            return 0
        n = 0
        for i in sub.instances:
            if pred(i):
                i.name = f"{prop}:{i.name}"
                self.instances.append(i)
                n += 1
        self.analysed_functions |= sub.analysed_functions
        self.analysed_modules |= sub.analysed_modules
        if n < minimum:
            self.add("ENGINE", f"{prop}:shared-instances", ("?", "?", 0), UNDECIDED,
                     f"expected at least {minimum} shared instances from {prop}, found {n}")
        return n

    # -- anchors ----------------------------------------------------------------------
    def func(self, rel, qual):
        return self.R.ctx(rel, qual)

    # -- formula comparison -----------------------------------------------------------
    def formula(self, kind, name, where, got, want, domain=None, names=None, n=120, assume=None):
        """Compare a reconstructed term with the specified one (under the path condition `assume`, if given)."""
        res = S.equiv(got, want, domain=domain, n=n, assume=assume)
        g, w = S.show(got, names), S.show(want, names)
        if res.equal is True:
            return self.holds(kind, name, where, f"{res.method}", expected=w[:600], found=g[:600])
        if res.equal is False and S.opaque_parts(got):
            op = S.opaque_parts(got)[0]
            return self.undecided(kind, name, where, f"the reconstructed value contains a part the analyser cannot interpret (`{S.show(op)[:80]}`): "
                                  "it is not shown equal to the specified value, but a difference cannot be claimed either", expected=w[:600], found=g[:600])
        if res.equal is False:
            wit = {k: (v if isinstance(v, (int, str, bool)) or v is None else repr(v)) for k, v in (res.witness or {}).items()}
            small = {k[:120]: v for k, v in list(wit.items())[:12]}
            return self.violated(kind, name, where, f"terms differ, witness valuation {small}", expected=w[:900], found=g[:900])
        return self.undecided(kind, name, where, f"could not decide ({res.method})", expected=w[:600], found=g[:600])


# ---------------------------------------------------------------------------------------


_COMBINATOR_MODULES = {"functools", "itertools", "operator"}
_MODELLED_CALLABLE_ARGS = {"key"}  # lambda / function as sort / min / max key


def outside_model(node):
    """A reason string if the function enclosing `node` contains constructs the term reconstruction does not interpret."""
    from .loader import enclosing_function

    fn = node if isinstance(node, (ast.FunctionDef, ast.AsyncFunctionDef)) else enclosing_function(node)
    while fn is not None and isinstance(fn, ast.Lambda):
        fn = enclosing_function(fn)
    # a nested closure: judge the outermost function
    outer = fn
    while outer is not None:
        up = enclosing_function(outer)
        if up is None or isinstance(up, ast.Lambda):
            break
        outer = up
    fn = outer
    if fn is None:
        return None
    cached = getattr(fn, "_hv_outside_model", False)
    if cached is not False:
        return cached
    why = None
    mod = getattr(fn, "_module", None)
    comb_names = set()
    if mod is not None:
        for st in ast.walk(mod.tree):
            if isinstance(st, ast.ImportFrom) and st.module and st.module.split(".")[0] in _COMBINATOR_MODULES:
                comb_names |= {a.asname or a.name for a in st.names}
            elif isinstance(st, ast.Import):
                for a in st.names:
                    if a.name.split(".")[0] in _COMBINATOR_MODULES:
                        comb_names.add((a.asname or a.name).split(".")[0] + ".")
    comb_names -= {"lru_cache", "cached_property", "cache", "wraps", "total_ordering"}
    keyword_values = set()
    for n in ast.walk(fn):
        if isinstance(n, ast.keyword) and n.arg in _MODELLED_CALLABLE_ARGS:
            keyword_values.add(id(n.value))
    for n in ast.walk(fn):
        if n is fn:
            continue
        if isinstance(n, (ast.FunctionDef, ast.AsyncFunctionDef)):
            why = f"a nested function `{n.name}` used as a value"
            break
        if isinstance(n, ast.Lambda) and id(n) not in keyword_values:
            why = "a lambda used as a value"
            break
        if getattr(ast, "Match", None) is not None and isinstance(n, ast.Match):
            why = "a match statement"
            break
        if isinstance(n, ast.Call):
            f = n.func
            if isinstance(f, ast.Name) and f.id in comb_names:
                why = f"the combinator `{f.id}`"
                break
            if isinstance(f, ast.Attribute) and isinstance(f.value, ast.Name) and ((f.value.id + ".") in comb_names or f.value.id in comb_names):
                why = f"the combinator `{f.value.id}.{f.attr}`"
                break
    try:
        fn._hv_outside_model = why
    except Exception:
        pass
    return why


def load_known():
    if not KNOWN.exists():
        return []
    try:
        return json.loads(KNOWN.read_text()).get("findings", [])
    except Exception as e:  # pragma: no cover
        raise AnalysisError(f"known_findings.json unreadable: {e}") from e


def finish(chk: Check, seed: int, cmdline: str, write=True) -> int:
    known = [k for k in load_known() if k.get("property") == chk.prop and k.get("status") == "known"]
    known_keys = {k["key"]: k for k in known}
    viol = [i for i in chk.instances if i.verdict == VIOLATED]
    und = [i for i in chk.instances if i.verdict in (UNDECIDED, VANISHED) and i.armed]
    unarmed_und = [i for i in chk.instances if i.verdict in (UNDECIDED, VANISHED) and not i.armed]
    new_viol = [i for i in viol if i.key not in known_keys]
    matched = [i for i in viol if i.key in known_keys]
    out = []
    # instance-count floor
    count_errors = []
    by_kind: dict[str, int] = {}
    for i in chk.instances:
        by_kind[i.kind] = by_kind.get(i.kind, 0) + 1
    for kind, n in chk.min_counts.items():
        # the floor guards against a rule that silently matches (almost) nothing; a refactoring that merges a few sites
        # (two seeks into one helper, three writes into one) must not trip it: 60 % of the hand-confirmed count
        floor = max(1, (n * 3) // 5)
        if by_kind.get(kind, 0) < floor:
            count_errors.append(f"rule {kind}: {by_kind.get(kind, 0)} instances, fewer than {floor} (60 % of the {n} confirmed by hand)")
    chk.new_violations = new_viol
    chk.undecided_armed = und
    chk.count_errors = count_errors
    if not write:
        return 1 if new_viol else 2 if (und or count_errors) else 0
    EVIDENCE.mkdir(exist_ok=True)
    fdir = EVIDENCE / "findings"
    replay_paths = []
    if new_viol:
        fdir.mkdir(exist_ok=True)
    seen_keys = set()
    for i in matched:
        if i.key in seen_keys:
            continue
        seen_keys.add(i.key)
        out.append(f"KNOWN-FINDING: property={chk.prop} {i.key} -- {known_keys[i.key].get('what', '')}")
    for i in new_viol:
        h = hashlib.sha256(i.key.encode()).hexdigest()[:12]
        p = fdir / f"{chk.prop}-{h}.json"
        p.write_text(json.dumps({"property": chk.prop, **i.to_json()}, indent=1, default=str))
        replay_paths.append(str(p))
        out.append(f"VIOLATION property={chk.prop} replay={p}")
        out.append(f"  {i.rel}:{i.line} {i.func}: [{i.kind}/{i.name}] {i.detail}")
        if i.expected:
            out.append(f"    expected: {str(i.expected)[:300]}")
        if i.found:
            out.append(f"    found:    {str(i.found)[:300]}")
    for i in und:
        out.append(f"ANALYSIS-ERROR property={chk.prop} {i.verdict} {i.key}: {i.detail}")
    for c in count_errors:
        out.append(f"ANALYSIS-ERROR property={chk.prop} {c}")
    # evidence
    nontrivial = {i.key for i in chk.instances if i.nontrivial}
    samples = []
    for i in chk.instances:
        if len(samples) >= 8:
            break
        if i.nontrivial and (i.expected or i.found or i.detail):
            samples.append(i.to_json())
    if not samples:
        samples = [i.to_json() for i in chk.instances[:5]]
    armed = [i for i in chk.instances if i.armed]
    discharged = [i for i in armed if i.verdict == HOLDS]
    coverage = {
        "evaluations": len(chk.instances),
        "distinct_nontrivial": len(nontrivial),
        "rule": "one evaluation = one rule instance (a rule applied to one named construct of the current source); "
                "non-trivial = the construct contains at least one input-dependent operand or decides control flow on input; "
                "distinct by (rule, instance, file, function)",
        "samples": samples,
        "obligations": len(armed),
        "discharged": len(discharged),
        "checker_cmd": cmdline,
        "trusted_base": chk.trusted_base or ["CPython ast", "hvlint oracle tables (/verif/hvlint/spec)"],
        "explanation": chk.explanation,
        "exhaustive": True,
        "instances_by_rule": by_kind,
        "instances": [i.to_json() for i in chk.instances],
        "functions_analysed": sorted(chk.analysed_functions),
        "modules": chk.repo.digests(),
        "known_findings_matched": sorted(seen_keys),
        "undecided_unarmed": [i.to_json() for i in unarmed_und],
        "notes": chk.notes,
    }
    coverage.update(chk.extra)
    ev = {
        "property_id": chk.prop,
        "tier": chk.tier,
        "seed": seed,
        "level": chk.level,
        "coverage": coverage,
        "assumptions": chk.assumptions,
        "wall_s": round(time.time() - chk.t0, 3),
        "violations": len(new_viol),
    }
    (EVIDENCE / f"{chk.prop}.json").write_text(json.dumps(ev, indent=1, default=str))
    summary = (f"[{chk.prop}] {len(chk.instances)} rule instances: {len(discharged)} hold, {len(viol)} violated "
               f"({len(matched)} known), {len(und)} undecided; {len(chk.analysed_functions)} functions; "
               f"{ev['wall_s']}s")
    if not chk.quiet:
        for line in out:
            print(line)
        print(summary)
    if new_viol:
        return 1
    if und or count_errors:
        return 2
    return 0


def run_check(prop: str, tier: str, root=None, overrides=None, quiet=False, write=True) -> tuple[int, Check | None]:
    from . import rules

    seed = int(os.environ.get("VERIF_SEED", "0") or 0)
    cmdline = f"/venv/bin/python -m hvlint check {prop} --tier {tier}"
    try:
        world = World(root, overrides)
        mod = rules.load(prop)
        chk = Check(prop, tier, world, getattr(mod, "LEVEL", "other"), quiet=quiet)
        chk.explanation = getattr(mod, "EXPLANATION", "")
        chk.assumptions = list(getattr(mod, "ASSUMPTIONS", []))
        chk.trusted_base = list(getattr(mod, "TRUSTED_BASE", []))
        from . import rulelib as _rulelib
        _rulelib.CURRENT = chk
        try:
            mod.run(chk)
        except AnalysisError as e:
            chk.add("ENGINE", "anchor", ("?", "?", 0), VANISHED, str(e))
        return finish(chk, seed, cmdline, write=write), chk
    except Exception:
        if not quiet:
            print(f"ANALYSIS-ERROR property={prop} internal error")
            traceback.print_exc(file=sys.stdout)
        return 2, None
