"""C04 - VHD: every byte range reads as the guest-visible content (structural clauses)."""
from __future__ import annotations

import ast

from .. import sym as S
from ..engine import HOLDS, UNDECIDED, VIOLATED, Check
from ..loader import AnalysisError
from ..rulelib import (split_alternatives, _byte_to_sector, _typestate, _ValSub, all_alternatives_are_field, appends_in, cmp_subject, decision_fields, decision_on, calls_named, carried_with_entry, check_const, check_layout, check_typestate,
                       conds_sym, eval_conds, fld, insts_in_func, inst_attr, loop_carried, loops_of, same_handle,
                       self_stores, spec_expr, zeros_len)

LEVEL = "other"
TECHNIQUE = ("static analysis: cstruct layout comparison, def-use reconstruction of seek/length/step expressions "
             "compared with the format's address formulas, decision tables by predicate abstraction, seek-before-read typestate")
EXPLANATION = (
    "Decides necessary structural conditions of byte-exact VHD reads from the source: footer / dynamic header layouts "
    "(positional), footer location (-512 / legacy -511 from END, features bit 1), fixed/dynamic dispatch on the data-offset "
    "marker, BAT entry addressing and the 0xFFFFFFFF marker, the data address formula "
    "(bat[block] + ceil(ceil(spb/8)/512) + sector_in_block)*512, the per-block split step min(count, spb - sector%spb) "
    "applied to both loop counters, dispatch allocated->file / unallocated->zeros with lengths step*512, every read "
    "preceded by an absolute seek, and a read path without stores to self. Does NOT decide equality of returned bytes "
    "with guest content for all images (value level)."
)
ASSUMPTIONS = ["terms are compared by normal form and randomised identity testing over integer valuations of their atoms",
               "dissect.util AlignedStream and dissect.cstruct semantics are trusted"]

REL, CREL = "disk/vhd.py", "disk/c_vhd.py"


def canonical_segments(segs, total=None):
    """[(output offset, length, kind, source)] -> maximal runs over the output, gaps (of a pre-zeroed buffer) as zeros; None if
    pieces overlap or run past the buffer."""
    out = []
    pos = 0
    for at, ln, kind, src in sorted((x for x in segs if x[1] > 0), key=lambda x: x[0]):
        if at < pos:
            return None
        if at > pos:
            if total is None:
                return None
            out.append([pos, at - pos, "zeros", None])
        out.append([at, ln, kind, src])
        pos = at + ln
    if total is not None:
        if pos > total:
            return None
        if pos < total:
            out.append([pos, total - pos, "zeros", None])
    merged = []
    for at, ln, kind, src in out:
        if merged and merged[-1][2] == kind and (kind == "zeros" or (src is not None and merged[-1][3] is not None and merged[-1][3] + merged[-1][1] == src)):
            merged[-1][1] += ln
        else:
            merged.append([at, ln, kind, src])
    return [tuple(x) for x in merged]


def _dynamic_by_evaluation(chk: Check, ctx, loop, bs, batkey, fh):
    """DynamicDisk.read_sectors decided on model images: the BAT look-up is interpreted as a table, the loop is evaluated round
    by round and the assembled result - as a map output range -> zeros | file range, however the pieces are collected (list +
    join, or a pre-sized buffer filled in place) - is compared with: block b of the request is zeros when bat[b] is None / 0,
    else the file bytes at (bat[b] + bitmap sectors + sector in block) * 512."""
    from ..rulelib import simulate_assembly
    P1, P2 = ("p", ctx.qual, 1), ("p", ctx.qual, 2)
    rule = ("K-KIND", "dynamic:read-by-evaluation")
    bad = []
    n = 0
    for block_size in (4096, 2 << 20, 512 * 24):
        spb = block_size // 512
        bmp = -(-(spb // 8) // 512)
        tables = [(100, 200, 300, 400), (None, None, None, None), (100, None, 300, None), (None, 100, None, 5000), (0, 7, None, 100 + spb + bmp), (300, 200, 100, None)]
        reqs = [(0, 4 * spb), (0, spb), (1, spb), (spb - 1, 2), (spb + 1, 2 * spb), (1, 3 * spb + 2), (2 * spb, 2 * spb), (3 * spb + 1, 1), (0, 1)]
        if spb > 64:
            tables, reqs = tables[:4], reqs[:6]
        for tab in tables:
            def get(_self, block, _t=tab):
                if not isinstance(block, int) or not 0 <= block < len(_t):
                    raise S.EvalError("block outside the model table")
                return _t[block]
            for sector, count in reqs:
                res = simulate_assembly(chk, ctx, loop, base={bs: block_size, P1: sector, P2: count}, call_models={batkey: get}, own_handle=fh)
                if res is None:
                    return None
                segs, total = res
                want = []
                pos, rem, out = sector, count, 0
                while rem > 0:
                    b, o = divmod(pos, spb)
                    k = min(rem, spb - o)
                    e = tab[b]
                    want.append((out, k * 512, "zeros", None) if not e else (out, k * 512, "file", (e + bmp + o) * 512))
                    out += k * 512
                    pos += k
                    rem -= k
                n += 1
                got_c, want_c = canonical_segments(segs, total), canonical_segments(want, count * 512)
                if total is None and got_c is not None and sum(x[1] for x in got_c) != count * 512:
                    got_c = None
                if got_c != want_c:
                    bad.append(f"block size {block_size}, BAT {tab}, read_sectors({sector}, {count}): assembles {got_c if got_c is not None else segs}, specified {want_c}")
    chk.decide(not bad, *rule, loop, f"{n} model requests (3 block sizes; allocated, sparse, mixed and out-of-order tables; aligned and unaligned "
               "requests) assemble zeros for unallocated blocks and the file bytes at (entry + bitmap + sector in block) * 512 otherwise, each at its "
               "place in the result" if not bad else "; ".join(bad[:2]))
    return not bad


def run(chk: Check):
    R = chk.R
    for name in ("footer", "dynamic_header", "parent_locator"):
        check_layout(chk, CREL, name)
    check_const(chk, CREL, "SECTOR_SIZE", 512, "VHD sector size")

    # ---- read_footer: location and legacy 511-byte form --------------------------------------
    ctx = chk.func(REL, "read_footer")
    seeks = calls_named(ctx, "seek")
    got = []
    for s in seeks:
        a = R.expr(ctx, s.args[0])
        w = R.expr(ctx, s.args[1]) if len(s.args) > 1 else S.C(0)
        got.append((a, w, s))
    want = {(-512, 2), (-511, 2)}
    have = {(a[1], w[1]) for a, w, _ in got if S.is_const(a) and S.is_const(w)}
    chk.decide(have == want if all(S.is_const(a) and S.is_const(w) for a, w, _ in got) else None,
               "K-CONST", "footer-location", ctx.func,
               f"footer seeks (offset, whence) = {sorted(have)}; specified {sorted(want)} (512-byte footer at the end, legacy 511-byte footer)")
    foot = insts_in_func(chk, ctx, "footer")
    if not foot:
        raise AnalysisError("ANCHOR-VANISHED read_footer reads no footer")
    # a footer parsed after seek(-n, END) has only n bytes in front of the end of the file: the struct must fit
    from ..rulelib import layout_of, locate_struct

    _var, lay = layout_of(chk, CREL)
    fst = locate_struct(lay, CREL, "footer")
    offs = sorted(-a[1] for a, w, _ in got if S.is_const(a) and S.is_const(w) and w[1] == 2 and isinstance(a[1], int) and a[1] < 0)
    if fst is not None and offs:
        chk.decide(fst.size <= offs[0], "K-CONSUME", "footer-fits-behind-every-seek", legacy_or(got, ctx),
                   f"the parsed footer structure is {fst.size} bytes; the shortest distance to the end of the file it is parsed at is {offs[0]}"
                   + ("" if fst.size <= offs[0] else ": parsing a legacy footer runs past the end of the file (EOFError), such images cannot be opened"))
    features = fld(chk, foot[0], CREL, "footer", "features")
    legacy = [s for a, w, s in got if S.is_const(a) and a[1] == -511]
    if legacy:
        conds = conds_sym(chk, ctx, legacy[0])
        table = {}
        for v in (0, 1, 2, 3, 0xFFFFFFFD, 0xFFFFFFFF, 0x80000002):
            table[v] = eval_conds(conds, S.Valuation(1, {features: v}))
        want_t = {v: not (v & 2) for v in table}
        chk.decide(table == want_t, "K-DISPATCH", "legacy-footer-condition", legacy[0],
                   f"511-byte footer is tried iff the reserved feature bit 1 is clear: decision table {table}",
                   expected=str(want_t), found=str(table))
    # returned footer: the function returns an instance of footer
    # ---- VHD.__init__: fixed / dynamic dispatch ----------------------------------------------
    ctx = chk.func(REL, "VHD.__init__")
    # every construction of a reader, with the alternatives of a conditional (class or call) split into their own conditions
    table = {}
    key = ("footer", 16)
    for n in ast.walk(ctx.func):
        if not isinstance(n, ast.Call):
            continue
        t = R.expr(ctx, n, ctx.cfg.node_for(n))
        for extra, alt in split_alternatives(t):
            if alt[0] == "call" and alt[1].startswith("new:"):
                cls = alt[1].split("::")[-1]
                conds = conds_sym(chk, ctx, n) + list(extra)
                for v, hit in decision_fields(conds, key, (0, 512, 0xFFFFFFFF, 0xFFFFFFFFFFFFFFFE, 0xFFFFFFFFFFFFFFFF)).items():
                    if hit:
                        table.setdefault(v, []).append(cls)
    want_t = {0: ["DynamicDisk"], 512: ["DynamicDisk"], 0xFFFFFFFF: ["DynamicDisk"], 0xFFFFFFFFFFFFFFFE: ["DynamicDisk"],
              0xFFFFFFFFFFFFFFFF: ["FixedDisk"]}
    chk.decide(table == want_t, "K-DISPATCH", "fixed-or-dynamic", ctx.func,
               "footer.data_offset == 0xFFFFFFFFFFFFFFFF selects the fixed reader, everything else the dynamic reader",
               expected=str(want_t), found=str(table))
    # size
    sup = [n for n in ast.walk(ctx.func) if isinstance(n, ast.Call) and ast.unparse(n.func) == "super().__init__"]
    dctx = chk.func(REL, "Disk.__init__")
    dfoot = None
    size_t = R.self_attr(chk.prog.cls(REL, "Disk").key, "size")
    chk.decide(all_alternatives_are_field(size_t, "footer", 48, 8), "K-FORMULA", "size<-footer.current_size", dctx.func,
               "Disk.size is the footer's current_size (u64 @48), untransformed", found=S.show(size_t)[:300])
    if sup:
        a = R.expr(ctx, sup[0].args[0]) if sup[0].args else S.C(None)
        chk.decide(a[0] == "attr" and a[2] == "size" or a == size_t or S.contains(a, lambda x: x == size_t) or
                   (a[0] == "join" and all(b == size_t for b in a[1])), "K-FORMULA", "stream-size", sup[0],
                   "stream size handed to AlignedStream is the disk's size", found=S.show(a)[:300])

    # ---- VHD._read: byte -> sector conversion ---------------------------------------------------
    _byte_to_sector(chk, REL, "VHD._read", S.C(512))

    # ---- FixedDisk ------------------------------------------------------------------------------
    ctx = chk.func(REL, "FixedDisk.read_sectors")
    env = {"sector": ("p", ctx.qual, 1), "count": ("p", ctx.qual, 2)}
    for s in calls_named(ctx, "seek"):
        chk.formula("K-FORMULA", "fixed:seek", s, R.expr(ctx, s.args[0]), spec_expr("sector * 512", env))
    for s in calls_named(ctx, "read"):
        chk.formula("K-FORMULA", "fixed:read-length", s, R.expr(ctx, s.args[0]), spec_expr("count * 512", env))
    _typestate(chk, ctx, "fixed")

    # ---- BlockAllocationTable.get ---------------------------------------------------------------
    ctx = chk.func(REL, "BlockAllocationTable.get")
    bat_cls = chk.prog.cls(REL, "BlockAllocationTable")
    hdr = inst_attr(chk, REL, "DynamicDisk", "dynamic_header")
    env = {"block": ("p", ctx.qual, 1), "table_offset": fld(chk, hdr, CREL, "dynamic_header", "table_offset"),
           "max_entries": fld(chk, hdr, CREL, "dynamic_header", "max_table_entries")}
    # constructor arguments at the call site in DynamicDisk.__init__
    dctx = chk.func(REL, "DynamicDisk.__init__")
    bat_new = [n for n in ast.walk(dctx.func) if isinstance(n, ast.Call) and R.expr(dctx, n)[0] == "call"
               and R.expr(dctx, n)[1] == "new:" + bat_cls.key]
    if not bat_new:
        raise AnalysisError("ANCHOR-VANISHED DynamicDisk.__init__ builds no BlockAllocationTable")
    bargs = R.expr(dctx, bat_new[0])[2]
    okb = len(bargs) == 3 and bargs[1] == env["table_offset"] and bargs[2] == env["max_entries"]
    chk.decide(okb, "K-PROV", "bat:constructed-from-header", bat_new[0],
               "BlockAllocationTable(fh, header.table_offset, header.max_table_entries): location and entry count are the header's, untransformed",
               found=str([S.show(a)[:100] for a in bargs]))
    binds = {("p", f"{REL}::BlockAllocationTable.__init__", i + 1): a for i, a in enumerate(bargs)}
    for s in calls_named(ctx, "seek"):
        got_t = S.subst(R.expr(ctx, s.args[0]), binds)
        chk.formula("K-FORMULA", "bat:entry-address", s, got_t, spec_expr("table_offset + block * 4", env))
    for s in calls_named(ctx, "read"):
        chk.formula("K-FORMULA", "bat:entry-width", s, R.expr(ctx, s.args[0]), S.C(4))
    fmt = None
    for attr, vals in bat_cls.class_assigns.items():
        for v in vals:
            if isinstance(v, ast.Call) and ast.unparse(v.func) in ("struct.Struct", "Struct") and v.args:
                try:
                    fmt = chk.prog.fold(v.args[0], bat_cls.mod)
                except Exception:
                    fmt = None
                chk.decide(fmt in (">I", "!I", ">L", "!L"), "K-CONST", "bat:entry-format", v,
                           f"BAT entries are big-endian unsigned 32-bit: struct format {fmt!r}", expected="'>I'", found=repr(fmt))
    # unallocated marker and bound check: decision table over the raw entry value
    rets = [n for n in ast.walk(ctx.func) if isinstance(n, ast.Return)]
    raises = [n for n in ast.walk(ctx.func) if isinstance(n, ast.Raise)]
    if not raises:
        chk.violated("K-GATE", "bat:index-bound", ctx.func, "no block index is refused any more: an index beyond the table is answered instead of raising")
    if raises:
        conds = [(S.subst(t, binds), p) for t, p in conds_sym(chk, ctx, raises[0])]
        me = env["max_entries"]
        tab = {}
        for b, m in ((0, 1), (4, 5), (5, 5), (6, 5), (0, 0), (99, 100), (100, 100)):
            tab[(b, m)] = eval_conds(conds, S.Valuation(1, {env["block"]: b, me: m}))
        want_t = {k: k[0] >= k[1] for k in tab}
        chk.decide(tab == want_t, "K-GATE", "bat:index-bound", raises[0],
                   "a block index >= max_table_entries is refused (never read from beyond the table)",
                   expected=str(want_t), found=str(tab))
    if rets:
        # decision by evaluation of the function's exits over the raw entry value: 0xFFFFFFFF (and only it) -> None
        from ..rulelib import func_eval, func_outcomes

        outs = func_outcomes(chk, ctx)
        unp = [x for o in outs if o[3] is not None for x in S.walk(o[3]) if isinstance(x, tuple) and x and x[0] == "call" and x[1].endswith("unpack")]
        ok = None
        found = {}
        if unp:
            subject = ("sub", unp[0], S.C(0))
            bk = bat_cls.key
            fixed = {("p", ctx.qual, 1): 0, R.self_attr(bk, "max_entries"): 10}
            for v in (0, 1, 0x7FFFFFFF, 0xFFFFFFFE, 0xFFFFFFFF):
                ov = dict(fixed)
                ov[subject] = v
                found[v] = func_eval(outs, S.Valuation(1, override=ov))
            ok = all(found[v] == ("return", None if v == 0xFFFFFFFF else v) for v in found)
        chk.decide(ok, "K-CONST", "bat:unallocated-marker", rets[-1],
                   "entry value 0xFFFFFFFF (and only it) is mapped to 'unallocated'", found=str(found)[:300])
    _typestate(chk, ctx, "bat")

    # ---- DynamicDisk.read_sectors ---------------------------------------------------------------
    ctx = chk.func(REL, "DynamicDisk.read_sectors")
    loops = loops_of(ctx)
    if not loops:
        raise AnalysisError("ANCHOR-VANISHED DynamicDisk.read_sectors has no while loop")
    loop = loops[0]
    bs = fld(chk, hdr, CREL, "dynamic_header", "block_size")
    batkey = f"{bat_cls.key}.get"
    fh0 = R.self_attr(chk.prog.cls(REL, "DynamicDisk").key, "fh")
    sim = _dynamic_by_evaluation(chk, ctx, loop, bs, batkey, fh0)
    carried = loop_carried(chk, ctx, loop)
    pname, pinfo = carried_with_entry(chk, carried, ("p", ctx.qual, 1))
    rname, rinfo = carried_with_entry(chk, carried, ("p", ctx.qual, 2))
    if pinfo is None or rinfo is None:
        if sim is None:
            chk.undecided("K-SPLIT", "dynamic:loop-counters", loop, "cannot identify position/remaining loop variables")
        return
    if sim is True and not appends_in(chk, ctx):
        return  # the result is not assembled by appending pieces: the evaluation above is the decision
    POS, REM = pinfo["phi"], rinfo["phi"]
    env = {"POS": POS, "REM": REM, "block_size": bs,
           "BAT": lambda x: S.call(batkey, [("self", bat_cls.key), x])}
    env["spb"] = spec_expr("block_size // 512", env)
    env["STEP"] = spec_expr("min(REM, spb - POS % spb)", env)

    def dom(leaf, rng):
        if leaf == bs:
            return 512 * (1 << rng.randrange(0, 16)) * rng.choice([1, 1, 1, 3])
        if leaf == REM:
            return rng.choice([1, 2, 7, 4096, rng.randrange(1, 1 << 20)])
        return None

    for src, nxt in pinfo["next"]:
        chk.formula("K-SPLIT", "dynamic:position-advance", loop, nxt, spec_expr("POS + STEP", env), domain=dom)
    for src, nxt in rinfo["next"]:
        chk.formula("K-SPLIT", "dynamic:remaining-advance", loop, nxt, spec_expr("REM - STEP", env), domain=dom)
    fh = R.self_attr(chk.prog.cls(REL, "DynamicDisk").key, "fh")
    # (with the evaluation above holding, the per-variable rules speak about the loop; a fast path in front of it - covered by the
    # evaluation - has no loop variables to compare with)
    in_loop = {id(x) for x in ast.walk(loop)}
    scope = (lambda n: id(n) in in_loop) if sim is True else (lambda n: True)
    for s in [x for x in calls_named(ctx, "seek") if scope(x)]:
        chk.formula("K-FORMULA", "dynamic:data-address", s, R.expr(ctx, s.args[0]),
                    spec_expr("(BAT(POS // spb) + ceildiv(spb // 8, 512) + POS % spb) * 512", env), domain=dom)
    n_file = n_zero = 0
    alloc_tab = {}
    for call, t in [(c_, t_) for c_, t_ in appends_in(chk, ctx) if scope(getattr(c_, "_hv_origin", c_))]:
        z = zeros_len(t)
        conds = conds_sym(chk, ctx, call)
        entry = S.call(batkey, [("self", bat_cls.key), spec_expr("POS // spb", env)])
        reach = {}
        # (only the tests on the table entry: conditions a fast path in front of the loop leaves behind say nothing about it)
        on_entry = [(c, p) for c, p in conds if S.contains(c, lambda x: x == entry)]
        for v in (None, 0, 1, 2, 0x1000):
            reach[v] = eval_conds(on_entry, _ValSub(entry, v))
        if z is not None:
            n_zero += 1
            chk.formula("K-SPLIT", "dynamic:zeros-length", call, z, spec_expr("STEP * 512", env), domain=dom)
            alloc_tab["ZEROS"] = reach
        elif t[0] == "call" and t[1] == ".read":
            n_file += 1
            chk.formula("K-SPLIT", "dynamic:read-length", call, t[2][1], spec_expr("STEP * 512", env), domain=dom)
            chk.decide(same_handle(t[2][0], fh), "K-DISPATCH", "dynamic:read-from-own-file", call,
                       "allocated blocks are read from the image handle", found=S.show(t[2][0])[:200])
            alloc_tab["FILE"] = reach
        else:
            chk.violated("K-DISPATCH", "dynamic:unknown-effect", call, f"appended data is neither zeros nor a file read: {S.show(t)[:200]}")
    want = {"ZEROS": {None: True, 0: True, 1: False, 2: False, 0x1000: False},
            "FILE": {None: False, 0: False, 1: True, 2: True, 0x1000: True}}
    chk.decide(alloc_tab == want, "K-DISPATCH", "dynamic:allocated-vs-sparse", loop,
               "unallocated (None) -> zeros; allocated sector offset -> file read", expected=str(want), found=str(alloc_tab))
    _typestate(chk, ctx, "dynamic")
    # sectors per block / bitmap size attributes are derived in __init__: covered through inlining above
    # ---- purity ---------------------------------------------------------------------------------
    for q in ("VHD._read", "FixedDisk.read_sectors", "DynamicDisk.read_sectors", "BlockAllocationTable.get",
              "BlockAllocationTable.__getitem__"):
        c = chk.func(REL, q)
        st = self_stores(c.func)
        chk.decide(not st, "K-PURE", f"no-self-store:{q}", st[0][0] if st else c.func,
                   "read path does not store to self" if not st else st[0][1], nontrivial=False)
    chk.require("K-FORMULA", 8)
    chk.require("K-SPLIT", 4)
    chk.require("K-TYPESTATE", 3)
    chk.require("K-LAYOUT", 3)


def legacy_or(got, ctx):
    for a, w, s_ in got:
        if S.is_const(a) and a[1] == -511:
            return s_
    return ctx.func
