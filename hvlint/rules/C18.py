"""C18 - VM configuration files: the disk list is exactly the VM's hard disks (structural clauses)."""
from __future__ import annotations

import ast
import re

from .. import sym as S
from ..engine import Check
from ..loader import AnalysisError
from ..program import NotConst
from ..recon import _own_nodes
from ..rulelib import split_alternatives, conds_sym, eval_conds, func_outcomes, reach_table

LEVEL = "other"
TECHNIQUE = ("static analysis: constant tables and XPath literals parsed into steps / predicate sets, decision table of the disk "
             "filter by predicate abstraction, provenance of dictionary keys (lower-cased before storage, lower-case literals at look-up)")
EXPLANATION = (
    "Decides table / predicate clauses that the disk lists depend on: VMX dictionary parsing (lines split at \\n, blank and # lines "
    "skipped, split at the first '=', key stripped and lower-cased, value stripped of spaces and quotes, unconditional store so the "
    "last assignment wins), device classes exactly {scsi, sata, ide, nvme}, device properties grouped by class and bus:unit id, every literal key looked up in those dictionaries is "
    "lower-case, the disk filter's decision table {file name present and (no device type or 'disk' in its lower-cased value)}; OVF "
    "namespace URIs, the three XPaths (steps and the ResourceType = 17 predicate), attribute names, host-resource handling "
    "(ovf: prefix removed, /disk/ -> disk -> file, /file/ -> file, anything else raises); VirtualBox XPath predicate set "
    "{@location, @type='Normal'}, case-insensitive VDI format test, location yielded; PVS .//Hdd -> SystemName text tested with "
    "`is not None`. Does NOT decide the property for all documents."
)
ASSUMPTIONS = ["ElementPath semantics of xml.etree for the XPath subset used", "OVF resource type 17 = disk drive (DMTF CIM)"]

VMX, OVF, VBOX, PVS = "descriptor/vmx.py", "descriptor/ovf.py", "descriptor/vbox.py", "descriptor/pvs.py"


def xpath_parts(xp: str):
    """-> (steps, predicates): steps without predicates, predicates as a set of normalised strings."""
    preds = set(p.replace(" ", "").replace('"', "'") for p in re.findall(r"\[([^\]]*)\]", xp))
    bare = re.sub(r"\[[^\]]*\]", "", xp)
    steps, cur, depth = [], "", 0
    for ch in bare:
        if ch == "{":
            depth += 1
        elif ch == "}":
            depth -= 1
        if ch == "/" and depth == 0:
            if cur != "":
                steps.append(cur)
            cur = ""
        else:
            cur += ch
    if cur != "":
        steps.append(cur)
    return steps, preds


def run(chk: Check):
    R = chk.R
    # ------------------------------------------------------------------------------------------------ VMX dictionary
    ctx = chk.func(VMX, "_parse_dictionary")
    TXT = ("p", ctx.qual, 0)
    floops = [l for l in ctx.loops if isinstance(l, ast.For)]
    if not floops:
        raise AnalysisError("ANCHOR-VANISHED _parse_dictionary has no loop")
    loop = floops[0]
    it = R.expr(ctx, loop.iter, ctx.cfg.node_of[loop], binds={"__exclude_loop__": loop})
    chk.decide(it == S.call(".split", [TXT, S.C("\n")]), "K-GRAMMAR", "vmx:lines", loop, "the text is split into lines at \\n", found=S.show(it)[:100])
    LINE = S.call(".strip", [("iter", it, None)])
    stores = [n for n in ast.walk(loop) if isinstance(n, ast.Assign) and isinstance(n.targets[0], ast.Subscript)]
    if len(stores) != 1:
        chk.violated("K-GRAMMAR", "vmx:single-unconditional-store", loop, f"{len(stores)} dictionary stores; specified exactly one per line (last assignment wins)")
        return
    st = stores[0]
    key = R.expr(ctx, st.targets[0].slice, ctx.cfg.node_of[st])
    val = R.expr(ctx, st.value, ctx.cfg.node_of[st])
    part = S.call(".partition", [LINE, S.C("=")])
    want_key = S.call(".lower", [S.call(".strip", [("sub", part, S.C(0))])])
    want_key2 = S.call(".strip", [S.call(".lower", [("sub", part, S.C(0))])])
    chk.decide(key in (want_key, want_key2), "K-GRAMMAR", "vmx:key-lowercased", st, "key = text before the first '=', stripped and lower-cased (case-insensitive dictionary)",
               expected=S.show(want_key)[:200], found=S.show(key)[:200])
    want_val = S.call(".strip", [("sub", part, S.C(2)), S.C(' "')])
    chk.decide(val == want_val, "K-GRAMMAR", "vmx:value-unquoted", st, "value = text after the first '=', stripped of blanks and double quotes",
               expected=S.show(want_val)[:200], found=S.show(val)[:200])
    conds = conds_sym(chk, ctx, st)
    # the only guard is the blank / comment skip
    tab = {}
    for line in ("", "# comment", "#x = 1", "a = 1", "a", " = 5"):
        tab[line] = eval_conds(conds, S.Valuation(1, override={LINE: line, S.call(".startswith", [LINE, S.C("#")]): line.startswith("#")}))
    want = {"": False, "# comment": False, "#x = 1": False, "a = 1": True, "a": True, " = 5": True}
    chk.decide(tab == want, "K-GRAMMAR", "vmx:comment-and-blank-skip", st, "blank lines and lines starting with # are skipped, every other line is stored",
               expected=str(want), found=str(tab))
    # ------------------------------------------------------------------------------------------------ VMX.disks
    dctx = chk.func(VMX, "VMX.disks")
    classes = vmx_grouping(chk, dctx)
    # lower-case literals at look-up
    bad = []
    for n in _own_nodes(dctx.func):
        if isinstance(n, ast.Call) and isinstance(n.func, ast.Attribute) and n.func.attr == "get" and n.args and isinstance(n.args[0], ast.Constant) and isinstance(n.args[0].value, str):
            if n.args[0].value != n.args[0].value.lower():
                bad.append(n)
    ectx = chk.func(VMX, "VMX.encrypted")
    for n in ast.walk(ectx.func):
        if isinstance(n, ast.Compare) and len(n.ops) == 1 and isinstance(n.ops[0], (ast.In, ast.NotIn)) and isinstance(n.left, ast.Constant) \
                and isinstance(n.left.value, str) and n.left.value != n.left.value.lower():
            bad.append(n.left)
    uctx = chk.func(VMX, "VMX.unlock_with_phrase")
    for n in ast.walk(uctx.func):
        if isinstance(n, ast.Subscript) and isinstance(n.slice, ast.Constant) and isinstance(n.slice.value, str) and n.slice.value != n.slice.value.lower():
            bad.append(n)
    chk.decide(not bad, "K-PROV", "vmx:lookups-are-lowercase", bad[0] if bad else dctx.func,
               "every literal key looked up in the (lower-cased) dictionary is lower-case" if not bad else
               f"`{ast.unparse(bad[0])[:60]}` contains upper-case characters, but keys are stored lower-cased: the look-up can never match")
    # the filter's decision table: which (file name, device type) pairs contribute to the result
    sites = _collected(chk, dctx)
    if not sites:
        chk.violated("K-DISPATCH", "vmx:disk-filter", dctx.func, "no disk file is collected")
    else:
        a, v, conds = sites[0]
        props = v[2][0] if v[0] == "call" and v[1] == ".get" else None
        fn_t = S.call(".get", [props, S.C("filename")]) if props is not None else None
        dt_t = S.call(".get", [props, S.C("devicetype")]) if props is not None else None
        ok = fn_t is not None and v == fn_t
        tab = {}
        if ok:
            for fn_v in (None, "", "disk.vmdk"):
                for dt_v in (None, "", "scsi-hardDisk", "cdrom-image", "DISK", "atapi-cdrom", "rdm-disk"):
                    ov = {fn_t: fn_v, dt_t: dt_v}
                    if dt_v:
                        ov[S.call(".lower", [dt_t])] = dt_v.lower()
                    tab[(fn_v, dt_v)] = eval_conds(conds, S.Valuation(1, override=ov))
            want = {k: bool(k[0]) and (not k[1] or "disk" in k[1].lower()) for k in tab}
            ok = {k: bool(x) for k, x in tab.items()} == want
        chk.decide(ok, "K-DISPATCH", "vmx:disk-filter", a,
                   "a device contributes its file name iff it has one and its device type is absent or contains 'disk' (case-insensitive)",
                   found=str({k: v_ for k, v_ in tab.items() if bool(v_) != (bool(k[0]) and (not k[1] or 'disk' in (k[1] or '').lower()))}) if tab else S.show(v)[:120])
    rets = [o for o in func_outcomes(chk, dctx) if o[0] == "return"]
    chk.decide(bool(rets) and rets[0][3][0] == "call" and rets[0][3][1] == "sorted", "K-PROV", "vmx:disks-sorted", dctx.func, "the list is returned sorted")

    # ------------------------------------------------------------------------------------------------ OVF
    oci = chk.prog.cls(OVF, "OVF")
    mi = chk.prog.info(OVF)

    def cattr(name):
        vals = oci.class_assigns.get(name)
        if not vals:
            raise AnalysisError(f"ANCHOR-VANISHED {OVF}::OVF.{name}")
        return chk.prog.fold_class_level(vals[0], oci)

    ns = dict(cattr("NS"))
    chk.decide(ns == {"ovf": "http://schemas.dmtf.org/ovf/envelope/1",
                      "rasd": "http://schemas.dmtf.org/wbem/wscim/1/cim-schema/2/CIM_ResourceAllocationSettingData"},
               "K-CONST", "ovf:namespaces", oci.node, "OVF envelope and RASD namespace URIs", found=str(ns))
    for name, steps, preds in (("FILE_XPATH", ["ovf:References", "ovf:File"], set()), ("DISK_XPATH", ["ovf:DiskSection", "ovf:Disk"], set()),
                               ("DISK_DRIVE_XPATH", ["ovf:VirtualSystem", "ovf:VirtualHardwareSection", "ovf:Item"], {"rasd:ResourceType='17'"})):
        got = xpath_parts(cattr(name))
        chk.decide(got == (steps, preds), "K-GRAMMAR", f"ovf:{name}", oci.node, f"steps {steps}, predicates {sorted(preds)}", found=str(got))
    ictx = chk.func(OVF, "OVF.__init__")
    attrs = set()
    for n in ast.walk(ictx.func):
        if isinstance(n, ast.Call) and isinstance(n.func, ast.Attribute) and n.func.attr == "get" and n.args:
            t = R.expr(ictx, n.args[0], ictx.cfg.node_for(n))
            if S.is_const(t) and isinstance(t[1], str):
                attrs.add(t[1])  # the qualified name, however it was put together (format / f-string / helper)
            elif t[0] == "call" and t[1] == ".format" and S.is_const(t[2][0]):
                fmt = t[2][0][1]
                try:
                    attrs.add(fmt.format(**ns))
                except Exception:
                    attrs.add(fmt)
    want_attrs = {"{http://schemas.dmtf.org/ovf/envelope/1}" + a for a in ("id", "href", "diskId", "fileRef")}
    chk.decide(attrs == want_attrs, "K-CONST", "ovf:attribute-names", ictx.func, "ovf:id, ovf:href, ovf:diskId, ovf:fileRef in the OVF namespace", found=str(sorted(attrs)))
    ok_key = R.self_attr(oci.key, "_disks") != R.self_attr(oci.key, "references")
    # _disks[diskId] = references[fileRef]
    st = [n for n in ast.walk(ictx.func) if isinstance(n, ast.Assign) and isinstance(n.targets[0], ast.Subscript) and "_disks" in ast.unparse(n.targets[0])]
    okm = False
    refs_t = R.self_attr(oci.key, "references")
    if st:
        v = R.expr(ictx, st[0].value, ictx.cfg.node_of[st[0]])
        okm = v[0] == "sub" and v[1] == refs_t and "fileRef" in S.show(v[2])
    else:
        # the table built by a dict comprehension: {diskId: references[fileRef] for disk in ...}
        dt = R.self_attr(oci.key, "_disks")
        if dt[0] == "comp" and dt[1] == "dict" and dt[2][0] == "tuple" and len(dt[2][1]) == 2:
            k_, v = dt[2][1]
            okm = v[0] == "sub" and v[1] == refs_t and "fileRef" in S.show(v[2]) and "diskId" in S.show(k_)
    chk.decide(ok_key and okm, "K-PROV", "ovf:disk-to-file", st[0] if st else ictx.func, "disk id -> href of the file the disk references")
    dctx = chk.func(OVF, "OVF.disks")
    ovf_host_resources(chk, dctx, oci)
    outs = func_outcomes(chk, dctx)
    chk.decide(any(o[0] == "raise" for o in outs), "K-DISPATCH", "ovf:unknown-host-resource-raises", dctx.func, "an unknown host-resource form raises")
    fl = [l for l in dctx.loops if isinstance(l, ast.For)]
    if fl:
        it = R.expr(dctx, fl[0].iter, dctx.cfg.node_of[fl[0]], binds={"__exclude_loop__": fl[0]})
        chk.decide(it[0] == "call" and it[1] == ".findall" and it[2][1] == S.C(cattr("DISK_DRIVE_XPATH")), "K-PROV", "ovf:iterates-disk-drives", fl[0],
                   "disks() iterates the hardware items selected by DISK_DRIVE_XPATH")
    # ------------------------------------------------------------------------------------------------ VirtualBox
    vctx = chk.func(VBOX, "VBox.disks")
    vci = chk.prog.cls(VBOX, "VBox")
    fl = [l for l in vctx.loops if isinstance(l, ast.For)]
    ok = False
    if fl:
        it = R.expr(vctx, fl[0].iter, vctx.cfg.node_of[fl[0]], binds={"__exclude_loop__": fl[0]})
        xp = None
        if it[0] == "call" and it[1] == ".findall":
            a = it[2][1]
            if S.is_const(a):
                xp = a[1]
            else:
                # f-string: rebuild from the class constant
                node = fl[0].iter.args[0]
                if isinstance(node, ast.JoinedStr):
                    parts = []
                    for v in node.values:
                        if isinstance(v, ast.Constant):
                            parts.append(v.value)
                        else:
                            try:
                                parts.append(str(chk.prog.fold(v.value, vctx.mi, vci)))
                            except NotConst:
                                parts.append("?")
                    xp = "".join(parts)
        if xp is not None:
            steps, preds = xpath_parts(xp)
            ok = steps == [".", "{http://www.virtualbox.org/}HardDisk"] and preds == {"@location", "@type='Normal'"} and xp.startswith(".//")
        chk.decide(ok, "K-GRAMMAR", "vbox:harddisk-xpath", fl[0], ".//{vbox}HardDisk with predicates {@location, @type='Normal'}", found=str(xp))
        ys = [n for n in ast.walk(vctx.func) if isinstance(n, ast.Yield)]
        oky = False
        if ys:
            t = R.expr(vctx, ys[0].value, vctx.cfg.node_for(ys[0]))
            conds = conds_sym(chk, vctx, ys[0])
            oky = "['location']" in S.show(t) or ".get(" in S.show(t) and "'location'" in S.show(t)
            # the format test by evaluation: yields for 'vdi' in any case, not for anything else
            subj = [x[2][0] for c, p in conds for x in S.walk(c) if isinstance(x, tuple) and x and x[0] == "call" and x[1] in (".lower", ".upper", ".casefold") and x[2]]
            fmt_ok = False
            if subj:
                tab = {v: eval_conds(conds, S.Valuation(1, override={subj[0]: v})) for v in ("VDI", "vdi", "Vdi", "VMDK", "vhd", "vdi2", "")}
                fmt_ok = {k: bool(x) for k, x in tab.items()} == {"VDI": True, "vdi": True, "Vdi": True, "VMDK": False, "vhd": False, "vdi2": False, "": False}
            oky = oky and fmt_ok
        chk.decide(oky, "K-DISPATCH", "vbox:vdi-filter", ys[0] if ys else vctx.func, "location yielded for format == 'vdi' compared case-insensitively")
    # ------------------------------------------------------------------------------------------------ PVS
    pctx = chk.func(PVS, "PVS.disks")
    fl = [l for l in pctx.loops if isinstance(l, ast.For)]
    ok = False
    if fl:
        it = R.expr(pctx, fl[0].iter, pctx.cfg.node_of[fl[0]], binds={"__exclude_loop__": fl[0]})
        ok = it[0] == "call" and it[1] in (".iterfind", ".findall", ".iter") and it[2][1] == S.C(".//Hdd")
        ys = [n for n in ast.walk(pctx.func) if isinstance(n, ast.Yield)]
        if ys:
            t = R.expr(pctx, ys[0].value, pctx.cfg.node_for(ys[0]))
            conds = conds_sym(chk, pctx, ys[0])
            sysn = S.call(".find", [("iter", it, None), S.C("SystemName")])
            # yielded iff the SystemName child exists (an Element must be tested with `is None` / `is not None`, never by truthiness)
            named = [x for c, _p in conds for x in S.walk(c) if isinstance(x, tuple) and x and x[0] == "cmp" and x[1] in ("is", "isnot") and {x[2], x[3]} == {sysn, S.C(None)}]
            present = eval_conds(conds, S.Valuation(1, override={sysn: 12345}))
            absent = eval_conds(conds, S.Valuation(1, override={sysn: None}))
            ok = ok and t == ("attr", sysn, "text") and bool(named) and bool(present) and not absent
    chk.decide(ok, "K-GRAMMAR", "pvs:hdd-system-name", pctx.func, "every .//Hdd contributes the text of its SystemName child, tested with `is not None`")
    chk.require("K-GRAMMAR", 10)
    chk.require("K-DISPATCH", 4)


def _const_seq(t):
    """Values of a constant tuple / list term (a folded constant or a tuple of constants)."""
    if S.is_const(t) and isinstance(t[1], (tuple, list)):
        return list(t[1])
    if isinstance(t, tuple) and t and t[0] in ("tuple", "list") and all(S.is_const(x) for x in t[1]):
        return [x[1] for x in t[1]]
    return None


def _key_path(base):
    """The keys a store's container expression walks through: setdefault(setdefault(D, k1, {}), k2, {}) / D[k1][k2] -> [k1, k2]."""
    path = []
    t = base
    while True:
        if t[0] == "call" and t[1] == ".setdefault" and len(t[2]) >= 2:
            path.append(t[2][1])
            t = t[2][0]
        elif t[0] == "sub" and t[2][0] != "slice":
            path.append(t[2])
            t = t[1]
        else:
            break
    return list(reversed(path)), t


def vmx_grouping(chk: Check, dctx):
    """VMX.disks, grouping of settings into devices, decided by evaluating the store's path conditions and keys on model setting
    names (string methods are interpreted): a setting `<class><bus>[:<unit>].<property>` with class in scsi / sata / ide / nvme is
    stored - once - under keys that tell devices apart exactly by (class, bus:unit), with the property = the text behind the first
    '.'; any other setting is not stored."""
    import itertools
    R = chk.R
    pst = [n for n in _own_nodes(dctx.func) if isinstance(n, ast.Assign) and isinstance(n.targets[0], ast.Subscript)]
    sites = []
    for n in pst:
        node = dctx.cfg.node_of[n]
        base = R.expr(dctx, n.targets[0].value, node)
        prop = R.expr(dctx, n.targets[0].slice, node)
        for extra, alt in split_alternatives(base):
            path, root = _key_path(alt)
            sites.append((n, path + [prop], conds_sym(chk, dctx, n) + [(c, p) for c, p in extra]))
    rule_c = ("K-CONST", "vmx:device-classes")
    if not sites:
        chk.violated("K-PROV", "vmx:devices-keyed-by-class-and-id", dctx.func, "no device property is stored")
        return None
    # the setting name: what the class prefix is tested on
    recv = {}
    for _n, keys, conds in sites:
        for t in [c for c, _ in conds] + keys:
            for x in S.walk(t):
                if isinstance(x, tuple) and x and x[0] == "call" and x[1] in (".startswith", ".split", ".partition", ".removeprefix", ".lstrip") and x[2]:
                    r = x[2][0]
                    while r[0] == "call" and r[1] in (".lower", ".strip") and r[2]:
                        r = r[2][0]
                    if r[0] in ("sub", "iter"):
                        recv[r] = recv.get(r, 0) + 1
    if not recv:
        chk.undecided(*rule_c, pst[0], "cannot find the setting name the device class is decided on")
        return None
    SETTING = max(recv, key=lambda r: (recv[r], -len(repr(r))))
    # loop variables over constant sequences (a class list that was not unrolled): every combination is a possible binding
    iters = {}
    for _n, keys, conds in sites:
        for t in [c for c, _ in conds] + keys:
            for x in S.walk(t):
                if isinstance(x, tuple) and x and x[0] == "iter" and x != SETTING and not S.contains(SETTING, lambda y: y == x):
                    v = _const_seq(x[1])
                    if v is not None and 0 < len(v) <= 12:
                        iters[x] = list(v)
    CLASSES = ("scsi", "sata", "ide", "nvme")
    devs = {}
    for c in CLASSES:
        for ident in ("0:0", "0:1", "1:0", "0", "10:12"):
            for prop in ("filename", "devicetype", "present", "filename.backup"):
                devs[f"{c}{ident}.{prop}"] = (c, ident, prop)
    others = ["ethernet0.present", "floppy0.filename", "displayname", "usb.present", "sound.filename", "serial0.filename", "xscsi0:0.filename",
              "myide0:0.filename", "config.version", "pciBridge0.present", "sched.scsi0:0.shares", "numvcpus"]
    opaque = False
    got = {}
    for name in list(devs) + others:
        hits = []
        for combo in itertools.product(*iters.values()) if iters else [()]:
            ov = {SETTING: name}
            ov.update(dict(zip(iters.keys(), combo)))
            for n, keys, conds in sites:
                val = S.Valuation(1, override=ov)
                try:
                    if eval_conds(conds, val):
                        kv = tuple(S._key(S.ev(k, val)) for k in keys)
                        if not all(isinstance(x, str) for x in kv):
                            opaque = True  # a key that does not evaluate to text: something in it is not interpreted
                        hits.append(kv)
                except S.EvalError:
                    opaque = True
        got[name] = hits
        for _n, keys, conds in sites:
            if any(S.opaque_parts(t) for t in keys + [c for c, _ in conds]):
                opaque = True

    def verdict(ok, kind, inst, where, text, bad):
        if ok:
            chk.decide(True, kind, inst, where, text)
        elif opaque:
            chk.undecided(kind, inst, where, "the store's keys or conditions contain a call the analyser does not interpret: " + bad)
        else:
            chk.violated(kind, inst, where, bad)

    # (a) which settings are device settings
    bad = [f"`{n}` is not stored as a device property" for n in devs if len(got[n]) == 0][:2] + \
          [f"`{n}` is stored as a device property" for n in others if got[n]][:2] + \
          [f"`{n}` is stored {len(got[n])} times" for n in devs if len(got[n]) > 1][:1]
    verdict(not bad, *rule_c, pst[0], "settings of the disk-capable device classes scsi, sata, ide, nvme - and only those, by prefix - are collected "
            f"({len(devs)} device settings and {len(others)} other settings evaluated)", "; ".join(bad))
    chk.decide(True, "K-GRAMMAR", "vmx:class-prefix-test", pst[0], "settings are attributed to a device class by prefix (evaluated with vmx:device-classes)", nontrivial=False)
    if bad:
        return None
    # (b) devices are told apart exactly by (class, bus:unit)
    part_got, part_want = {}, {}
    for n, (c, ident, prop) in devs.items():
        part_got.setdefault(got[n][0][:-1], set()).add(n)
        part_want.setdefault((c, ident), set()).add(n)
    okp = sorted(map(sorted, part_got.values())) == sorted(map(sorted, part_want.values()))
    merged = next((sorted(v)[:3] for v in part_got.values() if len({devs[n][:2] for n in v}) > 1), None)
    verdict(okp, "K-PROV", "vmx:devices-keyed-by-class-and-id", pst[0], "device properties are collected per (device class, bus:unit) pair",
            "device properties are not keyed by the device class as well: devices of different classes at the same bus:unit address are merged "
            f"(a CD-ROM's device type can hide a hard disk, one file name overwrites the other), e.g. {merged}" if merged else
            "settings of one device are spread over several entries")
    # (c) the property name
    badp = [f"`{n}` is stored as property {got[n][0][-1]!r}, specified {devs[n][2]!r}" for n in devs if got[n][0][-1] != devs[n][2]]
    verdict(not badp, "K-GRAMMAR", "vmx:device-property-split", pst[0], "device and property are separated at the first '.'", "; ".join(badp[:2]))
    return (pst[0], CLASSES)


def _collected(chk: Check, ctx):
    """What a function collects into its result: `.append(x)` sites with their path conditions, and the elements of list
    comprehensions with their filters.  -> [(where, element term, [(condition, polarity)])]"""
    R = chk.R
    out = []
    for n in sorted((x for x in _own_nodes(ctx.func) if isinstance(x, ast.Call) and isinstance(x.func, ast.Attribute) and x.func.attr == "append" and len(x.args) == 1),
                    key=lambda x: x.lineno):
        out.append((n, R.expr(ctx, n.args[0], ctx.cfg.node_for(n)), conds_sym(chk, ctx, n)))
    for n in sorted((x for x in _own_nodes(ctx.func) if isinstance(x, ast.ListComp)), key=lambda x: x.lineno):
        t = R.expr(ctx, n, ctx.cfg.node_for(n))
        if t[0] == "comp":
            out.append((n, t[2], conds_sym(chk, ctx, n) + [(c, True) for c in t[4]]))
    return out


def ovf_host_resources(chk: Check, dctx, oci):
    """OVF.disks: how a rasd:HostResource text is resolved, decided by evaluating the yields' conditions and look-up keys on
    concrete texts (string methods are interpreted): an optional `ovf:` PREFIX is removed, `/disk/<id>` goes through the disk
    section, `/file/<id>` through the file references, the key is the last path component, anything else raises."""
    R = chk.R
    DISKS, REFS = R.self_attr(oci.key, "_disks"), R.self_attr(oci.key, "references")
    ys = [n for n in ast.walk(dctx.func) if isinstance(n, ast.Yield)]
    sites = []
    for y in ys:
        t = R.expr(dctx, y.value, dctx.cfg.node_for(y))
        for extra, alt in split_alternatives(t):
            sites.append((y, alt, conds_sym(chk, dctx, y) + [(c, p) for c, p in extra]))
    raises = [n for n in _own_nodes(dctx.func) if isinstance(n, ast.Raise)]
    rconds = [conds_sym(chk, dctx, r) for r in raises]
    texts = [x for _y, t, cs in sites for c, _p in cs for x in S.walk(c) if isinstance(x, tuple) and x and x[0] == "attr" and x[2] == "text"]
    if not texts or not sites:
        chk.undecided("K-DISPATCH", "ovf:host-resource-kinds", dctx.func, "cannot find the host resource text in the conditions of the yields")
        return
    RES = texts[0]
    chk.decide("HostResource" in S.show(RES), "K-PROV", "ovf:host-resource-element", dctx.func, "the text resolved is that of the rasd:HostResource child", found=S.show(RES)[-120:])
    probes = {"ovf:/disk/vmdisk1": ("disks", "vmdisk1"), "/disk/vmdisk1": ("disks", "vmdisk1"), "ovf:/file/file7": ("references", "file7"),
              "/file/file7": ("references", "file7"), "ovf:/disk/a/b": ("disks", "b"), "ovf:/other/x": ("raise", None), "": ("raise", None),
              "vo:/disk/x": ("raise", None), "fvo:/file/y": ("raise", None), "ovf:disk/x": ("raise", None)}
    bad, badpre, badkey = [], [], []
    for text, (want_src, want_key) in probes.items():
        val = S.Valuation(1, override={RES: text})
        hits = []
        for y, t, cs in sites:
            if eval_conds(cs, val):
                src = "disks" if t[0] == "sub" and t[1] == DISKS else "references" if t[0] == "sub" and t[1] == REFS else "?"
                try:
                    key = S.ev(t[2], val) if t[0] == "sub" else None
                except S.EvalError:
                    key = "?"
                hits.append((src, key))
        raised = any(eval_conds(cs, val) for cs in rconds)
        got = hits[0] if len(hits) == 1 else ("raise", None) if not hits and raised else ("?", hits)
        if got != (want_src, want_key):
            msg = f"{text!r}: {got}, specified {(want_src, want_key)}"
            if text.startswith(("vo:", "fvo:")):
                badpre.append(msg)
            elif got[0] == want_src:
                badkey.append(msg)
            else:
                bad.append(msg)
    chk.decide(not bad, "K-DISPATCH", "ovf:host-resource-kinds", dctx.func,
               "/disk/<id> resolves through the disk section, /file/<id> through the references, other forms raise" if not bad else "; ".join(bad[:3]))
    chk.decide(not badkey, "K-PROV", "ovf:reference-key", dctx.func, "the reference is the last path component of the host resource" if not badkey else "; ".join(badkey[:3]))
    chk.decide(not badpre, "K-PROV", "ovf:host-resource-prefix", dctx.func,
               "the optional ovf: prefix of rasd:HostResource is removed (prefix, not character set)" if not badpre else "; ".join(badpre[:3]))
