"""C10 - descriptor-driven multi-extent assembly and size accounting (structural clauses)."""
from __future__ import annotations

import ast
import re

from .. import rx
from .. import sym as S
from ..engine import Check
from ..loader import AnalysisError
from ..program import NotConst
from ..recon import _own_nodes
from ..rulelib import (_typestate, appends_in, calls_named, carried_with_entry, conds_sym, loop_carried, loops_of,
                       reach_table, spec_expr)

LEVEL = "other"
TECHNIQUE = ("static analysis: regex-AST extraction of the extent grammar compared with the type wiring, def-use "
             "reconstruction of the offset bookkeeping and cross-extent split loops, list-form aware bisect rule")
EXPLANATION = (
    "Decides necessary structural conditions of extent assembly: the extent-type alternation of the descriptor grammar "
    "(regex AST) against the types wired in VMDK.__init__ - wiring is a subset of the grammar and every grammar type gets a "
    "reader, is refused, or is a recorded finding (never silently dropped); the access-mode prefilter equals the grammar's "
    "alternation; quoted file names are unquoted once and sector counts converted; each extent's start (bytes and sectors) is "
    "taken from the accumulators before they advance by that extent's own size; the look-up list holds every start but the "
    "first and is searched with bisect_right (Parallels: all starts, bisect_right - 1); cross-extent loops clamp each step to "
    "the current extent's remaining sectors, advance sector/count by it, step the extent index by one under a bound; flat "
    "extents are sized by the descriptor's sector count; Parallels storages are sorted by start and sized by the last end. "
    "Does NOT decide equality of assembled bytes or file-name resolution on real file systems."
)
ASSUMPTIONS = ["terms are compared by normal form and randomised identity testing"]

VREL, HREL = "disk/vmdk.py", "disk/hdd.py"
DATA_TYPES_SPEC = {"FLAT", "SPARSE", "ZERO", "VMFS", "VMFSSPARSE", "VMFSRDM", "VMFSRAW", "SESPARSE"}


def grammar(chk: Check):
    mi = chk.prog.info(VREL)
    vals = mi.assigns.get("RE_EXTENT_DESCRIPTOR")
    if not vals:
        raise AnalysisError("ANCHOR-VANISHED RE_EXTENT_DESCRIPTOR")
    call = vals[0]
    if not (isinstance(call, ast.Call) and ast.unparse(call.func) in ("re.compile", "compile")):
        raise AnalysisError("RE_EXTENT_DESCRIPTOR is not re.compile(<literal>)")
    pat = chk.prog.fold(call.args[0], mi)
    flags = 0
    for a in call.args[1:]:
        txt = ast.unparse(a)
        for part in txt.split("|"):
            part = part.strip().split(".")[-1]
            flags |= getattr(re, part, 0)
    return call, pat, flags


def wiring(chk: Check):
    """extent.type comparisons in VMDK.__init__: {type string: effect} with effect reader class / 'raise'."""
    R = chk.R
    ctx = chk.func(VREL, "VMDK.__init__")
    out = {}
    ext_type = None
    ifs = [n for n in _own_nodes(ctx.func) if isinstance(n, ast.If)]
    for n in ifs:
        t = R.expr(ctx, n.test, ctx.cfg.node_of[n])
        consts = None
        subj = None
        if t[0] == "cmp" and t[1] in ("in", "==") and S.is_const(t[3]):
            v = t[3][1]
            consts = list(v) if isinstance(v, (tuple, list, frozenset)) else [v]
            subj = t[2]
        elif t[0] == "cmp" and t[1] == "in" and t[3][0] in ("list", "tuple"):
            consts = [x[1] for x in t[3][1] if S.is_const(x)]
            subj = t[2]
        if consts is None or not all(isinstance(c, str) and c.isupper() for c in consts):
            continue
        if not (subj[0] == "attr" and subj[2] == "type"):
            continue
        ext_type = subj
        # effect of the branch
        eff = None
        for s in n.body:
            for x in ast.walk(s):
                if isinstance(x, ast.Call):
                    tt = R.expr(ctx, x)
                    if tt[0] == "call" and tt[1].startswith("new:") and "Disk" in tt[1]:
                        eff = tt[1].split("::")[-1]
                if isinstance(x, ast.Raise):
                    eff = eff or "raise"
        for c in consts:
            out[c] = (eff, n)
    return ctx, out, ext_type


def run(chk: Check):
    R = chk.R
    call, pat, flags = grammar(chk)
    types = rx.group_alternatives(pat, flags, "type")
    modes = rx.group_alternatives(pat, flags, "access_mode")
    where_rx = call
    chk.decide(types is not None and modes is not None, "K-GRAMMAR", "grammar-parsable", where_rx,
               f"extent types {sorted(types or [])}; access modes {sorted(modes or [])}")
    if types is None or modes is None:
        return
    ctx, wired, ext_type = wiring(chk)
    init = ctx
    not_in_grammar = sorted(set(wired) - set(types))
    chk.decide(not not_in_grammar, "K-GRAMMAR", "wiring-subset-of-grammar", init.func,
               "every extent type VMDK.__init__ handles can be produced by the descriptor grammar"
               if not not_in_grammar else f"VMDK.__init__ handles {not_in_grammar}, but the grammar RE_EXTENT_DESCRIPTOR never yields these types: "
               "such extent lines are dropped by the parser and the branch is dead", expected=str(sorted(types)), found=str(sorted(wired)))
    unhandled = sorted(t for t in types if t not in wired or wired[t][0] is None)
    # is there a final else that raises for everything unhandled?
    has_else_raise = False
    for t_, (eff, node) in wired.items():
        cur = node
        while cur.orelse and len(cur.orelse) == 1 and isinstance(cur.orelse[0], ast.If):
            cur = cur.orelse[0]
        if cur.orelse and any(isinstance(x, ast.Raise) for s in cur.orelse for x in ast.walk(s)):
            has_else_raise = True
    if has_else_raise:
        unhandled = []
    for t_ in sorted(types):
        if t_ in wired and wired[t_][0] is not None:
            chk.holds("K-GRAMMAR", f"grammar-type-handled:{t_}", wired[t_][1], f"{t_} -> {wired[t_][0]}")
    for t_ in unhandled:
        chk.violated("K-GRAMMAR", f"grammar-type-handled:{t_}", init.func,
                     f"extent lines of type {t_} are accepted by the grammar but VMDK.__init__ neither creates a reader for them nor "
                     "raises: they are silently skipped and the size / offsets of later extents are wrong")
    chk.decide(set(types) <= DATA_TYPES_SPEC, "K-GRAMMAR", "grammar-types-known", where_rx,
               "the grammar yields only extent types of the VMDK specification", expected=str(sorted(DATA_TYPES_SPEC)), found=str(sorted(types)))
    for must in ("FLAT", "SPARSE", "VMFS", "VMFSSPARSE", "SESPARSE"):
        chk.decide(must in types, "K-GRAMMAR", f"grammar-has:{must}", where_rx, f"the grammar accepts {must} extent lines")
    # shape of the other groups: quoted greedy file name, decimal sector counts, anchored
    fshape = rx.group_shape(pat, flags, "filename")
    want_f = [("lit", '"'), ("greedy", 1, "inf", (("any",),)), ("lit", '"')]
    chk.decide(fshape == want_f, "K-GRAMMAR", "filename-group-greedy-quoted", where_rx,
               "the file name is everything between the first and the LAST double quote of the token run (greedy), so names may contain "
               "quotes and blanks" if fshape == want_f else
               f"the file name group is not the greedy quoted form `\".+\"`: {fshape} - a name containing a quote followed by a blank is cut short",
               expected=str(want_f), found=str(fshape))
    for g_ in ("sectors", "start_sector"):
        sh = rx.group_shape(pat, flags, g_)
        okd = sh is not None and len(sh) == 1 and sh[0][0] == "greedy" and sh[0][1] == 1 and sh[0][2] == "inf" and "DIGIT" in str(sh[0][3])
        chk.decide(okd, "K-GRAMMAR", f"group-decimal:{g_}", where_rx, f"{g_} is a decimal number (\\d+)", found=str(sh))
    chk.decide(rx.anchored(pat, flags), "K-GRAMMAR", "grammar-anchored", where_rx, "the extent grammar is anchored at both ends of the line")
    gn = rx.group_names(pat, flags)
    order = [k for k, _ in sorted(gn.items(), key=lambda kv: kv[1])]
    chk.decide(order == ["access_mode", "sectors", "type", "filename", "start_sector", "partition_uuid", "device_identifier"], "K-GRAMMAR", "group-order", where_rx,
               "fields appear in the order access, sectors, type, file name, start sector, partition uuid, device identifier", found=str(order))
    # reader classes per type
    want_reader = {"SPARSE": "SparseDisk", "VMFSSPARSE": "SparseDisk", "SESPARSE": "SparseDisk", "VMFS": "RawDisk", "FLAT": "RawDisk", "ZERO": "ZeroDisk"}
    for t_, rd in want_reader.items():
        if t_ in wired and wired[t_][0] not in (None, "raise"):
            chk.decide(wired[t_][0] == rd, "K-DISPATCH", f"reader-for:{t_}", wired[t_][1], f"{t_} extents are read by {rd}", found=str(wired[t_][0]))
    # access-mode prefilter in DiskDescriptor.parse
    pctx = chk.func(VREL, "DiskDescriptor.parse")
    pref = None
    for n in _own_nodes(pctx.func):
        if isinstance(n, ast.Call) and isinstance(n.func, ast.Attribute) and n.func.attr == "startswith" and n.args:
            try:
                v = chk.prog.fold(n.args[0], pctx.mi)
            except NotConst:
                continue
            if isinstance(v, tuple) and all(isinstance(x, str) and x.endswith(" ") for x in v):
                pref = (n, v)
    if pref is None:
        chk.undecided("K-GRAMMAR", "access-mode-prefilter", pctx.func, "no startswith((...)) prefilter for extent lines")
    else:
        chk.decide({x.rstrip(" ") for x in pref[1]} == set(modes), "K-GRAMMAR", "access-mode-prefilter", pref[0],
                   "the prefilter admits exactly the access modes of the grammar", expected=str(sorted(modes)), found=str(sorted(pref[1])))
    # a failed match is skipped with a warning only for non-matching lines; matched extents are all appended
    app = [n for n in _own_nodes(pctx.func) if isinstance(n, ast.Call) and isinstance(n.func, ast.Attribute) and n.func.attr == "append"]
    # (the appended value may be conditional - a helper that returns None for a malformed line: the alternative that is
    # appended when the pattern matched is what counts)
    def appended_descriptor(a):
        t = R.expr(pctx, a.args[0], pctx.cfg.node_for(a))
        return any(alt[0] == "call" and "ExtentDescriptor" in alt[1] for alt in S.alternatives(t))
    chk.decide(any(appended_descriptor(a) for a in app if a.args),
               "K-PATH", "matched-extents-appended", pctx.func, "every matched extent line becomes an ExtentDescriptor in the extent list")
    # ExtentDescriptor: unquote once, int conversion
    ectx = chk.func(VREL, "ExtentDescriptor.__post_init__")
    src = ast.unparse(ectx.func)
    strips = [n for n in _own_nodes(ectx.func) if isinstance(n, ast.Call) and isinstance(n.func, ast.Attribute) and n.func.attr == "strip"]
    okq = len(strips) == 1 and strips[0].args and isinstance(strips[0].args[0], ast.Constant) and strips[0].args[0].value == '"'
    chk.decide(okq, "K-GRAMMAR", "filename-unquoted-once", ectx.func, "the quoted file name is unquoted exactly once with strip('\"')")
    ints = [n for n in _own_nodes(ectx.func) if isinstance(n, ast.Assign) and isinstance(n.value, ast.Call) and ast.unparse(n.value.func) == "int"]
    chk.decide(any("sectors" in ast.unparse(n.targets[0]) for n in ints), "K-GRAMMAR", "sectors-converted", ectx.func, "sector counts are converted to int")

    bookkeeping(chk, init)
    vmdk_walk(chk)
    storage(chk)
    # Parallels: every storage is stacked on its own (shared with C07)
    from . import C07

    sub = Check("C07", chk.tier, chk.world, "other", quiet=True)
    C07.parallels_chain(sub)
    for i in sub.instances:
        if "parent-is-previous-stream" in i.name or "stack-base-first" in i.name:
            i.name = "C07:" + i.name
            chk.instances.append(i)
    chk.require("K-GRAMMAR", 10)
    chk.require("K-SPLIT", 6)
    chk.require("K-FORMULA", 6)


def bookkeeping(chk: Check, init):
    R = chk.R
    vk = chk.prog.cls(VREL, "VMDK").key
    floops = [l for l in init.loops if isinstance(l, ast.For) and ast.unparse(l.iter) .endswith(".disks")]
    if not floops:
        chk.violated("K-FORMULA", "bookkeeping-loop", init.func, "no loop assigning extent offsets")
        return
    loop = floops[-1]
    it = R.expr(init, loop.iter, init.cfg.node_of[loop], binds={"__exclude_loop__": loop})
    D = ("iter", it, None)
    carried = loop_carried(chk, init, loop)
    sname, sinfo = carried_with_entry(chk, carried, S.C(0))
    others = [(n, i) for n, i in carried.items() if n != sname and i["phi"][0] == "phi" and i["phi"][3] == S.C(0)]
    if sinfo is None or len(others) != 1:
        chk.undecided("K-FORMULA", "bookkeeping-accumulators", loop, f"expected a byte and a sector accumulator starting at 0, found {list(carried)}")
        return
    cname, cinfo = others[0]
    # which one accumulates .size and which .sector_count
    acc = {}
    for n, i in ((sname, sinfo), (cname, cinfo)):
        for _, nx in i["next"]:
            if S.equiv(nx, S.op("add", i["phi"], ("attr", D, "size")), n=30).equal is True:
                acc["bytes"] = (n, i)
            elif S.equiv(nx, S.op("add", i["phi"], ("attr", D, "sector_count")), n=30).equal is True:
                acc["sectors"] = (n, i)
    chk.decide(set(acc) == {"bytes", "sectors"}, "K-FORMULA", "bookkeeping-accumulators", loop,
               "the byte accumulator advances by disk.size and the sector accumulator by disk.sector_count, once per extent",
               found=str({k: v[0] for k, v in acc.items()}))
    if set(acc) != {"bytes", "sectors"}:
        return
    B, Sc = acc["bytes"][1]["phi"], acc["sectors"][1]["phi"]
    # stores disk.offset / disk.sector_offset read the accumulators *before* the advance
    for attr, phi, role in (("offset", B, "byte"), ("sector_offset", Sc, "sector")):
        st = [n for n in ast.walk(loop) if isinstance(n, ast.Assign) and len(n.targets) == 1 and isinstance(n.targets[0], ast.Attribute)
              and n.targets[0].attr == attr]
        ok = len(st) == 1 and R.expr(init, st[0].value, init.cfg.node_of[st[0]]) == phi
        chk.decide(ok, "K-FORMULA", f"extent-start:{role}", st[0] if st else loop,
                   f"disk.{attr} is the accumulated {role} total of the extents before it (read before the accumulator advances)",
                   expected=S.show(phi), found=S.show(R.expr(init, st[0].value, init.cfg.node_of[st[0]])) if st else "no store")
    # look-up list: every start except the first
    apps = [n for n in ast.walk(loop) if isinstance(n, ast.Call) and isinstance(n.func, ast.Attribute) and n.func.attr == "append"]
    if not apps:
        chk.violated("K-FORMULA", "lookup-list", loop, "extent starts are not recorded for the look-up")
        return
    a = apps[0]
    val = R.expr(init, a.args[0])
    conds = conds_sym(chk, init, a)
    tab = reach_table(conds, {"b": B}, [{"b": 0}, {"b": 512}, {"b": 1 << 40}])
    form = "without-first" if tab == [False, True, True] else "with-first" if tab == [True, True, True] else "?"
    chk.decide(val == Sc and form != "?", "K-FORMULA", "lookup-list", a,
               f"the look-up list records the sector start of each extent ({form})", expected=S.show(Sc), found=f"{S.show(val)} / guard table {tab}")
    # stream size
    sup = [n for n in ast.walk(init.func) if isinstance(n, ast.Call) and ast.unparse(n.func) == "super().__init__"]
    if sup and sup[0].args:
        t = R.expr(init, sup[0].args[0])
        ok = S.contains(t, lambda x: x == B) or t == B or (t[0] == "join" and any(S.contains(x, lambda y: y == B) for x in t[1]))
        chk.decide(ok, "K-FORMULA", "stream-size-is-sum", sup[0], "the stream size is the byte accumulator after the loop (sum of extent sizes)", found=S.show(t)[:200])
    # the walk's search must match the list form
    rctx = chk.func(VREL, "VMDK.read_sectors")
    bis = [n for n in _own_nodes(rctx.func) if isinstance(n, ast.Call) and R.expr(rctx, n)[0] == "call" and R.expr(rctx, n)[1].startswith("ext:bisect.")]
    if not bis:
        chk.violated("K-FORMULA", "lookup-search", rctx.func, "no bisect look-up of the starting extent")
    else:
        b = bis[0]
        t = R.expr(rctx, b)
        lst = R.self_attr(vk, "_disk_offsets")
        okargs = t[1] == "ext:bisect.bisect_right" and len(t[2]) == 2 and t[2][1] == ("p", rctx.qual, 1)
        # index value used for the first extent
        wl = loops_of(rctx)
        idx0 = None
        if wl:
            car = loop_carried(chk, rctx, wl[0])
            for n, i in car.items():
                if i["phi"][0] == "phi" and S.contains(i["phi"][3], lambda x: x == t):
                    idx0 = i["phi"][3]
        want = t if form == "without-first" else S.op("sub", t, S.C(1))
        chk.decide(okargs and idx0 is not None and S.equiv(idx0, want, n=30).equal is True, "K-FORMULA", "lookup-search", b,
                   f"starting extent = bisect_right(starts {form}, sector){'' if form == 'without-first' else ' - 1'}",
                   expected=S.show(want)[:200], found=S.show(idx0)[:200] if idx0 is not None else S.show(t)[:200])
    # flat extent size from the descriptor
    for n in _own_nodes(init.func):
        if isinstance(n, ast.Call):
            t = R.expr(init, n)
            if t[0] == "call" and t[1].endswith("::RawDisk") and len(t[2]) >= 2:
                sz = _through_size_property(chk, t[2][1])
                ok = sz[0] == "op" and sz[1] == "mul" and S.C(512) in (sz[2], sz[3]) and any(x[0] == "attr" and x[2] == "sectors" for x in (sz[2], sz[3]))
                chk.decide(ok, "K-FORMULA", "flat-extent-size", n, "a flat extent occupies extent.sectors * 512 bytes", found=S.show(sz)[:160])
            if t[0] == "call" and t[1].endswith("::ZeroDisk") and len(t[2]) >= 1:
                sz = _through_size_property(chk, t[2][0])
                ok = sz[0] == "op" and sz[1] == "mul" and S.C(512) in (sz[2], sz[3]) and any(x[0] == "attr" and x[2] == "sectors" for x in (sz[2], sz[3]))
                chk.decide(ok, "K-FORMULA", "zero-extent-size", n, "a zero extent occupies extent.sectors * 512 bytes", found=S.show(sz)[:160])


def _storage_walk_by_evaluation(chk: Check, ctx, loop, streams, lookup):
    """StorageStream._read decided on model storage lists: the sorted (storage, stream) list and the look-up list are concrete
    tuples, the walk is evaluated round by round and what it assembles - output range -> (stream, offset in that stream) - is
    compared with: sector s belongs to the storage with the greatest start <= s and is read at (s - start) * 512 of its stream."""
    from ..rulelib import simulate_assembly
    from .C04 import canonical_segments
    import bisect
    OFF, LEN = ("p", ctx.qual, 1), ("p", ctx.qual, 2)
    bad = []
    n = 0
    for bounds in ([(0, 8), (8, 24), (24, 32)], [(0, 64)], [(0, 3), (3, 4), (4, 40), (40, 41)]):
        pairs = tuple((S.Rec(f"storage{i}", start=a, end=b), S.Rec(f"stream{i}")) for i, (a, b) in enumerate(bounds))
        starts = tuple(a for a, _ in bounds)
        total = bounds[-1][1]
        reqs = [(0, total * 512), (0, 512), (512 * 3, 512 * 10), (512 * (bounds[0][1]), 512), (512 * (bounds[0][1] - 1), 1024), (512 * 2 + 100, 1000),
                (512 * (total - 1), 512), (512 * 5, 8192)]
        for off, ln in reqs:
            if off // 512 + -(-ln // 512) > total:
                continue
            res = simulate_assembly(chk, ctx, loop, base={streams: pairs, lookup: starts, OFF: off, LEN: ln})
            if res is None:
                return None
            segs, tot = res
            want = []
            sector, count, out = off // 512, -(-ln // 512), 0
            idx = bisect.bisect_right(starts, sector) - 1
            while count > 0 and idx < len(bounds):
                a, b = bounds[idx]
                k = min(b - sector, count)
                want.append((out, k * 512, f"file:{S._key(pairs[idx][1])}", (sector - a) * 512))
                out += k * 512
                sector += k
                count -= k
                idx += 1
            n += 1
            if canonical_segments(segs, tot) != canonical_segments(want, None):
                bad.append(f"storages {bounds}, _read({off}, {ln}): assembles {canonical_segments(segs, tot) or segs}, specified {canonical_segments(want, None)}")
    chk.decide(not bad, "K-KIND", "storage:walk-by-evaluation", loop,
               f"{n} model requests over one, three and four storages read every sector from the stream of the storage it belongs to, at "
               "(sector - start) * 512" if not bad else "; ".join(bad[:2]))
    return not bad


def _through_size_property(chk: Check, sz):
    """`extent.size` where ExtentDescriptor.size is a property whose body is `self.sectors * <512>`: that product for this extent."""
    if sz[0] == "attr" and sz[2] == "size" and chk.prog.has_func(VREL, "ExtentDescriptor.size"):
        ci = chk.prog.cls(VREL, "ExtentDescriptor")
        if ci.is_property("size"):
            fn = ci.methods["size"]
            body = [x for x in fn.body if not (isinstance(x, ast.Expr) and isinstance(x.value, ast.Constant))]
            if len(body) == 1 and isinstance(body[0], ast.Return) and isinstance(body[0].value, ast.BinOp) and isinstance(body[0].value.op, ast.Mult):
                selfname = fn.args.args[0].arg
                l_, r_ = body[0].value.left, body[0].value.right
                for field, const in ((l_, r_), (r_, l_)):
                    if isinstance(field, ast.Attribute) and isinstance(field.value, ast.Name) and field.value.id == selfname:
                        try:
                            c = chk.prog.fold(const, ci.mod, ci)
                        except NotConst:
                            continue
                        if isinstance(c, int):
                            return S.op("mul", ("attr", sz[1], field.attr), S.C(c))
    return sz


def vmdk_walk(chk: Check):
    R = chk.R
    vk = chk.prog.cls(VREL, "VMDK").key
    ctx = chk.func(VREL, "VMDK.read_sectors")
    wl = loops_of(ctx)
    if not wl:
        raise AnalysisError("ANCHOR-VANISHED VMDK.read_sectors has no while loop")
    loop = wl[0]
    car = loop_carried(chk, ctx, loop)
    pn, pi = carried_with_entry(chk, car, ("p", ctx.qual, 1))
    rn, ri = carried_with_entry(chk, car, ("p", ctx.qual, 2))
    idxs = [(n, i) for n, i in car.items() if n not in (pn, rn)]
    if pi is None or ri is None or len(idxs) != 1:
        chk.undecided("K-SPLIT", "vmdk:walk-variables", loop, f"expected sector, count and extent index, found {list(car)}")
        return
    POS, REM = pi["phi"], ri["phi"]
    iname, iinfo = idxs[0]
    IDX = iinfo["phi"]
    disks = R.self_attr(vk, "disks")
    DISK = ("sub", disks, IDX)
    env = {"POS": POS, "REM": REM, "cnt": ("attr", DISK, "sector_count"), "so": ("attr", DISK, "sector_offset")}
    env["STEP"] = spec_expr("min(cnt - (POS - so), REM)", env)
    for _, nx in pi["next"]:
        chk.formula("K-SPLIT", "vmdk:position-advance", loop, nx, spec_expr("POS + STEP", env))
    for _, nx in ri["next"]:
        chk.formula("K-SPLIT", "vmdk:remaining-advance", loop, nx, spec_expr("REM - STEP", env))
    for _, nx in iinfo["next"]:
        chk.formula("K-SPLIT", "vmdk:extent-index-advance", loop, nx, S.op("add", IDX, S.C(1)))
    # the bound on the extent index
    test = R.expr(ctx, loop.test, ctx.cfg.node_of[loop])
    n_disks = S.call("len", [disks])
    tab = {}
    for idx, n, rem in ((0, 1, 5), (1, 1, 5), (2, 3, 5), (3, 3, 5), (0, 1, 0), (5, 3, 1)):
        try:
            tab[(idx, n, rem)] = bool(S.ev(test, S.Valuation(1, override={IDX: idx, n_disks: n, REM: rem})))
        except S.EvalError:
            tab[(idx, n, rem)] = None
    want = {k: (k[2] > 0 and k[0] < k[1]) for k in tab}
    chk.decide(tab == want, "K-SPLIT", "extent-index-bounded", loop,
               "the walk continues only while sectors remain AND the extent index is inside the extent list (the buffered stream "
               "layer over-reads past the last extent whenever the size is not a multiple of the buffer)", expected=str(want), found=str(tab))
    for call, t in appends_in(chk, ctx):
        ok = t[0] == "call" and t[1] == ".read_sectors" and len(t[2]) == 3 and t[2][0] == DISK
        chk.decide(ok, "K-PROV", "vmdk:extent-read", call, "each step reads from the current extent through read_sectors", found=S.show(t)[:200])
        if ok:
            chk.formula("K-PROV", "vmdk:extent-read-sector", call, t[2][1], POS)
            chk.formula("K-SPLIT", "vmdk:extent-read-count", call, t[2][2], env["STEP"])


def storage(chk: Check):
    R = chk.R
    sk = chk.prog.cls(HREL, "StorageStream").key
    init = chk.func(HREL, "StorageStream.__init__")
    streams = R.self_attr(sk, "streams")
    oks = streams[0] == "call" and streams[1] == "sorted"
    key_ok = False
    for n in _own_nodes(init.func):
        if isinstance(n, ast.Call) and isinstance(n.func, ast.Name) and n.func.id == "sorted":
            for kw in n.keywords:
                if kw.arg == "key" and isinstance(kw.value, ast.Lambda):
                    key_ok = ast.unparse(kw.value.body).endswith("[0].start")
            if any(kw.arg == "reverse" for kw in n.keywords):
                key_ok = False
    chk.decide(oks and key_ok, "K-FORMULA", "storages-sorted-by-start", init.func, "storages are ordered by their start sector (ascending)", found=S.show(streams)[:160])
    floops = [l for l in init.loops if isinstance(l, ast.For)]
    if floops:
        loop = floops[0]
        apps = [n for n in ast.walk(loop) if isinstance(n, ast.Call) and isinstance(n.func, ast.Attribute) and n.func.attr == "append"]
        ok = bool(apps) and ast.unparse(apps[0].args[0]).endswith(".start") and not conds_sym(chk, init, apps[0])
        chk.decide(ok, "K-FORMULA", "storage:lookup-list", apps[0] if apps else loop, "the look-up list holds the start of every storage (with-first form)")
        sup = [n for n in ast.walk(init.func) if isinstance(n, ast.Call) and ast.unparse(n.func) == "super().__init__"]
        if sup and sup[0].args:
            t = R.expr(init, sup[0].args[0])
            ok = t[0] == "op" and t[1] == "mul" and S.C(512) in (t[2], t[3]) and S.contains(t, lambda x: isinstance(x, tuple) and x and x[0] == "attr" and x[2] == "end")
            chk.decide(ok, "K-FORMULA", "storage:size-is-last-end", sup[0], "stream size = end sector of the last storage * 512", found=S.show(t)[:200])
    ctx = chk.func(HREL, "StorageStream._read")
    wl = loops_of(ctx)
    if not wl:
        raise AnalysisError("ANCHOR-VANISHED StorageStream._read has no while loop")
    loop = wl[0]
    sim = _storage_walk_by_evaluation(chk, ctx, loop, streams, R.self_attr(sk, "_lookup"))
    car = loop_carried(chk, ctx, loop)
    OFF, LEN = ("p", ctx.qual, 1), ("p", ctx.qual, 2)
    pn, pi = carried_with_entry(chk, car, S.op("floordiv", OFF, S.C(512)))
    rn, ri = carried_with_entry(chk, car, S.op("floordiv", S.op("sub", S.op("add", LEN, S.C(512)), S.C(1)), S.C(512)))
    idxs = [(n, i) for n, i in car.items() if n not in (pn, rn)]
    if pi is None or ri is None or len(idxs) != 1:
        if sim is None:
            chk.undecided("K-SPLIT", "storage:walk-variables", loop, f"expected sector (offset//512), count (ceil(length/512)) and stream index, found {list(car)}")
        return
    POS, REM = pi["phi"], ri["phi"]
    iname, iinfo = idxs[0]
    IDX = iinfo["phi"]
    ENT = ("sub", streams, IDX)
    STOR, STREAM = ("sub", ENT, S.C(0)), ("sub", ENT, S.C(1))
    env = {"POS": POS, "REM": REM, "end": ("attr", STOR, "end"), "start": ("attr", STOR, "start")}
    env["STEP"] = spec_expr("min(end - POS, REM)", env)
    for _, nx in pi["next"]:
        chk.formula("K-SPLIT", "storage:position-advance", loop, nx, spec_expr("POS + STEP", env))
    for _, nx in ri["next"]:
        chk.formula("K-SPLIT", "storage:remaining-advance", loop, nx, spec_expr("REM - STEP", env))
    for _, nx in iinfo["next"]:
        chk.formula("K-SPLIT", "storage:index-advance", loop, nx, S.op("add", IDX, S.C(1)))
    lookup = R.self_attr(sk, "_lookup")
    bis = S.call("ext:bisect.bisect_right", [lookup, S.op("floordiv", OFF, S.C(512))])
    chk.decide(IDX[0] == "phi" and S.equiv(IDX[3], S.op("sub", bis, S.C(1)), n=30).equal is True, "K-FORMULA", "storage:lookup-search", loop,
               "starting storage = bisect_right(all starts, sector) - 1", expected=S.show(S.op("sub", bis, S.C(1)))[:200], found=S.show(IDX[3])[:200] if IDX[0] == "phi" else "?")
    test = R.expr(ctx, loop.test, ctx.cfg.node_of[loop])
    n_streams = S.call("len", [streams])
    tab = {}
    for idx, n, rem in ((0, 1, 5), (1, 1, 5), (2, 3, 5), (3, 3, 5), (0, 1, 0)):
        try:
            tab[(idx, n, rem)] = bool(S.ev(test, S.Valuation(1, override={IDX: idx, n_streams: n, REM: rem})))
        except S.EvalError:
            tab[(idx, n, rem)] = None
    want = {k: (k[2] > 0 and k[0] < k[1]) for k in tab}
    chk.decide(tab == want, "K-SPLIT", "storage:index-bounded", loop, "the walk is bounded by the number of storages", expected=str(want), found=str(tab))
    for s in calls_named(ctx, "seek"):
        chk.formula("K-FORMULA", "storage:seek", s, R.expr(ctx, s.args[0]), spec_expr("(POS - start) * 512", env))
        chk.decide(R.expr(ctx, s.func.value) == STREAM, "K-PROV", "storage:seek-handle", s, "the seek targets the current storage's stream")
    for call, t in appends_in(chk, ctx):
        ok = t[0] == "call" and t[1] == ".read" and t[2][0] == STREAM
        chk.decide(ok, "K-PROV", "storage:read-handle", call, "data is read from the current storage's stream", found=S.show(t)[:160])
        if ok:
            chk.formula("K-SPLIT", "storage:read-length", call, t[2][1], spec_expr("STEP * 512", env))
    _typestate(chk, ctx, "storage")
