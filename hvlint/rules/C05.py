"""C05 - VDI: every byte range reads as the guest-visible content (structural clauses)."""
from __future__ import annotations

import ast

from .. import sym as S
from ..engine import Check
from ..loader import AnalysisError
from ..rulelib import (_typestate, appends_in, calls_named, carried_with_entry, check_const, check_layout,
                       classify_effect, conds_sym, fld, inst_attr, loop_carried, loops_of, reach_table, self_stores,
                       spec_expr)

LEVEL = "other"
TECHNIQUE = ("static analysis: layout comparison, def-use reconstruction of the block split loop and data address, "
             "decision table over the block-map markers")
EXPLANATION = (
    "Decides necessary structural conditions of byte-exact VDI reads: the v1.1 header layout (positional), signature and the "
    "-1 (unallocated) / -2 (zero) markers, signed 32-bit block map of 4*BlocksInHDD bytes at BlocksOffset, "
    "the data address DataOffset + map[offset//BlockSize]*BlockSize + offset%BlockSize, the per-block split step "
    "min(length, BlockSize - offset%BlockSize) applied to offset and length with block index and in-block offset "
    "recomputed from the current offset, the decision table marker -> {-1: parent|zeros, -2: zeros, else file} with "
    "lengths equal to the step, seek-before-read, pure read path. Does NOT decide byte equality with guest content."
)
ASSUMPTIONS = ["terms are compared by normal form and randomised identity testing over integer valuations of their atoms",
               "array('i') is a signed 32-bit little-endian element on the supported platforms"]

REL, CREL = "disk/vdi.py", "disk/c_vdi.py"


def _read_by_evaluation(chk: Check, ctx, loop, bs, doff, m, fh, parent):
    """VDI._read decided on model images: the block map is a concrete tuple, the loop is evaluated round by round and the
    assembled result - a map output range -> zeros | own file range | parent range, however the pieces are collected - is
    compared with: map[b] == -1 -> the parent at the same guest offset (zeros without a parent); -2 -> zeros; otherwise the file
    bytes at offset_data + map[b] * block_size + offset in block."""
    from ..rulelib import simulate_assembly
    from .C04 import canonical_segments
    P1, P2 = ("p", ctx.qual, 1), ("p", ctx.qual, 2)
    bad = []
    n = 0
    for block_size in (4096, 1 << 20, 3 << 19):
        data_offset = 2 << 20
        maps = [(0, 1, 2, 3), (-1, -1, -1, -1), (-2, -2, -2, -2), (3, -1, 0, -2), (-1, 2, -2, 7), (2, 1, 0, -1)]
        reqs = [(0, 4 * block_size), (0, block_size), (512, block_size), (block_size - 512, 1024), (block_size + 512, 2 * block_size),
                (512, 3 * block_size + 1024), (2 * block_size, 2 * block_size), (3 * block_size + 512, 512)]
        for mp in maps:
            for par in (None, S.Rec("parent image")):
                for off, ln in reqs:
                    res = simulate_assembly(chk, ctx, loop, base={bs: block_size, doff: data_offset, m: mp, parent: par, P1: off, P2: ln},
                                            own_handle=fh, parent=parent)
                    if res is None:
                        return None
                    segs, total = res
                    want = []
                    pos, rem, out = off, ln, 0
                    while rem > 0:
                        b, o = divmod(pos, block_size)
                        k = min(rem, block_size - o)
                        e = mp[b]
                        if e == -1:
                            want.append((out, k, "parent", pos) if par is not None else (out, k, "zeros", None))
                        elif e == -2:
                            want.append((out, k, "zeros", None))
                        else:
                            want.append((out, k, "file", data_offset + e * block_size + o))
                        out += k
                        pos += k
                        rem -= k
                    n += 1
                    got_c, want_c = canonical_segments(segs, total), canonical_segments(want, ln)
                    if total is None and got_c is not None and sum(x[1] for x in got_c) != ln:
                        got_c = None
                    if got_c != want_c:
                        bad.append(f"block size {block_size}, map {mp}, {'with' if par is not None else 'no'} parent, _read({off}, {ln}): assembles "
                                   f"{got_c if got_c is not None else segs}, specified {want_c}")
    chk.decide(not bad, "K-KIND", "read-by-evaluation", loop,
               f"{n} model requests (3 block sizes; identity, unallocated, sparse and mixed maps; with and without parent; aligned and unaligned "
               "requests) assemble parent / zeros / own-file ranges as specified, each at its place in the result" if not bad else "; ".join(bad[:2]))
    return not bad


def run(chk: Check):
    R = chk.R
    check_layout(chk, CREL, "HeaderDescriptor")
    check_const(chk, CREL, "VDI_SIGNATURE", 0xBEDA107F, "VDI image signature")
    check_const(chk, CREL, "UNALLOCATED", -1, "block map marker: block not allocated")
    check_const(chk, CREL, "SPARSE", -2, "block map marker: block reads as zeros")
    vk = chk.prog.cls(REL, "VDI").key
    hdr = inst_attr(chk, REL, "VDI", "HeaderDescriptor")
    F = lambda n: fld(chk, hdr, CREL, "HeaderDescriptor", n)  # noqa: E731
    init = chk.func(REL, "VDI.__init__")
    # exposed geometry
    for attr, specf in (("block_size", "block_size"), ("data_offset", "offset_data"), ("sector_size", "sector_size")):
        t = R.self_attr(vk, attr)
        chk.decide(t == F(specf), "K-PROV", f"geometry:{attr}", init.func,
                   f"VDI.{attr} is header field {specf}, untransformed", expected=S.show(F(specf)), found=S.show(t)[:200])
    sup = [n for n in ast.walk(init.func) if isinstance(n, ast.Call) and ast.unparse(n.func) == "super().__init__"]
    if sup:
        a = sup[0].args[0] if sup[0].args else (sup[0].keywords[0].value if sup[0].keywords else None)
        t = R.expr(init, a) if a is not None else S.C(None)
        chk.decide(t == F("disk_size"), "K-PROV", "stream-size", sup[0], "stream size is header DiskSize (u64 @368)",
                   expected=S.show(F("disk_size")), found=S.show(t)[:200])
    else:
        chk.undecided("K-PROV", "stream-size", init.func, "no super().__init__ call")
    # block map load
    m = R.self_attr(vk, "map")
    ok = m[0] == "call" and m[1] == "ext:array.array" and m[2] and m[2][0] == S.C("i")
    chk.decide(ok, "K-CONST", "map-element-type", init.func, "block map elements are signed 32-bit ('i')", found=S.show(m)[:120])
    seeks = calls_named(init, "seek")
    reads = calls_named(init, "read")
    env = {"blocks_offset": F("offset_blocks"), "blocks": F("blocks_in_hdd")}
    mapseek = [s for s in seeks if len(s.args) == 1]
    if mapseek:
        chk.formula("K-FORMULA", "map-address", mapseek[-1], R.expr(init, mapseek[-1].args[0]), spec_expr("blocks_offset", env))
    mapread = [r for r in reads if r.args]
    if mapread:
        chk.formula("K-FORMULA", "map-length", mapread[-1], R.expr(init, mapread[-1].args[0]), spec_expr("4 * blocks", env))
    # the buffer read is the one fed into the map
    fed = [n for n in ast.walk(init.func) if isinstance(n, ast.Call) and isinstance(n.func, ast.Attribute)
           and n.func.attr in ("frombytes", "fromstring")]
    okfed = bool(fed) and all(R.expr(init, n.args[0])[0] == "call" and R.expr(init, n.args[0])[1] == ".read" for n in fed if n.args)
    chk.decide(okfed, "K-PROV", "map-filled-from-read", init.func, "the array is filled from the bytes read at BlocksOffset")

    # ---- _read ----------------------------------------------------------------------------------
    ctx = chk.func(REL, "VDI._read")
    loops = loops_of(ctx) or list(ctx.loops)
    if not loops:
        raise AnalysisError("ANCHOR-VANISHED VDI._read has no loop")
    loop = loops[0]
    sim = _read_by_evaluation(chk, ctx, loop, F("block_size"), F("offset_data"), m, R.self_attr(vk, "fh"), R.self_attr(vk, "parent"))
    carried = loop_carried(chk, ctx, loop)
    pname, pinfo = carried_with_entry(chk, carried, ("p", ctx.qual, 1))
    rname, rinfo = carried_with_entry(chk, carried, ("p", ctx.qual, 2))
    if pinfo is None or rinfo is None:
        if sim is None:
            chk.undecided("K-SPLIT", "loop-counters", loop, "cannot identify offset/length loop variables")
        return
    if sim is True and not appends_in(chk, ctx):
        return  # the result is not assembled by appending pieces: the evaluation above is the decision
    POS, REM = pinfo["phi"], rinfo["phi"]
    bs = F("block_size")
    env = {"POS": POS, "REM": REM, "bs": bs, "data_offset": F("offset_data"),
           "MAP": lambda i: ("sub", m, i)}
    env["STEP"] = spec_expr("min(REM, bs - POS % bs)", env)

    def dom(leaf, rng):
        if leaf == bs:
            return rng.choice([1 << 20, 1 << 16, 4096, 3 << 19, 512])
        if leaf == REM:
            return rng.choice([1, 512, 8192, rng.randrange(1, 1 << 24)])
        return None

    for src, nxt in pinfo["next"]:
        chk.formula("K-SPLIT", "position-advance", loop, nxt, spec_expr("POS + STEP", env), domain=dom)
    for src, nxt in rinfo["next"]:
        chk.formula("K-SPLIT", "remaining-advance", loop, nxt, spec_expr("REM - STEP", env), domain=dom)
    # other loop-carried variables would be a second cursor that can get out of step with the offset
    others = [n for n in carried if n not in (pname, rname)]
    for n in others:
        info = carried[n]
        # a unit cursor is acceptable only if it always equals POS // bs
        good = all(S.equiv(nx, spec_expr("(POS + STEP) // bs", env), domain=dom, n=60).equal is True for _, nx in info["next"])
        good = good and info["phi"][0] == "phi" and S.equiv(info["phi"][3], spec_expr("POS // bs", {**env, "POS": ("p", ctx.qual, 1)}), domain=dom, n=40).equal is True
        chk.decide(good, "K-SPLIT", f"secondary-cursor:{n}", loop,
                   "a second loop cursor must stay equal to offset // block_size", found=S.show(info["next"][0][1])[:200])
    fh = R.self_attr(vk, "fh")
    parent = R.self_attr(vk, "parent")
    for s in calls_named(ctx, "seek"):
        chk.formula("K-FORMULA", "data-address", s, R.expr(ctx, s.args[0]),
                    spec_expr("data_offset + MAP(POS // bs) * bs + POS % bs", env), domain=dom)
    # marker subject: the map look-up as the code spells it
    subj = None
    for call, t in appends_in(chk, ctx):
        for c, _ in conds_sym(chk, ctx, call):
            for x in S.walk(c):
                if isinstance(x, tuple) and x and x[0] == "sub" and x[1] == m:
                    if S.equiv(x[2], spec_expr("POS // bs", env), domain=dom, n=60).equal is True:
                        subj = x
    if subj is None:
        chk.undecided("K-DISPATCH", "marker-table", loop, "cannot find the block map look-up map[offset // block_size] in the dispatch conditions")
        return
    combos = [{"m": v, "parent": p} for v in (-1, -2, 0, 1, 7, 0x7FFFFFFF) for p in (None, 1)]
    table = {(c["m"], c["parent"]): set() for c in combos}
    for call, t in appends_in(chk, ctx):
        eff = classify_effect(t, fh, parent)
        reach = reach_table(conds_sym(chk, ctx, call), {"m": subj, "parent": parent}, combos)
        for c, hit in zip(combos, reach):
            if hit:
                table[(c["m"], c["parent"])].add(eff[0])
        if eff[0] == "ZEROS":
            chk.formula("K-SPLIT", "zeros-length", call, eff[1], env["STEP"], domain=dom)
        elif eff[0] == "FILE":
            chk.formula("K-SPLIT", "read-length", call, eff[2], env["STEP"], domain=dom)
        elif eff[0] == "PARENT":
            args = eff[2]
            chk.decide(len(args) == 2, "K-PROV", "parent-read-arity", call, "parent read takes (offset, length)")
            if len(args) == 2:
                chk.formula("K-FORMULA", "parent-read-offset", call, args[0], POS, domain=dom)
                chk.formula("K-SPLIT", "parent-read-length", call, args[1], env["STEP"], domain=dom)
        else:
            chk.violated("K-DISPATCH", "unknown-effect", call, f"appended data is of no known class: {S.show(t)[:200]}")
    want = {}
    for c in combos:
        v, p = c["m"], c["parent"]
        want[(v, p)] = ({"PARENT"} if p else {"ZEROS"}) if v == -1 else {"ZEROS"} if v == -2 else {"FILE"}
    chk.decide(table == want, "K-DISPATCH", "marker-table", loop,
               "map value x parent -> -1: parent|zeros; -2: zeros; otherwise the image file",
               expected=str(sorted(((k, sorted(v)) for k, v in want.items()), key=str)), found=str(sorted(((k, sorted(v)) for k, v in table.items()), key=str)))
    _typestate(chk, ctx, "read")
    st = self_stores(ctx.func)
    chk.decide(not st, "K-PURE", "no-self-store:VDI._read", st[0][0] if st else ctx.func,
               "read path does not store to self" if not st else st[0][1], nontrivial=False)
    chk.require("K-SPLIT", 4)
    chk.require("K-FORMULA", 3)
    chk.require("K-DISPATCH", 1)
