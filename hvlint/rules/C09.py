"""C09 - parsing never modifies evidence (read-only operation).

The property is itself a statement over all code paths ("every call site that could open a file or invoke
a mutating method"), so it is decided completely:
 R1 K-WHO-open      every file-opening call site has a read-only mode; exactly one writer is allowed: the
                    --output file of the decrypt CLI.
 R2 K-WHO-forbidden no call of a file-system mutating API (on pathlib objects, os, shutil, tempfile, ...).
 R3 K-PROV-write    every .write/.writelines/.truncate (and every cstruct Type.write(stream, ..)) targets a
                    private in-memory io.BytesIO - or the CLI output handle.
"""
from __future__ import annotations

import ast

from .. import sym as S
from ..calls import Resolver, const_kw, iter_calls
from ..engine import HOLDS, UNDECIDED, VIOLATED, Check, World
from ..loader import AnalysisError, enclosing_function, qualname
from ..program import CType, NotConst

LEVEL = "proof"
EXPLANATION = (
    "Whole-package call-site enumeration with callee resolution and def-use provenance of the written-to object: "
    "every open has a read-only constant mode (single allow-listed writer: tools/envelope.py::main, the user-named "
    "--output file), no file-system mutating API is called anywhere, and every write/truncate targets a local "
    "io.BytesIO. Universal over all code paths of the package; writes performed inside dependencies are out of scope "
    "(cstruct reads, zlib, hashlib, Crypto, defusedxml and tarfile in read mode do not write)."
)
ASSUMPTIONS = [
    "no dynamic code (exec/eval/importlib) - reported by the C19 check",
    "dependencies do not write to handles the library passes them for reading",
    "a method call named open/write/... on an object whose class is not defined in the package is treated as the file API",
]
TRUSTED_BASE = ["CPython ast", "import-table callee resolution", "def-use reconstruction (hvlint.recon)"]

READ_MODES = {"r", "rb", "rt", "br", "tr"}
OPEN_FUNCS = {"open", "io.open", "io.open_code", "codecs.open", "gzip.open", "bz2.open", "lzma.open", "tarfile.open",
              "zipfile.ZipFile", "os.fdopen", "builtins.open", "tarfile.TarFile.open", "io.FileIO",
              "dbm.open", "tarfile.TarFile"}
FORBIDDEN_FUNCS_PREFIX = ("shutil.", "tempfile.", "subprocess.", "mmap.", "fileinput.", "ctypes.cdll", "pty.", "socket.")
FORBIDDEN_FUNCS = {
    "os.open", "os.remove", "os.unlink", "os.rename", "os.renames", "os.replace", "os.truncate", "os.ftruncate",
    "os.mkdir", "os.makedirs", "os.rmdir", "os.removedirs", "os.chmod", "os.chown", "os.lchown", "os.utime", "os.link",
    "os.symlink", "os.write", "os.pwrite", "os.writev", "os.system", "os.popen", "os.mkfifo", "os.mknod", "os.fchmod",
    "os.fchown", "os.fsync", "os.setxattr", "os.removexattr", "os.startfile", "os.execv", "os.execve", "os.spawnl",
    "os.posix_spawn", "os.sendfile", "os.copy_file_range", "logging.FileHandler", "logging.handlers.RotatingFileHandler",
    "logging.handlers.TimedRotatingFileHandler", "logging.handlers.WatchedFileHandler", "pickle.dump", "json.dump",
    "marshal.dump", "os.putenv", "os.unsetenv", "os.chdir", "os.chroot",
    # open read-write and create the file by default (no "mode" argument to inspect)
    "sqlite3.connect", "shelve.open", "dbm.gnu.open", "dbm.ndbm.open", "dbm.dumb.open",
}
FORBIDDEN_METHODS = {
    "write_text", "write_bytes", "unlink", "rename", "rmdir", "mkdir", "touch", "chmod", "lchmod", "symlink_to",
    "hardlink_to", "link_to", "rmtree", "makedirs", "truncate_file", "extractall", "extract", "add", "addfile",
}
WRITE_METHODS = {"write", "writelines", "truncate", "writable_write", "writestr"}
# .replace(x) with ONE argument is pathlib.Path.replace (str.replace / bytes.replace need two)


def _is_repo_receiver(world: World, call: ast.Call):
    """The receiver of a method call is an instance of a class of the package that defines the method."""
    f = enclosing_function(call)
    if f is None or not isinstance(call.func, ast.Attribute):
        return None
    try:
        ctx = world.R.ctx_of(f)
        t = world.R.expr(ctx, call.func.value)
    except Exception:
        return None
    key = None
    if t[0] == "self":
        key = t[1]
    elif t[0] == "call" and t[1].startswith("new:"):
        key = t[1][4:]
    elif t[0] == "cls":
        key = t[1]
    if key:
        ci = world.R._class_by_key(key)
        if ci is not None and world.prog.find_method(ci, call.func.attr):
            return key
    return None


def _recv_sym(world: World, node: ast.AST):
    f = enclosing_function(node)
    if f is None:
        return S.unk("module-level")
    try:
        ctx = world.R.ctx_of(f)
        return world.R.expr(ctx, node)
    except Exception as e:  # pragma: no cover
        return S.unk(f"recon-failed:{e}")


def _mode_of(world: World, mi, call: ast.Call, pos: int):
    """-> ('const', value) | ('absent',) | ('dynamic', text) | ('forwarded',)"""
    node = None
    if len(call.args) > pos and not any(isinstance(a, ast.Starred) for a in call.args[: pos + 1]):
        node = call.args[pos]
    kw = const_kw(call, "mode")
    if kw is not None:
        node = kw
    if node is None:
        if any(isinstance(a, ast.Starred) for a in call.args) or any(k.arg is None for k in call.keywords):
            return ("forwarded",)
        return ("absent",)
    try:
        return ("const", world.prog.fold(node, mi))
    except NotConst:
        return ("dynamic", ast.unparse(node))


def _is_cli_output(world: World, call: ast.Call) -> bool:
    """tools/envelope.py::main: <parse_args() result>.output.open("wb") with an --output option declared."""
    mod = call._module
    f = enclosing_function(call)
    if mod.relpath != "tools/envelope.py" or f is None or f.name != "main":
        return False
    t = _recv_sym(world, call.func.value)
    if not (t[0] == "attr" and t[2] == "output" and t[1][0] == "call" and t[1][1].endswith(".parse_args")):
        return False
    declared = False
    for n in ast.walk(f):
        if isinstance(n, ast.Call) and isinstance(n.func, ast.Attribute) and n.func.attr == "add_argument":
            if any(isinstance(a, ast.Constant) and a.value == "--output" for a in n.args):
                declared = True
    return declared


def scan_opens(world: World):
    out = []
    res = Resolver(world.prog)
    writers = []
    for mi, call in iter_calls(world.prog):
        kind, name = res.resolve(mi, call.func)
        if kind in ("builtin", "external") and name in OPEN_FUNCS:
            pos = 1
            mode = _mode_of(world, mi, call, pos)
            label = f"open:{name}"
            if mode[0] == "forwarded":
                # vmtar.open / VisorTarFile forward the caller's arguments; they must not inject a mode themselves
                out.append(("K-WHO-open", label, call, HOLDS, "caller's arguments forwarded unchanged, no mode injected"))
            elif mode[0] == "absent":
                out.append(("K-WHO-open", label, call, HOLDS, "no mode argument: default is read-only"))
            elif mode[0] == "const" and isinstance(mode[1], str) and mode[1] in READ_MODES | {"r:", "r:*", "r:gz", "r|*", "r|", "r:bz2", "r:xz", "r|gz"}:
                out.append(("K-WHO-open", label, call, HOLDS, f"mode {mode[1]!r}"))
            else:
                out.append(("K-WHO-open", label, call, VIOLATED, f"file opened with mode {mode[1:]!r}, not a constant read-only mode"))
            continue
        if kind == "method" and name == "open":
            if _is_repo_receiver(world, call):
                continue
            mode = _mode_of(world, mi, call, 0)
            rtxt = ast.unparse(call.func.value)
            label = "open:Path.open"
            if mode[0] == "absent":
                out.append(("K-WHO-open", label, call, HOLDS, f"{rtxt}.open(): default mode is read-only"))
            elif mode[0] == "const" and mode[1] in READ_MODES:
                out.append(("K-WHO-open", label, call, HOLDS, f"{rtxt}.open({mode[1]!r})"))
            elif mode[0] == "const" and mode[1] == "wb" and _is_cli_output(world, call):
                writers.append(call)
                out.append(("K-WHO-open", "open:cli-output", call, HOLDS,
                            "the single intentional writer: the --output file named by the user of the decrypt tool"))
            elif mode[0] == "const" and isinstance(mode[1], int):
                # HyperVStorageFileObject.open(size) style: numeric first argument is not a file mode
                out.append(("K-WHO-open", label, call, UNDECIDED, f"{rtxt}.open({mode[1]}) - receiver type unknown"))
            else:
                out.append(("K-WHO-open", label, call, VIOLATED,
                            f"{rtxt}.open(...) with mode {mode[1:]!r}: not a constant read-only mode"))
            continue
    return out, writers


def scan_forbidden(world: World):
    out = []
    res = Resolver(world.prog)
    for mi, call in iter_calls(world.prog):
        kind, name = res.resolve(mi, call.func)
        if kind == "external" and (name in FORBIDDEN_FUNCS or name.startswith(FORBIDDEN_FUNCS_PREFIX)):
            out.append(("K-WHO-forbidden", f"api:{name}", call, VIOLATED, f"call of mutating / process-spawning API {name}"))
            continue
        if kind == "external" and name == "logging.basicConfig" and const_kw(call, "filename") is not None:
            out.append(("K-WHO-forbidden", "api:logging.basicConfig(filename=)", call, VIOLATED, "log file would be written"))
            continue
        if kind == "method":
            if name in FORBIDDEN_METHODS:
                if _is_repo_receiver(world, call):
                    continue
                if name in ("add", "extract"):
                    # set.add / tarfile extraction: only flag when the receiver is a tarfile/zipfile object
                    t = _recv_sym(world, call.func.value)
                    if not S.contains(t, lambda x: isinstance(x, tuple) and x and x[0] in ("call", "mod") and "tarfile" in str(x[1]) or isinstance(x, tuple) and x and x[0] in ("call", "mod") and "zipfile" in str(x[1])):
                        continue
                out.append(("K-WHO-forbidden", f"method:.{name}", call, VIOLATED,
                            f"`{ast.unparse(call.func)}(...)`: file-system mutating method"))
            elif name == "replace" and len(call.args) == 1 and not call.keywords:
                out.append(("K-WHO-forbidden", "method:.replace(target)", call, VIOLATED,
                            f"`{ast.unparse(call.func)}` with one argument is pathlib.Path.replace (renames a file)"))
    return out


def _is_bytesio(t) -> bool:
    return t[0] == "call" and t[1] in ("ext:io.BytesIO", "ext:io.StringIO", "ext:_io.BytesIO")


def scan_writes(world: World, writers):
    out = []
    res = Resolver(world.prog)
    # call sites per repo function, to follow a stream passed as parameter
    callsites: dict[str, list[ast.Call]] = {}
    for mi, call in iter_calls(world.prog):
        kind, name = res.resolve(mi, call.func)
        if kind == "repo":
            callsites.setdefault(name, []).append(call)

    def stream_ok(t, depth=0):
        """-> (ok|None, reason)"""
        if _is_bytesio(t):
            return True, "local io.BytesIO"
        if t[0] == "call" and t[1] == ".open" and writers:
            # the handle of the CLI writer
            return None, "open handle"
        if t[0] == "p" and depth < 3:
            qual, idx = t[1], t[2]
            fname = qual.split("::")[-1].split(".")[-1]
            sites = callsites.get(qual, [])
            if not fname.startswith("_"):
                return False, f"stream is parameter {idx} of the public function {qual}: a caller-supplied handle is written"
            if not sites:
                return False, f"stream is a parameter of {qual}, which has no call site in the package"
            for cs in sites:
                # positional index: methods are called without self
                is_method = "." in qual.split("::")[-1]
                ai = idx - 1 if is_method and isinstance(cs.func, ast.Attribute) else idx
                if ai >= len(cs.args):
                    return None, f"call site of {qual} does not pass the stream positionally"
                ok, why = stream_ok(_recv_sym(world, cs.args[ai]), depth + 1)
                if ok is not True:
                    return ok, f"call site {cs._module.relpath}:{cs.lineno} passes {why}"
            return True, f"parameter of private {qual}; all {len(sites)} call site(s) pass a local io.BytesIO"
        return None, f"stream of unknown provenance: {S.show(t)[:120]}"

    for mi, call in iter_calls(world.prog):
        if not isinstance(call.func, ast.Attribute) or call.func.attr not in WRITE_METHODS:
            continue
        if _is_repo_receiver(world, call):
            continue
        recv = _recv_sym(world, call.func.value)
        # cstruct: Type.write(stream, value) / instance.write(stream) / TABLE[type].write(stream, value)
        is_ctype = (recv[0] == "c" and isinstance(recv[1], CType)) or recv[0] == "arrtype" or (
            recv[0] == "call" and str(recv[1]).startswith("construct:")) or (
            recv[0] == "sub" and S.is_const(recv[1]) and isinstance(recv[1][1], dict))
        if is_ctype:
            if not call.args:
                out.append(("K-PROV-write", "cstruct-write", call, UNDECIDED, "cstruct write without a stream argument"))
                continue
            stream = _recv_sym(world, call.args[0])
            label = "cstruct-write"
        else:
            stream = recv
            label = f"stream-{call.func.attr}"
        # CLI output handle
        f = enclosing_function(call)
        if any(w is n for w in writers for n in ast.walk(f or call._module.tree)) and stream[0] == "call" and stream[1] == ".open":
            # stream is exactly the handle opened by the allow-listed writer
            wsyms = [_recv_sym(world, w) for w in writers]
            if stream in wsyms:
                out.append(("K-PROV-write", "cli-output-write", call, HOLDS, "writes to the user-named --output file only"))
                continue
        ok, why = stream_ok(stream)
        if ok is True:
            out.append(("K-PROV-write", label, call, HOLDS, why))
        elif ok is False:
            out.append(("K-PROV-write", label, call, VIOLATED, why))
        else:
            out.append(("K-PROV-write", label, call, VIOLATED,
                        f"`{ast.unparse(call.func)}(...)` writes to an object that is not a private io.BytesIO ({why})"))
    return out


def scan_all(world: World):
    opens, writers = scan_opens(world)
    return opens + scan_forbidden(world) + scan_writes(world, writers), writers


def run(chk: Check):
    found, writers = scan_all(chk.world)
    for kind, name, node, verdict, detail in found:
        chk.add(kind, name, node, verdict, detail)
    # exactly one writer
    if len(writers) == 1:
        chk.holds("K-WHO-open", "exactly-one-writer", writers[0], "one write-mode open in the whole package (CLI --output)")
    elif len(writers) == 0:
        chk.note("the CLI writer is gone; no write-mode open at all")
    else:
        chk.violated("K-WHO-open", "exactly-one-writer", writers[1], f"{len(writers)} write-mode opens")
    # anchors of the property: path opens in these functions must still exist (instance floor)
    chk.require("K-WHO-open", 9)
    chk.require("K-PROV-write", 12)
    # liveness
    from ..fixtures import fixture_world

    fx, _ = scan_all(fixture_world())
    need = {"open:": False, "api:": False, "method:.unlink": False, "method:.replace": False, "stream-write": False,
            "cstruct-write": False}
    for kind, name, node, verdict, detail in fx:
        if verdict == VIOLATED and node._module.relpath == "c09_bad.py":
            for k in need:
                if name.startswith(k):
                    need[k] = True
    for k, hit in need.items():
        chk.add("LIVENESS", f"fixture:{k}", ("fixtures/c09_bad.py", "<fixture>", 0), HOLDS if hit else UNDECIDED,
                "rule fires on the planted violation" if hit else "rule did NOT fire on the planted violation",
                nontrivial=False)
