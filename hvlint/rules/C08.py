"""C08 - a disk stream behaves as an immutable byte array under any access history (structural clauses)."""
from __future__ import annotations

import ast

from .. import sym as S
from ..engine import HOLDS, UNDECIDED, VIOLATED, Check
from ..loader import AnalysisError
from ..recon import _own_nodes
from ..rulelib import _byte_to_sector, _typestate, self_stores
from .C13 import _closure

LEVEL = "other"
TECHNIQUE = ("static analysis: effect analysis of every stream's read-path closure (no stores to object state, no mutation of "
             "memoised results), seek-before-read typestate on all read sites, who-may-touch rule for the buffered layer's state, "
             "byte/sector interface agreement, over-read guards of the extent walks")
EXPLANATION = (
    "The position / EOF / buffer arithmetic lives in dissect.util's AlignedStream (trusted). What this package must guarantee for "
    "history independence is decided structurally: each back end is a pure function of (offset, length) - the call-graph "
    "closure of every _read / read_sectors stores nothing to object state and mutates no object it did not create (memoised table "
    "look-ups are only read); no read depends on a handle position left by an earlier operation (absolute seek before every read "
    "on every path); no stream class overrides or touches the buffered layer's methods / state and each passes only its size to "
    "AlignedStream.__init__, exactly once; the byte interface is offset//S and ceil(length/S) of the sector interface; the extent "
    "walks bound their index by the extent list (the buffered layer over-reads past the end whenever the size is not a multiple "
    "of the buffer). Does NOT decide the property itself over all histories and buffer sizes, nor AlignedStream's own correctness."
)
ASSUMPTIONS = ["dissect.util.stream.AlignedStream is correct (trusted dependency)",
               "functools.lru_cache / cached_property are semantically invisible for pure functions"]

STREAMS = [("disk/qcow2.py", "QCow2", ["_read"]), ("disk/vmdk.py", "VMDK", ["_read", "read_sectors"]),
           ("disk/vmdk.py", "SparseDisk", ["read_sectors"]), ("disk/vmdk.py", "RawDisk", ["read_sectors"]),
           ("disk/vhdx.py", "VHDX", ["_read", "read_sectors"]), ("disk/vhd.py", "VHD", ["_read"]), ("disk/vdi.py", "VDI", ["_read"]),
           ("disk/hdd.py", "HDS", ["_read"]), ("disk/hdd.py", "StorageStream", ["_read"])]
BASE_METHODS = {"read", "seek", "tell", "readinto", "peek", "_seek", "_set_pos", "_fill_buf", "readoffset", "readall", "close", "seekable",
                "readable", "writable", "_readinto", "_read_fh"}
BASE_STATE = {"_pos", "_buf", "_pos_align", "align", "_seek_lock", "_read_lock"}
MUT = {"append", "extend", "insert", "pop", "remove", "clear", "update", "setdefault", "sort", "reverse", "popitem", "add", "discard",
       "frombytes", "fromstring", "write", "truncate"}


def local_mutations(chk: Check, ctx):
    """Mutations of objects the function did not create itself."""
    out = []
    fresh = set()
    for n in _own_nodes(ctx.func):
        if isinstance(n, ast.Assign) and len(n.targets) == 1 and isinstance(n.targets[0], ast.Name):
            v = n.value
            if isinstance(v, (ast.List, ast.Dict, ast.Set, ast.ListComp)) or (isinstance(v, ast.Call) and ast.unparse(v.func) in ("list", "dict", "set", "bytearray", "io.BytesIO", "BytesIO")):
                fresh.add(n.targets[0].id)
    selfname = ctx.func.args.args[0].arg if ctx.func.args.args else None
    for n in _own_nodes(ctx.func):
        if isinstance(n, ast.Call) and isinstance(n.func, ast.Attribute) and n.func.attr in MUT:
            base = n.func.value
            while isinstance(base, (ast.Attribute, ast.Subscript)):
                base = base.value
            if isinstance(base, ast.Name) and base.id not in fresh and base.id != selfname:
                # zlib decompressobj().decompress etc. are not in MUT; cipher.update is (but not on read paths)
                out.append((n, f"`{ast.unparse(n.func)}()` mutates an object the function did not create"))
        tg = []
        if isinstance(n, ast.Assign):
            tg = n.targets
        elif isinstance(n, ast.AugAssign):
            tg = [n.target]
        for t in tg:
            if isinstance(t, (ast.Subscript, ast.Attribute)):
                base = t
                while isinstance(base, (ast.Attribute, ast.Subscript)):
                    base = base.value
                if isinstance(base, ast.Name) and base.id not in fresh and base.id != selfname:
                    out.append((n, f"store to `{ast.unparse(t)}` changes an object the function did not create"))
    return out


def run(chk: Check):
    R = chk.R
    n_funcs = 0
    for rel, cname, entries in STREAMS:
        ci = chk.prog.cls(rel, cname)
        closure = set()
        for e in entries:
            if e not in ci.methods:
                raise AnalysisError(f"ANCHOR-VANISHED {rel}::{cname}.{e}")
            closure |= _closure(chk, rel, f"{cname}.{e}") | {f"{rel}::{cname}.{e}"}
        bad = []
        checked = []
        for q in sorted(closure):
            r2, _, qq = q.partition("::")
            if qq.endswith("__init__") or not chk.prog.has_func(r2, qq):
                continue  # constructing a fresh helper object (L2Table, ...) is not a history channel
            if qq.split(".")[-1] in ("open_parent",):
                continue
            ctx = chk.func(r2, qq)
            checked.append(qq)
            st = self_stores(ctx.func) + local_mutations(chk, ctx)
            for node, why in st:
                bad.append((node, f"{qq}: {why}"))
        n_funcs += len(checked)
        # a handler on the read path can turn an I/O or look-up error into silently different data
        for q in sorted(closure):
            r2, _, qq = q.partition("::")
            if qq.endswith("__init__") or not chk.prog.has_func(r2, qq) or qq.split(".")[-1] in ("open_parent",):
                continue
            cx = chk.func(r2, qq)
            for t_ in _own_nodes(cx.func):
                if isinstance(t_, ast.Try):
                    swallow = [h for h in t_.handlers if not any(isinstance(x, ast.Raise) for s_ in h.body for x in ast.walk(s_))]
                    chk.decide(not swallow, "K-PATH", f"read-path-no-swallowing-handler:{cname}", t_,
                               "handlers on the read path re-raise" if not swallow else
                               f"{qq}: `except {ast.unparse(swallow[0].type) if swallow[0].type else ''}` on the read path swallows a failure and "
                               "continues with substitute data", nontrivial=False)
        if bad:
            for node, why in bad:
                chk.violated("K-PURE", f"read-path-pure:{cname}", node, why + " - a later read can observe an earlier one")
        else:
            chk.holds("K-PURE", f"read-path-pure:{cname}", ci.methods[entries[0]],
                      f"closure of {len(checked)} functions ({', '.join(sorted(checked))[:300]}) stores nothing to object state")
        # typestate on every function of the closure that reads
        for q in sorted(closure):
            r2, _, qq = q.partition("::")
            if not chk.prog.has_func(r2, qq) or qq.endswith("__init__") or qq in ("open_parent",):
                continue
            ctx = chk.func(r2, qq)
            if qq.startswith("SparseExtentHeader") or qq.startswith("ParentLocator"):
                continue
            _typestate(chk, ctx, f"{cname}")
    chk.extra["read_path_functions"] = n_funcs
    # Hyper-V file object
    hctx = chk.func("descriptor/hyperv.py", "HyperVStorageFileObject.read")
    _typestate(chk, hctx, "HyperVStorageFileObject")
    # ---- the buffered layer is not touched ------------------------------------------------------------------
    for rel, cname, _ in STREAMS:
        ci = chk.prog.cls(rel, cname)
        ext = chk.prog.external_bases(ci)
        if not any(b.endswith("AlignedStream") for b in ext):
            continue
        over = sorted(set(ci.methods) & BASE_METHODS)
        touched = sorted(a for a in ci.self_assigns if a in BASE_STATE)
        # aliasing of base methods (RawDisk-style `self.read = fh.read`) on a stream class
        chk.decide(not over and not touched, "K-WHO", f"buffered-layer-untouched:{cname}", ci.node,
                   "no override of read/seek/tell/readinto/peek/... and no store to _pos/_buf/align" if not over and not touched else
                   f"overrides {over} / stores to {touched}: the stream no longer behaves like the byte array the buffered layer models")
        init = ci.methods.get("__init__")
        if init is None:
            continue
        ctx = chk.func(rel, f"{cname}.__init__")
        sups = [n for n in _own_nodes(init) if isinstance(n, ast.Call) and ast.unparse(n.func) == "super().__init__"]
        ok = len(sups) == 1
        why = f"{len(sups)} super().__init__ calls"
        if ok:
            s_ = sups[0]
            nargs = len(s_.args) + len(s_.keywords)
            only_size = nargs == 1 and (not s_.keywords or s_.keywords[0].arg == "size")
            node = ctx.cfg.node_for(s_)
            dom = node is not None and ctx.cfg.dominates(node, ctx.cfg.exit)
            ok = only_size and dom
            why = "AlignedStream.__init__(size) is called exactly once, on every path, without a custom alignment" if ok else \
                  ("a custom alignment / extra argument is passed" if not only_size else "the base initialiser can be bypassed")
        chk.decide(ok, "K-WHO", f"base-init:{cname}", sups[0] if sups else init, why)
    # ---- byte / sector agreement ---------------------------------------------------------------------------------
    _byte_to_sector(chk, "disk/vmdk.py", "VMDK._read", S.C(512))
    _byte_to_sector(chk, "disk/vhd.py", "VHD._read", S.C(512))
    vk = chk.prog.cls("disk/vhdx.py", "VHDX").key
    _byte_to_sector(chk, "disk/vhdx.py", "VHDX._read", R.self_attr(vk, "sector_size"))
    # ---- over-read tolerance of the extent walks (shared with C10) -----------------------------------------------------
    from . import C10

    sub = Check("C10", chk.tier, chk.world, "other", quiet=True)
    C10.vmdk_walk(sub)
    C10.storage(sub)
    for i in sub.instances:
        if "index-bounded" in i.name:
            i.name = "C10:" + i.name
            chk.instances.append(i)
    # HDS bounds its walk by the stream size
    ictx = chk.func("disk/hdd.py", "HDS._iter_runs")
    from ..rulelib import loops_of

    lp = loops_of(ictx)
    if lp:
        t = R.expr(ictx, lp[0].test, ictx.cfg.node_of[lp[0]])
        ok = S.contains(t, lambda x: isinstance(x, tuple) and x and x[0] == "cmp" and x[1] == "<" and S.contains(x[3], lambda y: isinstance(y, tuple) and y and y[0] == "attr" and y[2] == "size"))
        chk.decide(ok, "K-SPLIT", "hds:walk-bounded-by-size", lp[0], "the cluster walk stops at the stream size (BAT never indexed past the last cluster)", found=S.show(t)[:160])
    # memoisation must be semantically invisible: a cached generator function hands out an exhausted generator on a hit
    from ..calls import iter_functions

    n_memo = 0
    for mi, ci, fn in iter_functions(chk.prog):
        decos = {ast.unparse(d).split("(")[0].split(".")[-1] for d in fn.decorator_list}
        memo = bool(decos & {"lru_cache", "cache", "cached_property"})
        if ci is not None:
            memo = memo or any(isinstance(v, ast.Call) and ("lru_cache" in ast.unparse(v.func) or ast.unparse(v.func).endswith("cache"))
                               for (m, st, v) in ci.self_assigns.get(fn.name, []))
        if not memo:
            continue
        n_memo += 1
        is_gen = any(isinstance(x, (ast.Yield, ast.YieldFrom)) for x in _own_nodes(fn))
        chk.decide(not is_gen, "K-PURE", f"memoised-not-generator:{fn.name}", fn,
                   "memoised function returns a value (not a one-shot generator)" if not is_gen else
                   "a generator function is memoised: the cache stores the generator object, so the second call with equal arguments gets an "
                   "exhausted generator and the read silently returns less data", nontrivial=False)
    chk.extra["memoised_functions"] = n_memo
    chk.note("unit-table subscripts (VDI map, VHD/VHDX BAT, QCOW2 L1) are not armed for over-read: an aligned over-read of < 8 KiB leaves the "
             "last table entry only for allocation units smaller than the buffer, which these formats do not produce")
    # a QCOW2 snapshot view is a copy of a live stream: it must not start with the live stream's buffer (shared with C07)
    from . import C07

    sub = Check("C07", chk.tier, chk.world, "other", quiet=True)
    C07.qcow2_snapshot(sub)
    for i in sub.instances:
        if "snapshot-view" in i.name:
            i.name = "C07:" + i.name
            chk.instances.append(i)
    chk.require("K-PATH", 3)
    chk.require("K-PURE", 9)
    chk.require("K-TYPESTATE", 20)
    chk.require("K-WHO", 14)
