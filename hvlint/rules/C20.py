"""C20 - vmtar: every member extracts to the bytes stored at its recorded data offset (structural clauses)."""
from __future__ import annotations

import ast

from .. import sym as S
from ..engine import Check
from ..loader import AnalysisError
from ..recon import _own_nodes
from ..rulelib import conds_sym, eval_conds, func_outcomes, reach_table

LEVEL = "other"
TECHNIQUE = ("static analysis: constant / slice comparison of the visor header decoding, must-pass-through rules for member "
             "processing, provenance of the factory arguments")
EXPLANATION = (
    "Decides structural necessary conditions of correct vmtar member iteration (no public specification: the visor header fields "
    "of the pinned tree are the frozen reference): the custom TarInfo derives from tarfile.TarInfo; frombuf delegates to the base "
    "parser, recognises the visor magic at buf[257:264] == b'visor  ' and decodes offset_data / textPgs / fixUpPgs as little-endian "
    "u32 at 496 / 504 / 508, None for ordinary headers; _proc_member on a visor member with a data offset sets the next header "
    "position to the current file position (the inline data area is absent, nothing is skipped), applies pax information, returns "
    "the member and does not run the base-class processing (which would overwrite offset_data); every other member is delegated to "
    "the base class; both factories pass tarinfo=VisorTarInfo and forward the caller's arguments unchanged. Does NOT decide "
    "extraction equality (tarfile itself is trusted)."
)
ASSUMPTIONS = ["CPython tarfile calls TarInfo.frombuf / _proc_member as documented in its source", "visor header field positions are the frozen reference"]

REL = "util/vmtar.py"


def run(chk: Check):
    R = chk.R
    ci = chk.prog.cls(REL, "VisorTarInfo")
    ext = chk.prog.external_bases(ci)
    chk.decide(any(b.endswith("TarInfo") for b in ext), "K-PROV", "derives-from-TarInfo", ci.node, "VisorTarInfo subclasses tarfile.TarInfo", found=str(ext))
    # ---- frombuf -------------------------------------------------------------------------------------------------
    ctx = chk.func(REL, "VisorTarInfo.frombuf")
    BUF = ("p", ctx.qual, 1)
    sup = [n for n in _own_nodes(ctx.func) if isinstance(n, ast.Call) and ast.unparse(n.func) == "super().frombuf"]
    ok = bool(sup) and [ast.unparse(a) for a in sup[0].args] == [a.arg for a in ctx.func.args.args[1:]]
    chk.decide(ok, "K-PROV", "frombuf-delegates", sup[0] if sup else ctx.func, "the standard header is parsed by tarfile (same buffer, encoding, errors)")
    # stores to attributes of the parsed object, whatever the statement shape (chained targets, tuple targets):
    # attr -> [(statement, value term, path conditions)]
    stores = {}

    def targets_of(tgt, value_t, path, st):
        if isinstance(tgt, ast.Attribute):
            v = value_t
            for i in path:
                v = v[1][i] if v[0] in ("tuple", "list") and i < len(v[1]) else ("sub", v, S.C(i))
            stores.setdefault(tgt.attr, []).append((st, v, conds_sym(chk, ctx, st)))
        elif isinstance(tgt, (ast.Tuple, ast.List)):
            for i, e in enumerate(tgt.elts):
                targets_of(e, value_t, path + (i,), st)

    for n in sorted((x for x in _own_nodes(ctx.func) if isinstance(x, ast.Assign)), key=lambda x: x.lineno):
        vt = R.expr(ctx, n.value, ctx.cfg.node_of[n])
        for tg in n.targets:
            targets_of(tg, vt, (), n)
    MAGIC = b"visor  "
    visor_buf = bytes((i * 7 + 3) & 0xFF for i in range(257)) + MAGIC + bytes((i * 11 + 5) & 0xFF for i in range(512 - 264))
    plain_buf = visor_buf[:257] + b"ustar  " + visor_buf[264:]
    near_buf = visor_buf[:257] + b"visor \0" + visor_buf[264:]

    def stored(attr, buf):
        """Value left in obj.<attr> for this header block (the last store whose path condition holds)."""
        ov = {BUF: buf}
        if attr != "is_visor":
            # later code reads the flag back from the object: it has the value that was stored for this block
            flag = stored("is_visor", buf)
            for _st, _t, cs in stores.get(attr, []):
                for c, _p in cs:
                    for x in S.walk(c):
                        if isinstance(x, tuple) and x and x[0] == "attr" and x[2] == "is_visor" and flag[0] == "value":
                            ov[x] = flag[1]
        val = S.Valuation(1, override=ov)
        got = ("missing",)
        for st, t, conds in stores.get(attr, []):
            if eval_conds(conds, val):
                try:
                    got = ("value", S.ev(t, val))
                except S.EvalError as e:
                    got = ("error", str(e))
        return got

    okv = stored("is_visor", visor_buf) == ("value", True) and stored("is_visor", plain_buf) == ("value", False) and stored("is_visor", near_buf) == ("value", False)
    chk.decide(okv, "K-CONST", "visor-magic", stores.get("is_visor", [(ctx.func,)])[0][0], "visor header: buf[257:264] == b'visor  '",
               found=str([stored("is_visor", b_) for b_ in (visor_buf, plain_buf, near_buf)]))
    # the flag that later code reads is the same comparison (conditions below are evaluated on the buffer, so they follow it)
    for attr, lo in (("offset_data", 496), ("textPgs", 504), ("fixUpPgs", 508)):
        want_v = int.from_bytes(visor_buf[lo:lo + 4], "little")
        got_v, got_p = stored(attr, visor_buf), stored(attr, plain_buf)
        ok = got_v == ("value", want_v) and got_p == ("value", None)
        sts = stores.get(attr, [])
        chk.decide(ok, "K-FORMULA", f"visor-field:{attr}", sts[0][0] if sts else ctx.func,
                   f"{attr} = little-endian u32 at buf[{lo}:{lo + 4}] for visor headers, None otherwise",
                   expected=f"visor header: {want_v}; other header: None", found=f"visor header: {got_v}; other header: {got_p}")
    rets = [o for o in func_outcomes(chk, ctx) if o[0] == "return"]
    chk.decide(bool(rets) and all(S.show(o[3]).startswith("super.frombuf") or o[3][0] == "call" and o[3][1] == "super.frombuf" for o in rets), "K-PROV",
               "frombuf-returns-parsed-object", ctx.func, "the object parsed by tarfile is returned (with the visor fields attached)")
    # ---- _proc_member ----------------------------------------------------------------------------------------------
    pctx = chk.func(REL, "VisorTarInfo._proc_member")
    TF = ("p", pctx.qual, 1)
    outs = func_outcomes(chk, pctx)
    k = ci.key
    isv, offd = R.self_attr(k, "is_visor"), R.self_attr(k, "offset_data")
    isv_t, offd_t = ("attr", ("self", k), "is_visor"), ("attr", ("self", k), "offset_data")
    # which return under which condition
    table = {}
    for o in outs:
        if o[0] != "return":
            continue
        for iv in (False, True):
            for od in (None, 0, 4096):
                ov = {}
                for c, p in o[2]:
                    for x in S.walk(c):
                        if isinstance(x, tuple) and x and x[0] == "attr" and x[2] == "is_visor":
                            ov[x] = iv
                        if isinstance(x, tuple) and x and x[0] == "attr" and x[2] == "offset_data":
                            ov[x] = od
                if eval_conds(o[2], S.Valuation(1, override=ov)):
                    kind = "self" if o[3] == ("self", k) else "super" if (o[3][0] == "call" and o[3][1] == "super._proc_member") else "?"
                    table[(iv, od)] = kind
    want = {(iv, od): ("self" if iv and od else "super") for iv in (False, True) for od in (None, 0, 4096)}
    chk.decide(table == want, "K-DISPATCH", "member-processing-table", pctx.func,
               "visor member with a data offset -> handled here (returns self); everything else -> tarfile's own processing",
               expected=str(want), found=str(table))
    # the visor path: offset := fileobj.tell(), pax applied, no super call on that path
    st = [n for n in _own_nodes(pctx.func) if isinstance(n, ast.Assign) and isinstance(n.targets[0], ast.Attribute) and n.targets[0].attr == "offset"]
    oko = False
    if st:
        base = R.expr(pctx, st[0].targets[0].value, pctx.cfg.node_of[st[0]])
        val = R.expr(pctx, st[0].value, pctx.cfg.node_of[st[0]])
        oko = base == TF and val == S.call(".tell", [("attr", TF, "fileobj")])
    chk.decide(oko, "K-PATH", "next-header-follows-immediately", st[0] if st else pctx.func,
               "tarfile.offset = tarfile.fileobj.tell(): the next header follows this one, the (absent) inline data is not skipped",
               found=ast.unparse(st[0]) if st else "no store to tarfile.offset")
    pax = [n for n in _own_nodes(pctx.func) if isinstance(n, ast.Call) and isinstance(n.func, ast.Attribute) and n.func.attr == "_apply_pax_info"]
    okp = bool(pax) and [ast.unparse(a) for a in pax[0].args] == [f"{pctx.func.args.args[1].arg}.pax_headers", f"{pctx.func.args.args[1].arg}.encoding", f"{pctx.func.args.args[1].arg}.errors"]
    chk.decide(okp, "K-PATH", "pax-info-applied", pax[0] if pax else pctx.func, "global / extended pax headers are applied to visor members as tarfile does")
    sup = [n for n in _own_nodes(pctx.func) if isinstance(n, ast.Call) and ast.unparse(n.func) == "super()._proc_member"]
    oks = len(sup) == 1
    if oks and st:
        # not on the visor path: the super call and the offset store are on exclusive branches
        cfg = pctx.cfg
        a, b = cfg.node_for(sup[0]), cfg.node_of[st[0]]
        oks = a not in cfg.reachable_from(b) and b not in cfg.reachable_from(a)
    chk.decide(oks, "K-PATH", "base-processing-not-on-visor-path", sup[0] if sup else pctx.func,
               "tarfile's member processing (which would advance past inline data and overwrite offset_data) never runs for a visor member with a data offset")
    # ---- factories ---------------------------------------------------------------------------------------------------
    for fn, callee in (("VisorTarFile", "ext:tarfile.TarFile"), ("open", "ext:tarfile.open")):
        fctx = chk.func(REL, fn)
        outs = func_outcomes(chk, fctx)
        ok = False
        detail = ""
        if outs and outs[0][0] == "return":
            t = outs[0][3]
            call = [n for n in _own_nodes(fctx.func) if isinstance(n, ast.Call)]
            if t[0] == "call" and t[1] == callee and call:
                c = call[0]
                kws = {k_.arg: k_.value for k_ in c.keywords}
                starred = [a for a in c.args if isinstance(a, ast.Starred)]
                plain = [a for a in c.args if not isinstance(a, ast.Starred)]
                ok = len(starred) == 1 and not plain and None in kws and set(kws) == {None, "tarinfo"} and isinstance(kws["tarinfo"], ast.Name) and kws["tarinfo"].id == "VisorTarInfo" \
                    and fctx.func.args.vararg is not None and fctx.func.args.kwarg is not None \
                    and ast.unparse(starred[0].value) == fctx.func.args.vararg.arg and ast.unparse(kws[None]) == fctx.func.args.kwarg.arg
                detail = ast.unparse(c)
        chk.decide(ok, "K-PROV", f"factory:{fn}", fctx.func, f"{callee[4:]}(*args, **kwargs, tarinfo=VisorTarInfo): caller's arguments forwarded unchanged", found=detail)
    chk.require("K-FORMULA", 3)
    chk.require("K-PATH", 3)
    chk.require("K-PROV", 4)
