"""C03 - VHDX: every byte range reads as the guest-visible content (structural clauses)."""
from __future__ import annotations

import ast
import uuid

from .. import sym as S
from ..engine import HOLDS, UNDECIDED, VIOLATED, Check
from ..loader import AnalysisError
from ..rulelib import (_byte_to_sector, _typestate, appends_in, calls_named, carried_with_entry, check_const,
                       check_layout, classify_effect, conds_sym, field_map, loop_carried, loops_of, reach_table,
                       same_handle, self_stores, spec_expr)

LEVEL = "other"
TECHNIQUE = ("static analysis: cstruct layout comparison, def-use reconstruction of BAT index / seek / length / step "
             "expressions compared with the [MS-VHDX] formulas, decision table over the six payload block states")
EXPLANATION = (
    "Decides necessary structural conditions of byte-exact VHDX reads: all eleven on-disk layouts incl. the BAT entry bit "
    "fields (positional), payload-state constants and GUIDs, header/region-table offsets (64 KiB units), chunk ratio "
    "2^23*sector_size/block_size, sectors per block, payload index block + block//ratio, sector-bitmap index "
    "(block//ratio+1)*ratio + block//ratio, BAT entry address offset + 8*i and entry counts, data address "
    "file_offset_mb*2^20 + sector_in_block*sector_size, per-block split step min(count, spb - sector%spb) on both loop "
    "counters, the decision table state -> {0: parent|zeros; 1,2,3: zeros; 6: file; 7: bitmap path}, lengths step*sector "
    "size, seek-before-read, pure read path. Does NOT decide byte equality with guest content; log replay is out of scope."
)
ASSUMPTIONS = ["terms are compared by normal form and randomised identity testing over integer valuations of their atoms",
               "dissect.util AlignedStream and dissect.cstruct semantics are trusted"]

REL, CREL = "disk/vhdx.py", "disk/c_vhdx.py"

STRUCTS = ["file_identifier", "header", "region_table_header", "region_table_entry", "bat_entry", "metadata_table_header",
           "metadata_table_entry", "file_parameters", "virtual_disk_id", "parent_locator_header", "parent_locator_entry"]
CONSTS = {
    "PAYLOAD_BLOCK_NOT_PRESENT": 0, "PAYLOAD_BLOCK_UNDEFINED": 1, "PAYLOAD_BLOCK_ZERO": 2, "PAYLOAD_BLOCK_UNMAPPED": 3,
    "PAYLOAD_BLOCK_FULLY_PRESENT": 6, "PAYLOAD_BLOCK_PARTIALLY_PRESENT": 7, "ALIGNMENT": 65536, "MB": 1048576,
    "BAT_REGION_GUID": uuid.UUID("2DC27766-F623-4200-9D64-115E9BFD4A08"),
    "METADATA_REGION_GUID": uuid.UUID("8B7CA206-4790-4B9A-B8FE-575F050F886E"),
    "FILE_PARAMETERS_GUID": uuid.UUID("CAA16737-FA36-4D43-B3B6-33F0AA44E76B"),
    "VIRTUAL_DISK_SIZE_GUID": uuid.UUID("2FA54224-CD1B-4876-B211-5DBED83BF4B8"),
    "VIRTUAL_DISK_ID_GUID": uuid.UUID("BECA12AB-B2E6-4523-93EF-C309E000C746"),
    "LOGICAL_SECTOR_SIZE_GUID": uuid.UUID("8141BF1D-A96F-4709-BA47-F233A8FAAB5F"),
    "PHYSICAL_SECTOR_SIZE_GUID": uuid.UUID("CDA348C7-445D-4471-9CC9-E9885251C556"),
    "PARENT_LOCATOR_GUID": uuid.UUID("A8D35F2D-B30B-454D-ABF7-D3D84834AB0C"),
    "VHDX_PARENT_LOCATOR_GUID": uuid.UUID("B04AEFB7-D19E-4A81-B789-25B8E9445913"),
}


def geometry(chk: Check):
    """Role terms of the VHDX geometry: block size, logical sector size, virtual size as the code derives them."""
    R = chk.R
    vk = chk.prog.cls(REL, "VHDX").key
    mk = chk.prog.cls(REL, "MetadataTable").key
    md = lambda g: S.call(f"{mk}.get", [("self", mk), S.C(CONSTS[g])])  # noqa: E731
    st, fm = field_map(chk, CREL, "file_parameters")
    want = {
        "block_size": ("attr", md("FILE_PARAMETERS_GUID"), fm["block_size"].name),
        "sector_size": md("LOGICAL_SECTOR_SIZE_GUID"),
        "size": md("VIRTUAL_DISK_SIZE_GUID"),
        "has_parent": ("attr", md("FILE_PARAMETERS_GUID"), fm["has_parent"].name),
    }
    got = {k: R.self_attr(vk, k) for k in want}
    return vk, want, got


def run(chk: Check):
    R = chk.R
    for name in STRUCTS:
        check_layout(chk, CREL, name)
    for name, val in CONSTS.items():
        check_const(chk, CREL, name, val)

    vk, want, got = geometry(chk)
    init = chk.func(REL, "VHDX.__init__")
    for k in want:
        chk.decide(got[k] == want[k], "K-PROV", f"geometry:{k}", init.func,
                   f"VHDX.{k} is the metadata item with the specified GUID / field, untransformed",
                   expected=S.show(want[k])[:200], found=S.show(got[k])[:200])
    bs, ss, size = got["block_size"], got["sector_size"], got["size"]
    env = {"block_size": bs, "sector_size": ss, "size": size}

    def dom(leaf, rng):
        if leaf == bs:
            return (1 << 20) << rng.randrange(0, 9)
        if leaf == ss:
            return rng.choice([512, 4096])
        if leaf == size:
            return rng.randrange(1, 1 << 44)
        return None

    spb = R.self_attr(vk, "_sectors_per_block")
    ratio = R.self_attr(vk, "_chunk_ratio")
    chk.formula("K-FORMULA", "sectors-per-block", init.func, spb, spec_expr("block_size // sector_size", env), domain=dom)
    chk.formula("K-FORMULA", "chunk-ratio", init.func, ratio, spec_expr("(2 ** 23 * sector_size) // block_size", env), domain=dom)
    env["spb"] = spec_expr("block_size // sector_size", env)
    env["ratio"] = spec_expr("(2 ** 23 * sector_size) // block_size", env)

    # header / region table locations
    seeks = [R.expr(init, s.args[0]) for s in calls_named(init, "seek")]
    vals = sorted(t[1] for t in seeks if S.is_const(t))
    chk.decide(vals == [65536, 131072], "K-CONST", "header-offsets", init.func,
               f"the two headers are read at 64 KiB and 128 KiB: seeks {vals}", expected="[65536, 131072]", found=str(vals))
    rk = chk.prog.cls(REL, "RegionTable").key
    rts = []
    for n in ast.walk(init.func):
        if isinstance(n, ast.Call):
            t = R.expr(init, n)
            if t[0] == "call" and t[1] == "new:" + rk and len(t[2]) >= 2 and S.is_const(t[2][1]):
                rts.append(t[2][1][1])
    chk.decide(sorted(rts) == [196608, 262144], "K-CONST", "region-table-offsets", init.func,
               f"region tables at 192 KiB and 256 KiB: {sorted(rts)}", expected="[196608, 262144]", found=str(sorted(rts)))
    rctx = chk.func(REL, "RegionTable.__init__")
    for s in calls_named(rctx, "seek"):
        chk.formula("K-FORMULA", "region-table-seek", s, R.expr(rctx, s.args[0]), ("p", rctx.qual, 2))
    _typestate(chk, rctx, "region-table")
    mctx = chk.func(REL, "MetadataTable.__init__")
    _typestate(chk, mctx, "metadata-table")

    # ---- BlockAllocationTable ----------------------------------------------------------------
    bk = chk.prog.cls(REL, "BlockAllocationTable").key
    bctx = chk.func(REL, "BlockAllocationTable.__init__")
    bat_new = [R.expr(init, n) for n in ast.walk(init.func) if isinstance(n, ast.Call)]
    bat_new = [t for t in bat_new if t[0] == "call" and t[1] == "new:" + bk]
    if not bat_new:
        raise AnalysisError("ANCHOR-VANISHED VHDX.__init__ builds no BlockAllocationTable")
    rmeta = S.call(f"{rk}.get", [("self", rk), S.C(CONSTS["BAT_REGION_GUID"])])
    st, fm = field_map(chk, CREL, "region_table_entry")
    bat_off_want = ("attr", rmeta, fm["file_offset"].name)
    chk.decide(len(bat_new[0][2]) >= 2 and bat_new[0][2][1] == bat_off_want, "K-PROV", "bat:offset<-BAT-region", init.func,
               "the BAT is located by the file_offset of the region with the BAT GUID",
               expected=S.show(bat_off_want), found=S.show(bat_new[0][2][1])[:200] if len(bat_new[0][2]) >= 2 else "?")
    binds = {("p", bctx.qual, 2): S.unk("BAT_OFFSET")}
    env["bat_offset"] = S.unk("BAT_OFFSET")
    gctx = chk.func(REL, "BlockAllocationTable.get")
    env["entry"] = ("p", gctx.qual, 1)
    for s in calls_named(gctx, "seek"):
        chk.formula("K-FORMULA", "bat:entry-address", s, S.subst(R.expr(gctx, s.args[0]), binds),
                    spec_expr("bat_offset + entry * 8", env))
    _typestate(chk, gctx, "bat")
    pbc = R.self_attr(bk, "_pb_count")
    sbc = R.self_attr(bk, "_sb_count")
    ec = R.self_attr(bk, "entry_count")
    chk.formula("K-FORMULA", "bat:payload-count", bctx.func, pbc, spec_expr("ceildiv(size, block_size)", env), domain=dom)
    env["pb"] = spec_expr("ceildiv(size, block_size)", env)
    chk.formula("K-FORMULA", "bat:bitmap-count", bctx.func, sbc, spec_expr("ceildiv(pb, ratio)", env), domain=dom)
    parent = R.self_attr(vk, "parent")
    ec_want = ("ite", parent, spec_expr("ceildiv(pb, ratio) * (ratio + 1)", env), spec_expr("pb + (pb - 1) // ratio", env))
    alts = S.alternatives(ec)
    walts = S.alternatives(ec_want)
    ok = len(alts) == 2
    if ok:
        for a in alts:
            ok = ok and any(S.equiv(a, w, domain=dom, n=60).equal is True for w in walts)
    chk.decide(ok, "K-FORMULA", "bat:entry-count", bctx.func,
               "entry count = sb*(ratio+1) with a parent, pb + (pb-1)//ratio without",
               expected=" | ".join(S.show(w)[:150] for w in walts), found=" | ".join(S.show(a)[:150] for a in alts))
    # which alternative under which condition
    for n in ast.walk(bctx.func):
        if isinstance(n, ast.Assign) and any(isinstance(t, ast.Attribute) and t.attr == "entry_count" for t in n.targets):
            conds = conds_sym(chk, bctx, n)
            val = R.expr(bctx, n.value)
            with_parent = S.equiv(val, walts[0], domain=dom, n=40).equal is True
            tab = reach_table(conds, {"parent": parent}, [{"parent": None}, {"parent": 1}])
            chk.decide(tab == ([False, True] if with_parent else [True, False]), "K-DISPATCH",
                       f"bat:entry-count-branch:{'parent' if with_parent else 'no-parent'}", n,
                       "the interleaved (differencing) count is used iff a parent exists", found=str(tab))
    # index bound gate
    raises = [n for n in ast.walk(gctx.func) if isinstance(n, ast.Raise)]
    if raises:
        conds = [(S.subst(t, binds), p) for t, p in conds_sym(chk, gctx, raises[0])]
        tab = {}
        for e, c in ((0, 1), (4, 5), (5, 5), (6, 5), (0, 0)):
            tab[(e, c)] = reach_table(conds, {"e": env["entry"], "c": ec}, [{"e": e, "c": c}])[0]
        chk.decide(tab == {k: k[0] >= k[1] for k in tab}, "K-GATE", "bat:index-bound", raises[0],
                   "an entry index >= entry_count is refused", found=str(tab))
    get_key = f"{bk}.get"
    pctx = chk.func(REL, "BlockAllocationTable.pb")
    sctx = chk.func(REL, "BlockAllocationTable.sb")
    benv = dict(env)
    benv["block"] = ("p", pctx.qual, 1)
    for q, c, name, formula in ((pctx, "pb", "payload-index", "block + block // ratio"),
                                (sctx, "sb", "bitmap-index", "(block // ratio + 1) * ratio + block // ratio")):
        benv["block"] = ("p", q.qual, 1)
        rets = [n for n in ast.walk(q.func) if isinstance(n, ast.Return)]
        t = R.expr(q, rets[-1].value, q.cfg.node_for(rets[-1])) if rets else S.unk("noreturn")
        idx = None
        if t[0] == "inst" and t[2][0] == "call" and t[2][1] == get_key:
            idx = t[2][2][1]
        elif t[0] == "call" and t[1] == get_key:
            idx = t[2][1]
        if idx is None:
            chk.undecided("K-FORMULA", f"bat:{name}", q.func, f"cannot find the BAT lookup in {c}(): {S.show(t)[:200]}")
        else:
            chk.formula("K-FORMULA", f"bat:{name}", q.func, idx, spec_expr(formula, benv), domain=dom)

    # ---- read_sectors ------------------------------------------------------------------------
    _byte_to_sector(chk, REL, "VHDX._read", ss)
    ctx = chk.func(REL, "VHDX.read_sectors")
    loops = loops_of(ctx)
    if not loops:
        raise AnalysisError("ANCHOR-VANISHED VHDX.read_sectors has no while loop")
    loop = loops[0]
    carried = loop_carried(chk, ctx, loop)
    pname, pinfo = carried_with_entry(chk, carried, ("p", ctx.qual, 1))
    rname, rinfo = carried_with_entry(chk, carried, ("p", ctx.qual, 2))
    if pinfo is None or rinfo is None:
        chk.undecided("K-SPLIT", "loop-counters", loop, "cannot identify position/remaining loop variables")
        return
    POS, REM = pinfo["phi"], rinfo["phi"]
    env.update(POS=POS, REM=REM)
    env["STEP"] = spec_expr("min(REM, spb - POS % spb)", env)
    bat_layout_key = None
    for mi in [chk.prog.info(CREL)]:
        for var in mi.layouts:
            bat_layout_key = (CREL, var)

    def ENTRY(idx):
        return ("inst", "bat_entry", S.call(get_key, [("self", bk), idx]), bat_layout_key)

    st, fm = field_map(chk, CREL, "bat_entry")
    PB = ENTRY(spec_expr("POS // spb + (POS // spb) // ratio", env))
    SB = ENTRY(spec_expr("((POS // spb) // ratio + 1) * ratio + (POS // spb) // ratio", env))
    # use the code's own spelling of these two table look-ups when it is equal to the specified index
    seen = []
    for n in ast.walk(ctx.func):
        if isinstance(n, ast.Call):
            t = R.expr(ctx, n)
            if t[0] == "inst" and t[1] == "bat_entry" and t[2][0] == "call" and t[2][1] == get_key and t not in seen:
                seen.append(t)
    for t in seen:
        idx = t[2][2][1]
        if S.equiv(idx, PB[2][2][1], domain=dom, n=60).equal is True:
            PB = t
        elif S.equiv(idx, SB[2][2][1], domain=dom, n=60).equal is True:
            SB = t
    env["pb_mb"] = R.field(PB, fm["file_offset_mb"].name)
    env["sb_mb"] = R.field(SB, fm["file_offset_mb"].name)
    state = R.field(PB, fm["state"].name)

    def dom2(leaf, rng):
        v = dom(leaf, rng)
        if v is not None:
            return v
        if leaf == REM:
            return rng.choice([1, 2, 7, 4096, rng.randrange(1, 1 << 20)])
        return None

    for src, nxt in pinfo["next"]:
        chk.formula("K-SPLIT", "position-advance", loop, nxt, spec_expr("POS + STEP", env), domain=dom2)
    for src, nxt in rinfo["next"]:
        chk.formula("K-SPLIT", "remaining-advance", loop, nxt, spec_expr("REM - STEP", env), domain=dom2)
    fh = R.self_attr(vk, "fh")
    # effects and their path conditions
    combos = [{"state": s, "parent": p} for s in (0, 1, 2, 3, 6, 7) for p in (None, 1)]
    table = {(c["state"], c["parent"]): set() for c in combos}
    for call, t in appends_in(chk, ctx):
        eff = classify_effect(t, fh, parent)
        conds = conds_sym(chk, ctx, call)
        reach = reach_table(conds, {"state": state, "parent": parent}, combos)
        in_partial = any(isinstance(a, ast.For) for a in _ancestors_until(call, loop))
        for c, hit in zip(combos, reach):
            if hit:
                table[(c["state"], c["parent"])].add(eff[0])
        if eff[0] == "ZEROS":
            chk.formula("K-SPLIT", "zeros-length", call, eff[1], spec_expr("STEP * sector_size", env), domain=dom2)
        elif eff[0] == "FILE" and not in_partial:
            chk.formula("K-SPLIT", "read-length", call, eff[2], spec_expr("STEP * sector_size", env), domain=dom2)
        elif eff[0] == "PARENT" and not in_partial:
            chk.decide(eff[1] == ".read_sectors" and len(eff[2]) == 2, "K-PROV", "parent-read-interface", call,
                       "the parent is read through its sector interface", found=eff[1])
            if len(eff[2]) == 2:
                chk.formula("K-FORMULA", "parent-read-sector", call, eff[2][0], POS, domain=dom2)
                chk.formula("K-SPLIT", "parent-read-count", call, eff[2][1], env["STEP"], domain=dom2)
        elif eff[0] == "OTHER":
            chk.violated("K-DISPATCH", "unknown-effect", call, f"appended data is of no known class: {S.show(t)[:200]}")
    want_t = {}
    for c in combos:
        s, p = c["state"], c["parent"]
        if s == 0:
            w = {"PARENT"} if p else {"ZEROS"}
        elif s in (1, 2, 3):
            w = {"ZEROS"}
        elif s == 6:
            w = {"FILE"}
        else:
            w = {"FILE", "PARENT"}
        want_t[(s, p)] = w
    chk.decide(table == want_t, "K-DISPATCH", "block-state-table", loop,
               "state x parent -> effect classes: 0: parent|zeros; 1,2,3: zeros; 6: own file; 7: per-sector bitmap (file / parent)",
               expected=_fmt(want_t), found=_fmt(table))
    # data seek in the fully-present branch (seek calls not inside the partial for-loop and not the bitmap seek)
    for s in calls_named(ctx, "seek"):
        in_partial = any(isinstance(a, ast.For) for a in _ancestors_until(s, loop))
        conds = conds_sym(chk, ctx, s)
        reach = reach_table(conds, {"state": state}, [{"state": 6}, {"state": 7}])
        t = R.expr(ctx, s.args[0])
        if reach == [True, False]:
            chk.formula("K-FORMULA", "data-address", s, t, spec_expr("pb_mb * 2 ** 20 + (POS % spb) * sector_size", env), domain=dom2)
        elif reach == [False, True] and not in_partial:
            chk.formula("K-FORMULA", "bitmap-address", s, t,
                        spec_expr("sb_mb * 2 ** 20 + (((POS // spb) % ratio) * spb + POS % spb) // 8", env), domain=dom2)
    _typestate(chk, ctx, "read")
    for q in ("VHDX._read", "VHDX.read_sectors", "BlockAllocationTable.get", "BlockAllocationTable.pb", "BlockAllocationTable.sb"):
        c = chk.func(REL, q)
        stores = self_stores(c.func)
        chk.decide(not stores, "K-PURE", f"no-self-store:{q}", stores[0][0] if stores else c.func,
                   "read path does not store to self" if not stores else stores[0][1], nontrivial=False)
    chk.require("K-LAYOUT", 11)
    chk.require("K-CONST", 19)
    chk.require("K-FORMULA", 10)
    chk.require("K-SPLIT", 5)
    chk.require("K-TYPESTATE", 4)


def _ancestors_until(node, stop):
    from ..loader import parent

    n = parent(node)
    while n is not None and n is not stop:
        yield n
        n = parent(n)


def _fmt(t):
    return "; ".join(f"{k[0]}/{'P' if k[1] else '-'}:{'+'.join(sorted(v)) or 'nothing'}" for k, v in sorted(t.items(), key=lambda kv: (kv[0][0], bool(kv[0][1]))))
