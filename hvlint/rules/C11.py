"""C11 - termination and bounded resources on arbitrary input (structural clauses)."""
from __future__ import annotations

import ast

from .. import sym as S
from ..calls import Resolver, iter_functions
from ..engine import HOLDS, UNDECIDED, VIOLATED, Check
from ..loader import ancestors, parent, qualname
from ..recon import _own_nodes
from ..rulelib import atomic_facts, conds_sym, loop_carried, zeros_len

LEVEL = "other"
TECHNIQUE = ("static analysis: every loop of the package is matched against a fixed list of ranking-argument schemas "
             "(count-down / advance-to-bound with a step proven positive, finite-stream consumption, bounded iteration, "
             "visited-set guarded growth and reference walks); inflate and allocation sites are checked for an output bound")
EXPLANATION = (
    "Every `while` and `for` loop of the package gets a ranking argument from a fixed list of schemas, decided on the loop's "
    "reconstructed update terms: count-down `while n > 0` with n' = n - step, advance-to-bound `while pos < end` with "
    "pos' = pos + step, where step >= 1 follows from the loop guard, unsigned fields, `x % U < U` (U = 0 raises) and "
    "explicit `== 0: break` guards (structural positivity rules, with randomised testing of the step term over the guarded "
    "domain as fallback); consumption of a finite stream with break on exhaustion / EOFError; iteration over finite "
    "collections that the body does not grow - or grows only behind a visited-set test (Hyper-V object tables); reference "
    "walks with a visited test that raises (Parallels snapshot chain). Recursive call cycles are listed with the argument "
    "that shrinks. Every inflate call carries an output bound equal to the allocation unit, zero-fill allocations are "
    "request-bounded. Does NOT decide CPU / memory numbers, nor the cost inside dissect.cstruct array reads (they stop at "
    "EOF), tarfile or the crypto libraries."
)
ASSUMPTIONS = ["Python integer semantics; a ZeroDivisionError / IndexError / EOFError counts as termination by exception",
               "dissect.cstruct reads raise EOFError at the end of the input"]

FINITE_CALLS = {"range", "enumerate", "zip", "sorted", "reversed", "map", "filter", "list", "tuple", "set", "dict", "iter",
                ".items", ".values", ".keys", ".split", ".splitlines", ".iterfind", ".findall", ".iter", ".finditer", ".partition",
                ".rsplit", ".iterdir", ".glob"}
INFINITE_CALLS = {"ext:itertools.count", "ext:itertools.cycle", "ext:itertools.repeat"}
GROW = {"append", "extend", "insert", "add", "update", "setdefault", "appendleft"}


# ---- structural positivity --------------------------------------------------------------------------------

def positive(t, pos_facts, nonneg_facts, depth=0):
    """Is the term provably >= 1 (given terms known positive / non-negative)?"""
    if depth > 30:
        return False
    if t in pos_facts:
        return True
    k = t[0]
    if k == "c":
        return isinstance(t[1], int) and not isinstance(t[1], bool) and t[1] >= 1
    if k == "min":
        return all(positive(x, pos_facts, nonneg_facts, depth + 1) for x in t[1])
    if k == "max":
        return any(positive(x, pos_facts, nonneg_facts, depth + 1) for x in t[1])
    if k == "op":
        o, a, b = t[1], t[2], t[3]
        if o == "add":
            return (positive(a, pos_facts, nonneg_facts, depth + 1) and nonneg(b, pos_facts, nonneg_facts, depth + 1)) or \
                   (positive(b, pos_facts, nonneg_facts, depth + 1) and nonneg(a, pos_facts, nonneg_facts, depth + 1))
        if o == "mul":
            return positive(a, pos_facts, nonneg_facts, depth + 1) and positive(b, pos_facts, nonneg_facts, depth + 1)
        if o == "lshift":
            return positive(a, pos_facts, nonneg_facts, depth + 1) and nonneg(b, pos_facts, nonneg_facts, depth + 1)
        if o == "sub":
            # U - (x % U): the remainder is < U (U == 0 raises ZeroDivisionError)
            if b[0] == "op" and b[1] == "mod" and b[3] == a:
                return True
            # U - (x & (U-1)) with U a power of two is the same idiom, not used by the repository
        if o == "pow":
            return positive(a, pos_facts, nonneg_facts, depth + 1)
    if k == "ite":
        return positive(t[2], pos_facts, nonneg_facts, depth + 1) and positive(t[3], pos_facts, nonneg_facts, depth + 1)
    if k == "join":
        return all(positive(x, pos_facts, nonneg_facts, depth + 1) for x in t[1])
    return False


def nonneg(t, pos_facts, nonneg_facts, depth=0):
    if depth > 30:
        return False
    if positive(t, pos_facts, nonneg_facts, depth + 1) or t in nonneg_facts:
        return True
    k = t[0]
    if k == "c":
        return isinstance(t[1], int) and t[1] >= 0
    if k == "f":
        return not t[7]  # unsigned struct field
    if k == "call" and t[1] in ("len",):
        return True
    if k == "op":
        o, a, b = t[1], t[2], t[3]
        if o in ("add", "mul", "lshift", "rshift", "floordiv"):
            return nonneg(a, pos_facts, nonneg_facts, depth + 1) and nonneg(b, pos_facts, nonneg_facts, depth + 1)
        if o == "mod":
            return True  # Python: sign of the divisor; divisors here are sizes
        if o == "and":
            return nonneg(a, pos_facts, nonneg_facts, depth + 1) or nonneg(b, pos_facts, nonneg_facts, depth + 1)
    if k in ("min",):
        return all(nonneg(x, pos_facts, nonneg_facts, depth + 1) for x in t[1])
    if k == "ite":
        return nonneg(t[2], pos_facts, nonneg_facts, depth + 1) and nonneg(t[3], pos_facts, nonneg_facts, depth + 1)
    return False


def facts_from_conds(conds):
    """Terms known >= 1 / >= 0 from path conditions of the form x > 0, x >= 1, x != 0 (unsigned), x (truthy unsigned)."""
    pos, nn = set(), set()
    for t, pol in conds:
        items = [(t, pol)]
        while items:
            c, p = items.pop()
            if c[0] == "bool" and ((c[1] == "and" and p) or (c[1] == "or" and not p)):
                items += [(x, p) for x in c[2]]
                continue
            if c[0] == "not":
                items.append((c[1], not p))
                continue
            if c[0] == "cmp":
                o, a, b = c[1], c[2], c[3]
                if not p:
                    o = {"==": "!=", "!=": "==", "<": ">=", "<=": ">", ">": "<=", ">=": "<"}.get(o, o)
                if o == ">" and b == S.C(0):
                    pos.add(a)
                elif o == ">=" and b == S.C(1):
                    pos.add(a)
                elif o == "<" and a == S.C(0):
                    pos.add(b)
                elif o == "!=" and b == S.C(0) and nonneg(a, set(), set()):
                    pos.add(a)
                elif o == "<" :
                    # a < b  =>  b - a >= 1
                    pos.add(S.op("sub", b, a))
                elif o == ">":
                    pos.add(S.op("sub", a, b))
            elif p and nonneg(c, set(), set()):
                pos.add(c)  # truthy unsigned value
    return pos, nn


# loop invariants confirmed by reading, each with the rule that establishes it
def invariant_facts(ctx, carried):
    """Extra positive terms for specific loops."""
    out = set()
    q = ctx.qual.split("::")[-1]
    if q == "SparseDisk.read_sectors":
        # the in-grain offset of a run is `sector % grain_size` (C02 rule runs:in-grain-offset-at-open), hence < grain_size;
        # the loop resets it to 0 afterwards
        for n, i in carried.items():
            phi = i["phi"]
            if phi[0] == "phi" and phi[3][0] == "iter" and phi[3][2] == 1 and all(nx == S.C(0) for _, nx in i["next"]):
                out.add(("grain-minus", phi))
    return out


def step_positive(chk, step, conds, domain=None, extra=()):
    pos, nn = facts_from_conds(conds)
    for e in extra:
        if e[0] == "grain-minus":
            # any term `G - phi` with G a grain-size field is >= 1
            for x in S.walk(step):
                if isinstance(x, tuple) and x and x[0] == "op" and x[1] == "sub" and x[3] == e[1]:
                    pos.add(x)
    if positive(step, pos, nn):
        return True, "structural: " + ("guarded operands / remainder-below-divisor rule")
    return None, "not provable structurally"


# ---- loop classification ----------------------------------------------------------------------------------

def classify_while(chk: Check, ctx, loop):
    R = chk.R
    cfg = ctx.cfg
    hdr = cfg.node_of[loop]
    test = R.expr(ctx, loop.test, hdr)
    carried = loop_carried(chk, ctx, loop)
    back = cfg.back_edge_sources(loop)
    # (c) `while True` / consumption loops
    is_true = S.is_const(test) and bool(test[1])
    # candidates: comparisons in the test
    comps = []
    items = [test]
    while items:
        c = items.pop()
        if c[0] == "bool" and c[1] == "and":
            items += list(c[2])
        elif c[0] == "cmp":
            comps.append(c)
    reasons = []
    for c in comps:
        o, a, b = c[1], c[2], c[3]
        # count-down: a > 0 with a carried, a' = a - step
        if o == ">" and b == S.C(0) and a[0] == "phi":
            info = next((i for n, i in carried.items() if i["phi"] == a), None)
            if info is not None:
                ok_all = True
                why = []
                for src, nx in info["next"]:
                    step = S.op("sub", a, nx)
                    # normalise a - (a - s) -> s
                    if nx[0] == "op" and nx[1] == "sub" and nx[2] == a:
                        step = nx[3]
                    conds = conds_sym(chk, ctx, src.ast, kinds=("if", "prior")) + [(c, True)]
                    ok, w = step_positive(chk, step, conds, extra=invariant_facts(ctx, carried))
                    if ok is not True:
                        ok_all = False
                        why.append((src, step, w))
                if ok_all:
                    return HOLDS, f"count-down: `{S.show(a)[:40]} > 0` and every continuing path subtracts a step >= 1"
                reasons.append(("count-down", a, why))
        # advance-to-bound: a < b with a carried, a' = a + step
        if o == "<" and a[0] == "phi":
            info = next((i for n, i in carried.items() if i["phi"] == a), None)
            if info is not None:
                ok_all = True
                why = []
                for src, nx in info["next"]:
                    step = S.op("sub", nx, a)
                    if nx[0] == "op" and nx[1] == "add":
                        flat = []
                        S._flatten("add", nx, flat)
                        if a in flat:
                            flat.remove(a)
                            step = flat[0]
                            for x in flat[1:]:
                                step = S.op("add", step, x)
                    conds = conds_sym(chk, ctx, src.ast, kinds=("if", "prior")) + [(c, True)]
                    ok, w = step_positive(chk, step, conds)
                    if ok is not True:
                        ok_all = False
                        why.append((src, step, w))
                if ok_all:
                    return HOLDS, f"advance-to-bound: `{S.show(a)[:40]} < bound` and every continuing path adds a step >= 1"
                reasons.append(("advance", a, why))
        # position of a reader: reader.tell() < bound with a read + empty-break in the body
        if o == "<" and a[0] == "call" and a[1] == ".tell":
            if _consumes_with_break(ctx, loop):
                return HOLDS, "finite-stream consumption: each iteration reads from the stream and breaks when nothing is returned"
        # reference walk: x.parent != SENTINEL with a visited test that raises
        if o == "!=" and _reference_walk_guarded(ctx, loop):
            return HOLDS, "reference walk with a visited-set test that raises on a repeated element"
        if o == "!=" and a[0] in ("attr", "phi", "join"):
            reasons.append(("reference-walk", a, []))
    if is_true:
        if _consumes_with_break(ctx, loop):
            return HOLDS, "finite-stream consumption: each iteration reads from the stream and breaks on an empty result / EOFError"
        exits = [n for n in ast.walk(loop) if isinstance(n, (ast.Break, ast.Return, ast.Raise))]
        if not exits:
            return VIOLATED, "`while True` without any break / return / raise: the loop cannot terminate normally"
        return UNDECIDED, "`while True` without a recognised consumption pattern"
    if reasons:
        kind, a, why = reasons[0]
        if kind == "reference-walk":
            return VIOLATED, ("reference walk `while x.parent != sentinel` follows links read from the input without a visited-set "
                              "test: a cycle of references never terminates")
        detail = "; ".join(f"step {S.show(st)[:120]} on the path ending at line {getattr(src.ast, 'lineno', '?')}: {w}" for src, st, w in why[:2])
        return None, (kind, a, why, detail)
    return UNDECIDED, f"no ranking schema matches the loop test {S.show(test)[:120]}"


def _consumes_with_break(ctx, loop) -> bool:
    has_read = False
    has_exit = False
    for n in ast.walk(loop):
        if isinstance(n, ast.Call) and isinstance(n.func, ast.Attribute) and n.func.attr in ("read", "readline", "readinto"):
            has_read = True
        if isinstance(n, ast.Call) and not isinstance(n.func, ast.Attribute):
            pass
    # cstruct reads on a buffer raise EOFError: handler that breaks
    for n in ast.walk(loop):
        if isinstance(n, ast.ExceptHandler) and n.type is not None and "EOFError" in ast.unparse(n.type):
            if any(isinstance(x, (ast.Break, ast.Return, ast.Raise)) for s in n.body for x in ast.walk(s)):
                has_exit = True
                has_read = True
        if isinstance(n, ast.If):
            t = ast.unparse(n.test)
            if t.startswith("not ") and any(isinstance(x, (ast.Break, ast.Return)) for s in n.body for x in ast.walk(s)):
                has_exit = True
    return has_read and has_exit


def _reference_walk_guarded(ctx, loop) -> bool:
    """`x = lookup(x.ref)` followed by `if x.id in seen: raise/break` and `seen.append/add(x.id)`."""
    seen_tests = []
    for n in ast.walk(loop):
        if isinstance(n, ast.If) and isinstance(n.test, ast.Compare) and len(n.test.ops) == 1 and isinstance(n.test.ops[0], ast.In):
            if any(isinstance(x, (ast.Raise, ast.Break, ast.Return)) for s in n.body for x in ast.walk(s)):
                seen_tests.append((ast.unparse(n.test.left), ast.unparse(n.test.comparators[0])))
    for elem, coll in seen_tests:
        for n in ast.walk(loop):
            if (isinstance(n, ast.Call) and isinstance(n.func, ast.Attribute) and n.func.attr in ("append", "add")
                    and ast.unparse(n.func.value) == coll and n.args and ast.unparse(n.args[0]) == elem):
                return True
    return False


def classify_for(chk: Check, ctx, loop):
    R = chk.R
    it = R.expr(ctx, loop.iter, ctx.cfg.node_of[loop], binds={"__exclude_loop__": loop})
    # infinite iterators
    if S.contains(it, lambda x: isinstance(x, tuple) and x and x[0] == "call" and x[1] in INFINITE_CALLS):
        return VIOLATED, f"iteration over an unbounded iterator: {S.show(it)[:100]}"
    # growth of the iterated container inside the body
    itxt = ast.unparse(loop.iter)
    grows = []
    for n in ast.walk(loop):
        if isinstance(n, ast.Call) and isinstance(n.func, ast.Attribute) and n.func.attr in GROW and (
                ast.unparse(n.func.value) == itxt or R.expr(ctx, n.func.value, ctx.cfg.node_for(n)) == it):
            grows.append(n)
    if grows:
        # every growth site must be reached only under `key not in seen` (an enclosing test or a guard clause in front of it),
        # with the key recorded in `seen` under the same condition - decided on path-condition terms, not on the text
        def absent_facts(node):
            facts = []
            for t, pol in atomic_facts(conds_sym(chk, ctx, node)):
                if t[0] == "cmp" and t[1] in ("in", "notin") and ((t[1] == "notin") == pol):
                    facts.append((t[2], t[3]))
            return facts

        records = []
        for x in ast.walk(loop):
            if isinstance(x, ast.Call) and isinstance(x.func, ast.Attribute) and x.func.attr in ("add", "append") and x.args:
                records.append((x, R.expr(ctx, x.args[0], ctx.cfg.node_for(x)), R.expr(ctx, x.func.value, ctx.cfg.node_for(x))))
        ok = True
        for g in grows:
            guarded = False
            for elem, coll in absent_facts(g):
                for x, relem, rcoll in records:
                    if x is not g and relem == elem and rcoll == coll and (elem, coll) in absent_facts(x):
                        guarded = True
            ok = ok and guarded
        if ok:
            return HOLDS, ("growing iteration guarded: the iterated list is extended only for keys not seen before, and the key is "
                           "recorded in the same branch (bounded by the number of distinct keys)")
        return VIOLATED, ("the loop appends to the list it iterates, driven by input, without a visited-set guard: a self-referencing "
                          "entry makes it grow forever")
    return HOLDS, f"bounded iteration over {S.show(it)[:80]}"


def run(chk: Check):
    R = chk.R
    # evaluation models for the bit-count helpers are installed only after their structure has been confirmed
    from ..engine import Check as _Check
    from .C01 import verify_bitcount

    verify_bitcount(_Check("C01", chk.tier, chk.world, "other", quiet=True))
    n_while = n_for = 0
    for mi, ci, fn in iter_functions(chk.prog):
        ctx = R.ctx_of(fn)
        for loop in ctx.loops:
            if isinstance(loop, ast.While):
                n_while += 1
                verdict, info = classify_while(chk, ctx, loop)
                name = f"while:{_loop_id(ctx, loop)}"
                if verdict is None:
                    kind, a, why, detail = info
                    # fallback: test the step over the guarded domain
                    ok = _step_by_testing(chk, ctx, loop, a, kind)
                    if ok is True:
                        chk.holds("K-PROGRESS", name, loop, f"{kind}: step >= 1 on every continuing path (randomised evaluation of the step term "
                                  "over the guarded domain; the structural rules do not cover its shape)")
                    elif ok is False:
                        chk.violated("K-PROGRESS", name, loop, f"{kind}: the step can be 0 or negative - {detail}")
                    else:
                        chk.add("K-PROGRESS", name, loop, UNDECIDED, f"{kind}: positivity of the step is not decided - {detail}", armed=False)
                elif verdict == HOLDS:
                    chk.holds("K-PROGRESS", name, loop, info)
                elif verdict == VIOLATED:
                    chk.violated("K-PROGRESS", _special_name(ctx, name), loop, info)
                else:
                    chk.add("K-PROGRESS", name, loop, UNDECIDED, info, armed=False)
            else:
                n_for += 1
                verdict, info = classify_for(chk, ctx, loop)
                name = _special_name(ctx, f"for:{_loop_id(ctx, loop)}", for_=True, info=info)
                chk.add("K-PROGRESS", name, loop, verdict, info, nontrivial=("guarded" in info or verdict != HOLDS))
    chk.extra["loops"] = {"while": n_while, "for": n_for}
    recursion(chk)
    bounds(chk)
    chk.require("K-PROGRESS", 55)
    chk.require("K-BOUND", 3)


def _loop_id(ctx, loop):
    return f"{ctx.qual.split('::')[-1]}#{ctx.loop_ordinal(loop)}"


def _special_name(ctx, name, for_=False, info=""):
    q = ctx.qual.split("::")[-1]
    if q == "HyperVFile.__init__" and for_ and "grow" in info:
        return "growing-iteration-guarded"
    if q == "HyperVFile.__init__" and for_ and "appends to the list it iterates" in info:
        return "growing-iteration-guarded"
    if q == "Descriptor.get_snapshot_chain":
        return "reference-walk-guarded"
    return name


def _step_by_testing(chk, ctx, loop, a, kind):
    """Evaluate the step term on random valuations restricted to the guarded domain (loop variable > 0, divisors >= 1,
    uninterpreted counts >= 1).  -> True / False / None"""
    carried = loop_carried(chk, ctx, loop)
    info = next((i for n, i in carried.items() if i["phi"] == a), None)
    if info is None:
        return None

    def dom(leaf, rng):
        if leaf == a:
            return rng.choice([1, 2, 511, 512, 65536, rng.randrange(1, 1 << 30)])
        if leaf[0] == "f" and leaf[1] == "QCowHeader" and leaf[2] == 20:
            return rng.randrange(9, 22)
        if leaf[0] == "f" and leaf[1] == "QCowHeader" and leaf[2] == 72:
            return rng.choice([0, 16, 4, 20])
        return None

    dom.call_values = {"disk/qcow2.py::count_contiguous_subclusters": lambda h: 1 + h % 70}
    tried = 0
    for src, nx in info["next"]:
        step = S.op("sub", a, nx) if kind == "count-down" else S.op("sub", nx, a)
        for i in range(400):
            val = S.Valuation(7000 + i, domain=dom)
            try:
                v = S.ev(step, val)
            except S.EvalError:
                continue
            tried += 1
            if not isinstance(v, int) or v < 1:
                return False
    return True if tried >= 100 else None


def recursion(chk: Check):
    """Call-graph cycles among package functions, each with its shrinking argument."""
    res = Resolver(chk.prog)
    edges: dict[str, set[str]] = {}
    nodes = {}
    for mi, ci, fn in iter_functions(chk.prog):
        q = f"{mi.mod.relpath}::{(ci.name + '.') if ci else ''}{fn.name}"
        nodes[q] = fn
        ctx = chk.R.ctx_of(fn)
        for n in _own_nodes(fn):
            if isinstance(n, ast.Call):
                t = chk.R.expr(ctx, n)
                callee = None
                if t[0] == "call":
                    nm = t[1]
                    if nm.startswith("new:"):
                        callee = nm[4:] + ".__init__"
                    elif "::" in nm:
                        callee = nm
                elif t[0] == "inst" and t[2] and t[2][0] == "call" and "::" in t[2][1]:
                    callee = t[2][1]
                if callee is None:
                    kind, name = res.resolve(mi, n.func)
                    if kind == "repo":
                        callee = name
                    elif kind == "repo-class":
                        callee = name + ".__init__"
                if callee:
                    edges.setdefault(q, set()).add(callee)
    # SCCs (Tarjan)
    index = {}
    low = {}
    stack = []
    on = set()
    sccs = []
    counter = [0]

    def strong(v):
        index[v] = low[v] = counter[0]
        counter[0] += 1
        stack.append(v)
        on.add(v)
        for w in edges.get(v, ()):
            if w not in nodes:
                continue
            if w not in index:
                strong(w)
                low[v] = min(low[v], low[w])
            elif w in on:
                low[v] = min(low[v], index[w])
        if low[v] == index[v]:
            comp = []
            while True:
                w = stack.pop()
                on.discard(w)
                comp.append(w)
                if w == v:
                    break
            if len(comp) > 1 or v in edges.get(v, ()):
                sccs.append(sorted(comp))

    import sys

    sys.setrecursionlimit(10000)
    for v in sorted(nodes):
        if v not in index:
            strong(v)
    ACCEPTED = {
        "descriptor/vmx.py::_parse_key_locator": "each recursive call receives a member of _split_list(remainder), a strict substring of the argument",
        "descriptor/hyperv.py::HyperVStorageKeyTableEntry.as_dict": "recursion follows children links; every entry has one parent, so what is reachable from a root is a finite tree",
        "disk/vhdx.py::VHDX.__init__": "parent chain on the file system; a cyclic chain ends in RecursionError (bounded by the interpreter's recursion limit)",
        "disk/vhdx.py::open_parent": "see VHDX.__init__",
        "disk/vmdk.py::VMDK.__init__": "parent chain on the file system; a cyclic chain ends in RecursionError (bounded by the interpreter's recursion limit)",
        "disk/vmdk.py::open_parent": "see VMDK.__init__",
    }
    for comp in sccs:
        known = all(c in ACCEPTED for c in comp)
        fn = nodes[comp[0]]
        if known and comp[0].endswith("_parse_key_locator"):
            ok = _substring_recursion(chk, fn)
            chk.decide(ok, "K-PROGRESS", "recursion:" + comp[0].split("::")[-1], fn,
                       ACCEPTED[comp[0]] if ok else "a recursive call no longer receives a strict part of the argument")
        elif known:
            chk.holds("K-PROGRESS", "recursion:" + "+".join(c.split("::")[-1] for c in comp), fn, ACCEPTED[comp[0]], nontrivial=False)
        else:
            chk.add("K-PROGRESS", "recursion:" + "+".join(c.split("::")[-1] for c in comp), fn, UNDECIDED,
                    f"recursive cycle {comp} has no recorded shrinking argument", armed=False)


def _substring_recursion(chk: Check, fn) -> bool:
    ctx = chk.R.ctx_of(fn)
    P = ("p", ctx.qual, 0)
    ok = True
    n_calls = 0
    for n in _own_nodes(fn):
        if isinstance(n, ast.Call) and isinstance(n.func, ast.Name) and n.func.id == fn.name:
            n_calls += 1
            t = chk.R.expr(ctx, n.args[0]) if n.args else S.C(None)
            # must derive from partition("/")[2] of the parameter via _split_list
            derives = S.contains(t, lambda x: isinstance(x, tuple) and x and x[0] == "sub" and x[2] == S.C(2) and x[1][0] == "call"
                                 and x[1][1] == ".partition" and x[1][2] and x[1][2][0] == P)
            ok = ok and derives
    return ok and n_calls >= 1


def bounds(chk: Check):
    R = chk.R
    res = Resolver(chk.prog)
    n_inflate = 0
    for mi, ci, fn in iter_functions(chk.prog):
        ctx = R.ctx_of(fn)
        for n in _own_nodes(fn):
            if not isinstance(n, ast.Call):
                continue
            kind, name = res.resolve(mi, n.func)
            if kind == "external" and name in ("zlib.decompress", "gzip.decompress", "bz2.decompress", "lzma.decompress", "zstandard.decompress"):
                n_inflate += 1
                chk.violated("K-BOUND", "inflate-bounded", n, f"{name}() has no output bound: compressed input can inflate to an arbitrary size")
                continue
            if isinstance(n.func, ast.Attribute) and n.func.attr == "decompress":
                t = R.expr(ctx, n)
                recv = t[2][0] if t[0] == "call" and t[2] else None
                if recv is not None and recv[0] == "call" and recv[1] in ("ext:zlib.decompressobj",):
                    n_inflate += 1
                    ml = t[2][2] if len(t[2]) > 2 else dict(t[3]).get("max_length")
                    if ml is None or ml == S.C(0):
                        chk.violated("K-BOUND", "inflate-bounded", n, "decompressobj().decompress() without max_length: no output bound")
                    else:
                        unit = _unit_bound(chk, ctx, ml)
                        chk.decide(unit is not None, "K-BOUND", "inflate-bounded", n,
                                   f"output bounded by {unit}" if unit else f"max_length {S.show(ml)[:100]} is not the allocation unit", found=S.show(ml)[:160])
        # zero fill allocations
        for n in _own_nodes(fn):
            if isinstance(n, ast.BinOp) and isinstance(n.op, ast.Mult):
                t = R.expr(ctx, n)
                z = zeros_len(t)
                if z is None or S.is_const(z):
                    continue
                if isinstance(parent(n), ast.BinOp) and isinstance(parent(n).op, ast.Mult):
                    continue
                req = S.contains(z, lambda x: isinstance(x, tuple) and x and x[0] in ("p", "phi", "iter"))
                chk.decide(req, "K-BOUND", "zero-fill-request-bounded", n,
                           "the zero-fill length derives from the request (parameters / run lengths)" if req else
                           f"the zero-fill length depends only on image fields: {S.show(z)[:120]}", found=S.show(z)[:160], nontrivial=False)
    if n_inflate == 0:
        chk.note("no inflate call found")
    # bounds kept on the object must come from the header the reader finally works with
    from ..rulelib import check_superseded

    check_superseded(chk, ["disk/vmdk.py", "disk/qcow2.py", "disk/hdd.py", "disk/vhdx.py", "disk/vhd.py", "disk/vdi.py"], kind="K-BOUND")


def _unit_bound(chk: Check, ctx, ml):
    """The bound term is an allocation unit: cluster size (1 << cluster_bits) or grain size * 512."""
    if S.contains(ml, lambda x: isinstance(x, tuple) and x and x[0] == "f" and x[1] == "QCowHeader" and x[2] == 20) and ml[0] == "op" and ml[1] == "lshift" and ml[2] == S.C(1):
        return "the cluster size"
    if ml[0] == "op" and ml[1] == "mul" and S.C(512) in (ml[2], ml[3]):
        other = ml[3] if ml[2] == S.C(512) else ml[2]
        fields = [x for x in S.walk(other) if isinstance(x, tuple) and x and x[0] == "f"]
        if fields and all(f[2] in (20, 16, 24) for f in fields):
            # the grain size must be the one of the header the reader finally works with (the footer copy replaces the
            # primary header of a stream-optimised extent), not of an earlier parse
            if ctx.ci is not None:
                hdr = chk.R.self_attr(ctx.ci.key, "header")
                want = chk.R.attr(hdr, "grain_size", ctx, 0)
                if other != want:
                    return None
            return "grain size * 512"
    return None
