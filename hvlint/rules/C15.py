"""C15 - encrypted VMX: unlock round-trips and is authenticated (structural clauses)."""
from __future__ import annotations

import ast

from .. import sym as S
from ..engine import Check
from ..loader import AnalysisError
from ..program import NotConst
from ..recon import _own_nodes
from ..rulelib import reach_table, self_stores, conds_sym, func_eval, func_outcomes

LEVEL = "other"
TECHNIQUE = ("static analysis: constant tables against digest sizes, def-use provenance of the MAC comparison operands and "
             "KDF / cipher argument roles, must-pass-through of verification before the in-place update, handler discipline")
EXPLANATION = (
    "Decides structural necessary conditions of authenticated unlocking: the cipher / KDF / MAC tables (key sizes 16/24/32, hash "
    "names, MAC lengths not exceeding the digest size); the ciphertext is split as IV = first 16 bytes, MAC = last n bytes, body "
    "in between with n the table's length for the named MAC; PKCS#7 padding is removed iff its last byte n is in 1..16 and the last n "
    "bytes all equal n (the MAC does not cover the padding); the computed HMAC is over the decrypted (unpadded) data with the "
    "same key and is truncated to the declared MAC length before it is compared with the stored MAC (a declared length shorter "
    "than the digest must reach the computed side); every return of _decrypt_hmac lies behind that comparison, whose failing "
    "side raises; PBKDF2 receives hash <- table[pass2key], password <- passphrase, salt, rounds, dklen <- table[cipher]; AES-CBC "
    "is keyed with that key and IV; VMX.unlock_with_phrase updates the visible dictionary only after both stages verified, outside "
    "any handler; KeySafe.unseal_with_phrase swallows ValueError only and ends in raise; the passphrase of the call reaches the KDF "
    "on every unlock (Pair.unlock_with_phrase returns _decrypt_hmac(KDF(passphrase), data, mac), unseal passes it to each locator, "
    "VMX.unlock_with_phrase parses the key safe text currently in the dictionary) and no function on the unlock path stores to its "
    "object, so an attempt cannot be answered from an earlier one. Does NOT decide round-trip equality, "
    "nor AES / HMAC / PBKDF2 themselves."
)
ASSUMPTIONS = ["hashlib / hmac / pycryptodome implement the named primitives", "digest sizes: sha1 20 bytes, sha256 32 bytes"]

REL = "descriptor/vmx.py"
DIGEST = {"sha1": 20, "sha256": 32, "sha512": 64, "md5": 16, "sha384": 48, "sha224": 28}


def find(t, pred):
    return [x for x in S.walk(t) if isinstance(x, tuple) and x and pred(x)]


def run(chk: Check):
    R = chk.R
    mi = chk.prog.info(REL)
    # ---- tables ----------------------------------------------------------------------------------------------
    def table(name):
        try:
            return chk.prog.fold(ast.Name(id=name), mi)
        except NotConst:
            raise AnalysisError(f"ANCHOR-VANISHED table {REL}::{name}") from None

    cks, hm, p2k = table("CIPHER_KEY_SIZES"), table("HMAC_MAP"), table("PASS2KEY_MAP")
    chk.decide(dict(cks) == {"AES-256": 32, "AES-192": 24, "AES-128": 16}, "K-CONST", "cipher-key-sizes", (REL, "<const CIPHER_KEY_SIZES>", 1),
               "AES-128/192/256 -> 16/24/32 byte keys", expected="{AES-256: 32, AES-192: 24, AES-128: 16}", found=str(dict(cks)))
    chk.decide(dict(p2k) == {"PBKDF2-HMAC-SHA-1": "sha1", "PBKDF2-HMAC-SHA-256": "sha256"}, "K-CONST", "pass2key-map", (REL, "<const PASS2KEY_MAP>", 1),
               "PBKDF2-HMAC-SHA-1 / -256 -> sha1 / sha256", found=str(dict(p2k)))
    want_h = {"HMAC-SHA-1": ("sha1", 20), "HMAC-SHA-1-128": ("sha1", 16), "HMAC-SHA-256": ("sha256", 32)}
    chk.decide(dict(hm) == want_h, "K-CONST", "hmac-map", (REL, "<const HMAC_MAP>", 1), "MAC name -> (hash, stored MAC length)", expected=str(want_h), found=str(dict(hm)))
    truncated = []
    for name, v in dict(hm).items():
        if isinstance(v, tuple) and len(v) == 2 and v[0] in DIGEST:
            chk.decide(v[1] <= DIGEST[v[0]], "K-CONST", f"mac-length-within-digest:{name}", (REL, "<const HMAC_MAP>", 1),
                       f"{name}: stored MAC of {v[1]} bytes out of a {DIGEST[v[0]]}-byte digest", nontrivial=False)
            if v[1] < DIGEST[v[0]]:
                truncated.append(name)
    # ---- _decrypt_hmac -----------------------------------------------------------------------------------------
    ctx = chk.func(REL, "_decrypt_hmac")
    KEY, DATA, DIG = ("p", ctx.qual, 0), ("p", ctx.qual, 1), ("p", ctx.qual, 2)
    outs = func_outcomes(chk, ctx)
    entry = ("sub", S.C(hm), DIG)
    hname, hsize = ("sub", entry, S.C(0)), ("sub", entry, S.C(1))
    rets = [o for o in outs if o[0] == "return"]
    raises = [o for o in outs if o[0] == "raise"]
    cmpt = None
    for o in raises:
        for c, p in o[2]:
            if c[0] == "cmp" and c[1] in ("!=", "==") and find(c, lambda x: x[0] == "call" and x[1] in ("ext:hmac.digest", "ext:hmac.new", ".digest", "ext:hmac.compare_digest")):
                cmpt = (c, p, o)
            if c[0] == "not" and c[1][0] == "call" and c[1][1] == "ext:hmac.compare_digest":
                cmpt = (c, p, o)
    if cmpt is None:
        chk.violated("K-PATH", "mac-verified-before-return", ctx.func, "no MAC comparison guards the decrypted data")
        return
    c, pol, o = cmpt
    # every return is behind the comparison's passing side
    okret = bool(rets)
    for r in rets:
        okret = okret and any(cc == c and pp == (not pol) for cc, pp in r[2])
    chk.decide(okret, "K-PATH", "mac-verified-before-return", o[1], "every return of _decrypt_hmac lies behind the MAC comparison; a mismatch raises")
    # operands
    if c[0] == "cmp":
        lhs, rhs = c[2], c[3]
    else:
        lhs, rhs = c[1][2][0], c[1][2][1]
    comp = lhs if find(lhs, lambda x: x[0] == "call" and "hmac" in x[1]) else rhs
    stored = rhs if comp is lhs else lhs
    want_stored = ("sub", DATA, ("slice", ("neg", hsize), S.C(None)))
    chk.decide(stored == want_stored, "K-PROV", "stored-mac-slice", o[1], "stored MAC = data[-n:] with n = HMAC_MAP[name][1]",
               expected=S.show(want_stored)[:200], found=S.show(stored)[:200])
    # computed side: hmac.digest(key, decrypted, hash)[:n]
    dcalls = find(comp, lambda x: x[0] == "call" and x[1] == "ext:hmac.digest")
    ok = bool(dcalls) and dcalls[0][2][0] == KEY and dcalls[0][2][2] == hname
    chk.decide(ok, "K-PROV", "mac-key-and-hash", o[1], "the MAC is computed with the decryption key and the hash named by the table",
               found=S.show(dcalls[0])[:200] if dcalls else S.show(comp)[:200])
    reaches = comp[0] == "sub" and comp[2][0] == "slice" and comp[2][1] == S.C(None) and comp[2][2] == hsize
    if truncated:
        chk.decide(reaches, "K-CONST", "mac-length-reaches-comparison", o[1],
                   "the computed digest is truncated to the declared MAC length before the comparison" if reaches else
                   f"{truncated} declare(s) a MAC shorter than the digest, but the full digest is compared with the stored MAC: such data can never be verified",
                   expected="hmac.digest(...)[:n]", found=S.show(comp)[:200])
    # message = decrypted data (after padding removal)
    if dcalls:
        msg = dcalls[0][2][1]
        dec = find(msg, lambda x: x[0] == "call" and x[1] == ".decrypt")
        ckey = f"{REL}::_create_cipher"
        okm = bool(dec) and dec[0][2][0] == S.call(ckey, [KEY, ("sub", DATA, ("slice", S.C(None), S.C(16)))]) \
            and dec[0][2][1] == ("sub", DATA, ("slice", S.C(16), ("neg", hsize)))
        chk.decide(okm, "K-PROV", "ciphertext-slices", o[1], "cipher = AES(key, iv = data[:16]); body = data[16:-n]",
                   found=S.show(dec[0])[:300] if dec else S.show(msg)[:200])
        same = all(r[3] == msg for r in rets)
        chk.decide(same, "K-PROV", "verified-data-is-returned-data", o[1], "the data that was authenticated is exactly the data returned")
    # padding removal
    # The MAC covers the plaintext WITHOUT its padding, so the padding itself is unauthenticated: only well-formed PKCS#7
    # padding (n bytes of value n, 1 <= n <= 16) may be removed, otherwise altered padding bytes are accepted.
    pkcs7(chk, ctx, dcalls)
    # ---- _create_cipher ----------------------------------------------------------------------------------------
    cctx = chk.func(REL, "_create_cipher")
    couts = func_outcomes(chk, cctx)
    aes = [x for oo in couts if oo[3] is not None for x in find(oo[3], lambda x: x[0] == "call" and x[1] == "ext:Crypto.Cipher.AES.new")]
    ok = bool(aes) and aes[0][2][0] == ("p", cctx.qual, 0) and dict(aes[0][3]).get("iv") == ("p", cctx.qual, 1) and "MODE_CBC" in S.show(aes[0][2][1])
    chk.decide(ok, "K-PROV", "aes-cbc-key-iv", cctx.func, "AES.new(key, MODE_CBC, iv=iv)", found=S.show(aes[0])[:200] if aes else "no AES.new")
    # ---- Phrase.unwrap -------------------------------------------------------------------------------------------
    uctx = chk.func(REL, "Phrase.unwrap")
    uo = func_outcomes(chk, uctx)
    pk_ = f"{REL}::Phrase.__init__"
    from ..rulelib import memo_read_returns
    _memo = memo_read_returns(uctx.func)
    # (returns that hand back an entry of a per-instance memo keyed by every input are not derivations of their own)
    urets = [o for o in uo if o[0] == "return" and not any(o[1] is m for m in _memo)]
    t = urets[0][3] if urets else S.unk("none")
    want = S.call("ext:hashlib.pbkdf2_hmac", [("sub", S.C(p2k), ("p", pk_, 2)), S.call(".encode", [("p", uctx.qual, 1)]), ("p", pk_, 5), ("p", pk_, 4),
                                               ("sub", S.C(cks), ("p", pk_, 3))])
    # (every return, should there be several - a guard in front of a memo, say - is the same derivation)
    unwrap_ok = bool(urets) and all(o[3] == want for o in urets)
    chk.decide(unwrap_ok, "K-PROV", "pbkdf2-argument-roles", uctx.func,
               "pbkdf2_hmac(hash <- PASS2KEY_MAP[pass2key], password <- passphrase, salt, rounds, dklen <- CIPHER_KEY_SIZES[cipher])",
               expected=S.show(want)[:300], found=S.show(t)[:300])
    # Phrase construction from the crypto dict
    lctx = chk.func(REL, "_parse_key_locator")
    ph = [R.expr(lctx, n) for n in _own_nodes(lctx.func) if isinstance(n, ast.Call) and isinstance(n.func, ast.Name) and n.func.id == "Phrase"]
    ok = False
    if ph:
        a = ph[0][2]
        ok = len(a) == 5 and a[1][0] == "sub" and a[1][2] == S.C("pass2key") and a[2][0] == "sub" and a[2][2] == S.C("cipher") \
            and S.show(a[3]).endswith("['rounds']") and a[4][0] == "call" and a[4][1] == "ext:base64.b64decode" and S.show(a[4][2][0]).endswith("['salt']")
    chk.decide(ok, "K-PROV", "phrase-fields", lctx.func, "Phrase(id, dict[pass2key], dict[cipher], int(dict[rounds]), b64decode(dict[salt]))",
               found=str([S.show(x)[-40:] for x in ph[0][2]]) if ph else "no Phrase(...)")
    pr = [R.expr(lctx, n) for n in _own_nodes(lctx.func) if isinstance(n, ast.Call) and isinstance(n.func, ast.Name) and n.func.id == "Pair"]
    ok = False
    if pr:
        a = pr[0][2]
        ok = len(a) == 3 and a[1][0] == "call" and a[1][1].endswith("unquote") and S.show(a[1]).endswith("[1])") and a[2][0] == "call" and a[2][1] == "ext:base64.b64decode" \
            and "[2]" in S.show(a[2])
    chk.decide(ok, "K-PROV", "pair-fields", lctx.func, "Pair(locator(members[0]), unquote(members[1]) as MAC name, b64decode(unquote(members[2])) as data)")
    # ---- unlock_with_phrase: update only after both verifications ---------------------------------------------
    vctx = chk.func(REL, "VMX.unlock_with_phrase")
    cfg = vctx.cfg
    upd = [n for n in _own_nodes(vctx.func) if isinstance(n, ast.Call) and isinstance(n.func, ast.Attribute) and n.func.attr in ("update", "__setitem__", "clear", "pop", "setdefault")
           and "attr" in ast.unparse(n.func.value)]
    stores = [n for n in _own_nodes(vctx.func) if isinstance(n, (ast.Assign, ast.AugAssign)) and "self.attr" in ast.unparse(n.targets[0] if isinstance(n, ast.Assign) else n.target)]
    uns = [n for n in _own_nodes(vctx.func) if isinstance(n, ast.Call) and isinstance(n.func, ast.Attribute) and n.func.attr == "unseal_with_phrase"]
    dec = [n for n in _own_nodes(vctx.func) if isinstance(n, ast.Call) and isinstance(n.func, ast.Name) and n.func.id == "_decrypt_hmac"]
    tries = [n for n in _own_nodes(vctx.func) if isinstance(n, ast.Try)]
    ok = len(upd) + len(stores) == 1 and bool(uns) and bool(dec) and not tries
    if ok:
        un = cfg.node_for((upd + stores)[0])
        ok = cfg.dominates(cfg.node_for(uns[0]), un) and cfg.dominates(cfg.node_for(dec[0]), un)
        # the update's payload derives from the verified plaintext
        if upd:
            t = R.expr(vctx, upd[0])
            ok = ok and S.contains(t, lambda x: isinstance(x, tuple) and x and x[0] == "call" and x[1] == f"{REL}::_decrypt_hmac")
    chk.decide(ok, "K-PATH", "update-only-after-verification", (upd + stores)[0] if (upd + stores) else vctx.func,
               "the single mutation of the visible dictionary is dominated by unseal_with_phrase and _decrypt_hmac, with no handler around them")
    if dec:
        t = R.expr(vctx, dec[0])
        a = t[2] if t[0] == "call" else ()
        okk = len(a) == 3 and a[0][0] == "sub" and a[0][2] == S.C(0) and a[2][0] == "sub" and a[2][2] == S.C(1) and "encryption.data" in S.show(a[1])
        chk.decide(okk, "K-PROV", "data-decrypted-with-unsealed-key", dec[0], "_decrypt_hmac(key, b64decode(encryption.data), mac) with (key, mac) from the key safe",
                   found=str([S.show(x)[-60:] for x in a]))
    # ---- KeySafe.unseal_with_phrase ------------------------------------------------------------------------------
    kctx = chk.func(REL, "KeySafe.unseal_with_phrase")
    hs = [n for n in ast.walk(kctx.func) if isinstance(n, ast.ExceptHandler)]
    okh = len(hs) == 1 and hs[0].type is not None and ast.unparse(hs[0].type) == "ValueError"
    last = kctx.func.body[-1]
    chk.decide(okh and isinstance(last, ast.Raise), "K-PATH", "unseal-swallows-valueerror-only", kctx.func,
               "only ValueError (wrong passphrase / MAC) moves on to the next locator; without a match the function raises")
    # a pair that does not open (wrong passphrase: MAC mismatch, bad padding / key data) must raise something this handler
    # catches, otherwise the first non-matching pair ends the search and later pairs are never tried
    BUILTIN_BASES = {"ValueError": ["Exception"], "TypeError": ["Exception"], "KeyError": ["LookupError", "Exception"], "IndexError": ["LookupError", "Exception"],
                     "UnicodeDecodeError": ["UnicodeError", "ValueError", "Exception"], "UnicodeError": ["ValueError", "Exception"], "OSError": ["Exception"],
                     "IOError": ["Exception"], "EOFError": ["Exception"], "NotImplementedError": ["RuntimeError", "Exception"], "RuntimeError": ["Exception"],
                     "LookupError": ["Exception"], "ArithmeticError": ["Exception"], "Exception": []}

    def bases_of(exc_node, ctx_):
        """Names of the class of a raised / caught exception expression and of its ancestors."""
        e = exc_node.func if isinstance(exc_node, ast.Call) else exc_node
        nm = e.id if isinstance(e, ast.Name) else e.attr if isinstance(e, ast.Attribute) else None
        if nm is None:
            return None
        r = chk.prog.resolve_name(nm, ctx_.mi) if isinstance(e, ast.Name) else None
        if r and r[0] == "class":
            out = []
            for c in chk.prog.mro(r[1]):
                out.append(c.name)
                for b in chk.prog.external_bases(c):
                    bn = b.split(".")[-1]
                    out += [bn] + BUILTIN_BASES.get(bn, [])
            return out
        return [nm] + BUILTIN_BASES.get(nm, []) if nm in BUILTIN_BASES else [nm]

    caught = []
    for h in hs:
        if h.type is not None:
            for e in (h.type.elts if isinstance(h.type, ast.Tuple) else [h.type]):
                caught += (bases_of(e, kctx) or [])[:1]
    mac_raises = [o[1] for o in raises if o is cmpt[2]] or [o[1] for o in raises]
    uncaught = []
    for rn in mac_raises:
        if rn.exc is None:
            continue
        chain = bases_of(rn.exc, ctx)
        if chain is None or not (set(chain) & set(caught)):
            uncaught.append((rn, chain))
    chk.decide(not uncaught and bool(caught), "K-PATH", "mac-failure-moves-on-to-the-next-locator", uncaught[0][0] if uncaught else kctx.func,
               f"the MAC failure raised by _decrypt_hmac is a {caught}: unseal_with_phrase tries the next pair" if not uncaught else
               f"_decrypt_hmac raises {uncaught[0][1]} on a MAC mismatch, which the handler in unseal_with_phrase ({caught}) does not catch: "
               "with several pairs only the first one's passphrase works")
    ko = func_outcomes(chk, kctx)
    rets = [o for o in ko if o[0] == "return"]
    okr = bool(rets) and all(o[3][0] == "tuple" and o[3][1][0][0] == "call" and o[3][1][0][1] == "ext:base64.b64decode" and "['key']" in S.show(o[3][1][0])
                             and o[3][1][1][0] == "attr" and o[3][1][1][2] == "mac" for o in rets)
    chk.decide(okr, "K-PROV", "unseal-returns-key-and-mac", kctx.func, "returns (b64decode(crypto_dict['key']), locator.mac)")
    pkey = chk.prog.cls(REL, "Pair").key
    if chk.prog.has_func(REL, "Pair._unlock"):
        # (a transparent helper: after normalisation it only exists as an analysis unit when something still refers to it)
        pctx = chk.func(REL, "Pair._unlock")
        po = func_outcomes(chk, pctx)
        okp = bool(po) and po[0][3] == S.call(f"{REL}::_decrypt_hmac", [("p", pctx.qual, 1), R.self_attr(pkey, "data"), R.self_attr(pkey, "mac")])
        chk.decide(okp, "K-PROV", "pair-unlock-roles", pctx.func, "Pair._unlock = _decrypt_hmac(key, pair data, pair MAC name)")
    # ---- the passphrase reaches the KDF on every unlock: no remembered result, no remembered key safe ---------------
    plq = f"{REL}::Pair.unlock_with_phrase"
    plctx = chk.func(REL, "Pair.unlock_with_phrase")
    kdf = S.subst(want, {("p", uctx.qual, 1): ("p", plq, 1)}) if hasattr(S, "subst") else _subst(want, ("p", uctx.qual, 1), ("p", plq, 1))
    want_pl = S.call(f"{REL}::_decrypt_hmac", [kdf, R.self_attr(pkey, "data"), R.self_attr(pkey, "mac")])
    plo = [o for o in func_outcomes(chk, plctx) if o[0] == "return"]
    # (when Phrase.unwrap has several returns it stays a call: then its own rule above says what it returns)
    via_unwrap = S.call(f"{REL}::_decrypt_hmac", [S.call(f"{REL}::Phrase.unwrap", [R.self_attr(pkey, "wrapped_key"), ("p", plq, 1)]),
                                                   R.self_attr(pkey, "data"), R.self_attr(pkey, "mac")])

    def derives(v):
        if v == want_pl:
            return True
        if unwrap_ok and v[0] == "call" and v[1] == f"{REL}::_decrypt_hmac" and len(v[2]) == 3 and v[2][1:] == via_unwrap[2][1:]:
            u = v[2][0]
            return u[0] == "call" and u[1] == f"{REL}::Phrase.unwrap" and len(u[2]) == 2 and u[2][1] == ("p", plq, 1)
        return False
    chk.decide(bool(plo) and all(derives(o[3]) for o in plo), "K-PROV", "pair-unlock-derives-key-from-passphrase", plctx.func,
               "every return of Pair.unlock_with_phrase is _decrypt_hmac(KDF(this call's passphrase), pair data, pair MAC name): "
               "nothing remembered from an earlier call can be returned",
               expected=S.show(want_pl)[:300], found=str([S.show(o[3])[:300] for o in plo]))
    kkey = chk.prog.cls(REL, "KeySafe").key
    want_un = ("call", ".unlock_with_phrase", (("iter", R.self_attr(kkey, "locators"), None), ("p", kctx.qual, 1)), ())
    found_un = [x for o in rets for x in find(o[3], lambda x: x[0] == "call" and x[1].endswith("unlock_with_phrase"))]
    chk.decide(bool(found_un) and all(x == want_un for x in found_un), "K-PROV", "unseal-passes-the-passphrase-to-each-locator", kctx.func,
               "the key returned by unseal_with_phrase comes from locator.unlock_with_phrase(passphrase) on a locator of this key safe",
               expected=S.show(want_un)[:200], found=str([S.show(x)[:200] for x in found_un]))
    vkey = chk.prog.cls(REL, "VMX").key
    want_vs = ("call", ".unseal_with_phrase", (S.call(f"{REL}::KeySafe.from_text", [("cls", kkey), ("sub", R.self_attr(vkey, "attr"), S.C("encryption.keysafe"))]),
                                               ("p", vctx.qual, 1)), ())
    found_vs = [R.expr(vctx, n, vctx.cfg.node_for(n)) for n in uns]
    chk.decide(bool(found_vs) and all(x == want_vs for x in found_vs), "K-PROV", "vmx-unseals-the-current-keysafe-with-the-passphrase", uns[0] if uns else vctx.func,
               "unlock parses the key safe text currently in the dictionary and unseals it with this call's passphrase",
               expected=S.show(want_vs)[:300], found=str([S.show(x)[:300] for x in found_vs]))
    for qn in ("Pair.unlock_with_phrase", "Pair._unlock", "Pair.unlock", "Pair.has_phrase", "KeySafe.unseal_with_phrase", "Phrase.unwrap"):
        if qn == "Pair._unlock" and not chk.prog.has_func(REL, qn):
            continue
        fctx = chk.func(REL, qn)
        st = self_stores(fctx.func)
        chk.decide(not st, "K-PURE", f"unlock-path-keeps-no-state:{qn}", st[0][0] if st else fctx.func,
                   "no store to the object on the unlock path: an attempt cannot be answered from an earlier one" if not st
                   else f"{st[0][1]}: a later unlock attempt can observe an earlier one")
    vst = [(n, d) for n, d in self_stores(vctx.func) if not (upd and n is upd[0])]
    chk.decide(not vst, "K-PURE", "unlock-path-keeps-no-state:VMX.unlock_with_phrase", vst[0][0] if vst else vctx.func,
               "apart from the final update of the visible dictionary nothing is stored on the VMX object" if not vst
               else f"{vst[0][1]}: state kept between unlock attempts (a later attempt can be answered from a stale key safe)")
    chk.require("K-PURE", 7)
    chk.require("K-PROV", 13)
    chk.require("K-PATH", 3)
    chk.require("K-CONST", 4)


def _subst(t, old, new):
    if t == old:
        return new
    if isinstance(t, tuple):
        return tuple(_subst(x, old, new) for x in t)
    return t


def pkcs7(chk: Check, ctx, dcalls):
    R = chk.R
    decs = find(dcalls[0][2][1], lambda x: x[0] == "call" and x[1] == ".decrypt") if dcalls else []
    if not decs:
        chk.undecided("K-FORMULA", "pkcs7-strip", ctx.func, "no decrypt() result reaches the MAC computation")
        return
    dec = decs[0]
    pad = ("sub", dec, S.C(-1))
    stripped = ("sub", dec, ("slice", S.C(None), ("neg", pad)))
    rep = S.op("mul", S.call("bytes", [("list", (pad,))]), pad)
    site = None
    for st in sorted((x for x in _own_nodes(ctx.func) if isinstance(x, ast.Assign)), key=lambda x: x.lineno):
        if R.expr(ctx, st.value, ctx.cfg.node_of[st]) == stripped:
            site = st
    if site is None:
        chk.violated("K-FORMULA", "pkcs7-strip", ctx.func, "no removal `decrypted[:-decrypted[-1]]` of the padding found")
        return
    st = n = site
    conds = conds_sym(chk, ctx, st)
    tail = ("sub", dec, ("slice", ("neg", pad), S.C(None)))
    ws = [x for cc, _p in conds for x in S.walk(cc) if isinstance(x, tuple) and x and (
        (x[0] == "call" and x[1] == ".endswith" and len(x[2]) == 2 and x[2][0] == dec and x[2][1] == rep) or
        (x[0] == "cmp" and x[1] == "==" and {x[2], x[3]} == {tail, rep}))]
    rel_conds = [(cc, p_) for cc, p_ in conds if S.contains(cc, lambda y: y == pad)]
    c = rel_conds[0][0] if rel_conds else S.unk("unconditional")
    if not ws:
        chk.violated("K-FORMULA", "pkcs7-strip", n,
                     "the padding is removed after looking at its last byte only: the MAC does not cover the padding, so an altered "
                     "ciphertext / IV byte that changes another padding byte is accepted (well-formedness `tail == bytes([n]) * n` not tested)",
                     found=S.show(c)[:200])
        return
    combos = [{"pad": p_, "w": w_} for p_ in (0, 1, 7, 16, 17, 255) for w_ in (True, False)]
    tab = reach_table(rel_conds, {"pad": pad, "w": ws[0]}, combos)
    want = [1 <= cb["pad"] <= 16 and cb["w"] for cb in combos]
    from .C12 import _uncontrolled_leaves

    extra = [x for cc, _p in rel_conds for x in _uncontrolled_leaves(cc, {"pad": pad, "w": ws[0]}) if x != dec and not S.contains(dec, lambda y: y == x)]
    ok = tab == want and not extra
    diff = [f"n={cb['pad']} well-formed={cb['w']}: strips={g}, specified {w}" for cb, g, w in zip(combos, tab, want) if g != w]
    chk.decide(ok, "K-FORMULA", "pkcs7-strip", n,
               "padding is removed iff its last byte n is in 1..16 and the last n bytes all equal n (tested over n in {0,1,7,16,17,255} x well-formed)"
               if ok else ("; ".join(diff[:3]) or f"additional condition on `{S.show(extra[0])[:60]}`"), found=S.show(c)[:200])
