"""C16 - ESXi envelope and keystore: decrypt round-trips and is authenticated (structural clauses)."""
from __future__ import annotations

import ast

from .. import sym as S
from ..calls import Resolver, iter_calls
from ..engine import Check
from ..loader import AnalysisError
from ..program import CType, NotConst
from ..recon import _own_nodes
from ..rulelib import check_layout, conds_sym, func_outcomes, reach_table

LEVEL = "other"
TECHNIQUE = ("static analysis: must-pass-through rules on the decrypt path (key-hash gate, AAD before decrypt, tag verification "
             "before return), window / footer formulas, reader-writer codec comparison of the attribute (de)serialiser, KDF "
             "argument provenance, determinism who-may-call rule, CLI wiring")
EXPLANATION = (
    "Decides structural necessary conditions of authenticated envelope decryption: frozen header / footer layouts; the key-hash "
    "comparison sha256(cipher name || key) against the stored hash raises on mismatch and dominates cipher creation; AES-GCM is "
    "keyed with the caller's key and the stored IV; the re-serialised header and then the optional associated data are fed with "
    "update() before the first decrypt(); verify(tag) dominates the return whenever verification is on, the tests enclosing it mention "
    "only the verify flag (no file- or history-controlled conjunct), `verify` defaults to True and "
    "the CLI does not switch it off; the tag is the AEAD footer's data[:size] read 4096 bytes before the end; the ciphertext window is "
    "[4096, size - 4096); the crypto footer is parsed from the last 512 decrypted bytes and 4096 + padding bytes are stripped; the "
    "attribute reader and writer produce / consume the same typed sequence (type u8, flag u8, 2 pad bytes, C string name, then C "
    "string | u64 length + raw | scalar of the table's type; 4-byte terminator) and the type table maps every enum member to the "
    "cstruct type of its width and signedness; the keystore key is PBKDF2-SHA256(data1 || constant, data2, 100000) and the id "
    "UUID(bytes=b64(keyId)); nothing in the module draws randomness or time; the CLI writes exactly decrypt(keystore.key). "
    "Does NOT decide GCM itself nor byte identity of the re-serialised header for every attribute set."
)
ASSUMPTIONS = ["pycryptodome AES-GCM semantics (update = AAD, verify raises on a wrong tag)", "no public specification: layouts are the frozen reference of the pinned tree"]

REL, CLI = "util/envelope.py", "tools/envelope.py"


def find(t, pred):
    return [x for x in S.walk(t) if isinstance(x, tuple) and x and pred(x)]


def run(chk: Check):
    R = chk.R
    for name in ("EnvelopeFileHeader", "DataTransformAeadFooter", "DataTransformCryptoFooter"):
        check_layout(chk, REL, name)
    ek = chk.prog.cls(REL, "Envelope").key
    init = chk.func(REL, "Envelope.__init__")
    FH = ("p", init.qual, 1)
    # ---- constructor formulas -------------------------------------------------------------------------------
    size = R.self_attr(ek, "size")
    chk.decide(size == S.op("sub", S.call(".tell", [FH]), S.C(8192)), "K-FORMULA", "payload-size", init.func,
               "payload size = file size - 2 * 4096", found=S.show(size)[:120])
    data = R.self_attr(ek, "data")
    ok = data[0] == "call" and data[1].endswith("RangeStream") and data[2][0] == FH and data[2][1] == S.C(4096) and data[2][2] == size
    chk.decide(ok, "K-FORMULA", "ciphertext-window", init.func, "ciphertext = RangeStream(fh, 4096, size)", found=S.show(data)[:160])
    # file size is measured at the end
    seeks = [n for n in _own_nodes(init.func) if isinstance(n, ast.Call) and isinstance(n.func, ast.Attribute) and n.func.attr == "seek"]
    sk = sorted([(R.expr(init, s.args[0]), R.expr(init, s.args[1]) if len(s.args) > 1 else S.C(0)) for s in seeks], key=repr)
    chk.decide((S.C(-4096), S.C(2)) in sk and (S.C(0), S.C(2)) in sk, "K-FORMULA", "footer-and-size-seeks", init.func,
               "AEAD footer read at -4096 from the end; size measured by seeking to the end", found=str([(S.show(a), S.show(b)) for a, b in sk]))
    dig = R.self_attr(ek, "digest")
    alts = [a for a in S.alternatives(dig) if a != S.C(None)]
    okd = len(alts) == 1 and alts[0][0] == "sub" and alts[0][1][0] == "f" and alts[0][1][1:3] == ("DataTransformAeadFooter", 32) \
        and alts[0][2][0] == "slice" and alts[0][2][1] == S.C(None) and alts[0][2][2][0] == "f" and alts[0][2][2][1:3] == ("DataTransformAeadFooter", 4088)
    chk.decide(okd, "K-PROV", "tag<-aead-footer", init.func, "authentication tag = footer.data[:footer.size]", found=S.show(dig)[:200])
    verify = R.self_attr(ek, "verify")
    chk.decide(verify == ("p", init.qual, 2), "K-PROV", "verify-flag", init.func, "self.verify is the constructor argument")
    dflt = init.func.args.defaults[-1] if init.func.args.defaults else None
    chk.decide(isinstance(dflt, ast.Constant) and dflt.value is True, "K-PATH", "verify-defaults-on", init.func, "`verify` defaults to True")
    # ---- decrypt --------------------------------------------------------------------------------------------------
    ctx = chk.func(REL, "Envelope.decrypt")
    KEY, AAD = ("p", ctx.qual, 1), ("p", ctx.qual, 2)
    cfg = ctx.cfg
    outs = func_outcomes(chk, ctx)
    # the encrypted region is a stream kept on the object: every decrypt() has to rewind it before reading, or a second call
    # (a retry with the right AAD, say) decrypts nothing
    from ..rulelib import _typestate
    data_t = R.self_attr(ek, "data")
    _typestate(chk, ctx, "decrypt", handle_pred=lambda h: h == data_t or S.contains(h, lambda x: x == data_t))
    cn = R.self_attr(ek, "cipher_name")
    kh = R.self_attr(ek, "key_hash")
    want_hash = S.call(".digest", [S.call("ext:hashlib.sha256", [S.op("add", S.call(".encode", [cn]), KEY)])])
    gate = None
    for o in outs:
        if o[0] == "raise":
            for c, p in o[2]:
                if c[0] == "cmp" and c[1] == "!=" and p and {c[2], c[3]} == {want_hash, kh}:
                    gate = o
    chk.decide(gate is not None, "K-PATH", "key-hash-gate", gate[1] if gate else ctx.func,
               "sha256(cipher name || key) != stored key hash raises" if gate else "the key is not checked against the stored key hash before use",
               expected=f"{S.show(want_hash)[:120]} != key_hash -> raise")
    news = [n for n in _own_nodes(ctx.func) if isinstance(n, ast.Call) and R.expr(ctx, n)[0] == "call" and R.expr(ctx, n)[1] in ("ext:Crypto.Cipher.AES.new", "ext:_pystandalone.aes_256_gcm")]
    if gate is not None and news:
        gnode = cfg.node_of[_top_if(gate[1], ctx.func)]
        chk.decide(all(cfg.dominates(gnode, cfg.node_for(n)) for n in news), "K-PATH", "key-hash-gate-dominates-cipher", news[0],
                   "the key-hash gate dominates every cipher construction")
    aes = [R.expr(ctx, n) for n in news if R.expr(ctx, n)[1] == "ext:Crypto.Cipher.AES.new"]
    iv = R.self_attr(ek, "iv")
    okc = bool(aes) and aes[0][2][0] == KEY and "MODE_GCM" in S.show(aes[0][2][1]) and dict(aes[0][3]).get("nonce") == iv
    chk.decide(okc, "K-PROV", "aes-gcm-key-nonce", news[0] if news else ctx.func, "AES.new(key, MODE_GCM, nonce=stored IV)", found=S.show(aes[0])[:200] if aes else "none")
    # update(header), update(aad) before first decrypt
    ups = [n for n in _own_nodes(ctx.func) if isinstance(n, ast.Call) and isinstance(n.func, ast.Attribute) and n.func.attr == "update"
           and any(a_[0] == "call" and a_[1] in ("ext:Crypto.Cipher.AES.new", "ext:_pystandalone.aes_256_gcm") for a_ in S.alternatives(R.expr(ctx, n.func.value)))]
    def _is_cipher(node):
        t_ = R.expr(ctx, node)
        return any(a_[0] == "call" and a_[1] in ("ext:Crypto.Cipher.AES.new", "ext:_pystandalone.aes_256_gcm") for a_ in S.alternatives(t_))

    decs = [n for n in _own_nodes(ctx.func) if isinstance(n, ast.Call) and isinstance(n.func, ast.Attribute) and n.func.attr == "decrypt" and _is_cipher(n.func.value)]
    ups.sort(key=lambda n: n.lineno)
    okh = False
    if ups and decs:
        a0 = R.expr(ctx, ups[0].args[0])
        okh = a0 == S.call(f"{REL}::_pack_envelope_header", [("self", ek)]) and (
            cfg.dominates(cfg.node_for(ups[0]), cfg.node_for(decs[0])) or _flag_guard_ok(ctx, ups[0], news)) and \
            cfg.node_for(ups[0]).id < cfg.node_for(decs[0]).id
    chk.decide(okh, "K-PATH", "header-is-associated-data", ups[0] if ups else ctx.func, "the re-serialised header is fed as associated data before the first decrypt()")
    oka = False
    if len(ups) >= 2 and decs:
        a1 = R.expr(ctx, ups[1].args[0])
        conds = conds_sym(chk, ctx, ups[1])
        tab = reach_table(conds, {"aad": AAD}, [{"aad": None}, {"aad": b""}, {"aad": b"x"}])
        # reachable exactly when aad is truthy, and before decrypt on the CFG
        before = all(cfg.node_for(ups[1]).id < cfg.node_for(d).id for d in decs) and ups[1].lineno > ups[0].lineno
        oka = a1 == AAD and tab == [False, False, True] and before
    chk.decide(oka, "K-PATH", "caller-aad-fed", ups[1] if len(ups) > 1 else ctx.func, "the caller's associated data is fed (after the header, before decrypt) when given")
    # verification before return
    rets = [o for o in outs if o[0] == "return"]
    ver = [n for n in _own_nodes(ctx.func) if isinstance(n, ast.Call) and isinstance(n.func, ast.Attribute) and n.func.attr == "verify"]
    okv = False
    if ver and rets:
        a = R.expr(ctx, ver[0].args[0]) if ver[0].args else None
        conds = conds_sym(chk, ctx, ver[0])
        tab = reach_table(conds, {"v": verify}, [{"v": True}, {"v": False}])
        vnode = cfg.node_for(ver[0])
        # all paths to the return with verify truthy pass the verify call: the `if self.verify` test dominates the return
        iftop = _top_if(ver[0], ctx.func)
        from .C12 import _uncontrolled_leaves

        own = [(c, p) for c, p, kind in conds_sym(chk, ctx, ver[0], with_kind=True) if kind == "if"]
        extra_leaves = [x for c, p in own for x in _uncontrolled_leaves(c, {"v": verify})]
        if extra_leaves:
            chk.violated("K-PATH", "tag-verification-depends-only-on-the-flag", ver[0],
                         f"cipher.verify is additionally guarded by `{S.show(extra_leaves[0])[:80]}`, a value the file or the caller's "
                         "earlier actions control: an envelope that makes it falsy is decrypted without authentication")
        else:
            chk.holds("K-PATH", "tag-verification-depends-only-on-the-flag", ver[0], "the tests enclosing cipher.verify mention only the verify flag")
        okv = a == dig and tab == [True, False] and all(cfg.dominates(cfg.node_of[iftop], cfg.node_for(r[1])) for r in rets) and \
            not any(isinstance(x, ast.Try) for x in ast.walk(ctx.func))
    chk.decide(okv, "K-PATH", "tag-verified-before-return", ver[0] if ver else ctx.func,
               "cipher.verify(stored tag) runs before the plaintext is returned whenever verification is on; no handler can swallow its failure"
               if okv else "the plaintext can be returned without cipher.verify(self.digest)")
    # footer / strip formulas
    if rets:
        rv = rets[0][3]
        sl = find(rv, lambda x: x[0] == "sub" and x[2][0] == "slice")
        pad = find(rv, lambda x: x[0] == "f" and x[1:3] == ("DataTransformCryptoFooter", 504))
        okf = bool(pad) and any(s_[2][1] == S.C(None) and S.equiv(s_[2][2], S.op("sub", S.C(-4096), pad[0]), n=20).equal is True for s_ in sl)
        chk.decide(okf, "K-FORMULA", "strip-footer-and-padding", rets[0][1], "plaintext = decrypted[: -4096 - footer.padding]", found=S.show(rv)[:200])
        src = find(rv, lambda x: x[0] == "inst" and x[1] == "DataTransformCryptoFooter")
        okl = bool(src) and bool(find(src[0], lambda x: x[0] == "slice" and x[1] == S.C(-512) and x[2] == S.C(None)))
        chk.decide(okl, "K-FORMULA", "crypto-footer-location", rets[0][1], "the crypto footer is parsed from the last 512 decrypted bytes")
    # ---- header re-serialisation -------------------------------------------------------------------------------------
    pctx = chk.func(REL, "_pack_envelope_header")
    writes = [n for n in _own_nodes(pctx.func) if isinstance(n, ast.Call) and isinstance(n.func, ast.Attribute) and n.func.attr == "write"]
    writes.sort(key=lambda n: n.lineno)
    t0 = R.expr(pctx, writes[0].args[0]) if writes else S.unk("none")
    chk.decide(S.is_const(t0) and t0[1] == b"\x00" * 512 or S.equiv(t0, S.C(b"\x00" * 512), n=8).equal is True, "K-FORMULA", "header-placeholder", writes[0] if writes else pctx.func, "512 bytes are reserved for the file header")
    padw = [w for w in writes if isinstance(w.args[0], ast.BinOp) and w is not writes[0]]
    okp = False
    if padw:
        t = R.expr(pctx, padw[0].args[0])
        conds = conds_sym(chk, pctx, padw[0])
        okp = "% arg1" in S.show(t) or S.contains(t, lambda x: isinstance(x, tuple) and x and x[0] == "op" and x[1] == "mod")
    chk.decide(okp, "K-FORMULA", "header-padded-to-block", padw[0] if padw else pctx.func, "the serialised header is zero-padded to a multiple of the block size")
    bs_default = pctx.func.args.defaults[-1] if pctx.func.args.defaults else None
    try:
        bsv = chk.prog.fold(bs_default, pctx.mi) if bs_default is not None else None
    except NotConst:
        bsv = None
    chk.decide(bsv == 4096, "K-CONST", "header-block-size", pctx.func, "block size 4096", found=str(bsv))
    cons = [n for n in _own_nodes(pctx.func) if isinstance(n, ast.Call) and n.keywords and R.expr(pctx, n.func, pctx.cfg.node_for(n))[0] == "c"
            and getattr(R.expr(pctx, n.func, pctx.cfg.node_for(n))[1], "name", "") == "EnvelopeFileHeader"]
    okk = False
    if cons:
        kws = {k.arg: R.expr(pctx, k.value, pctx.cfg.node_for(cons[0])) for k in cons[0].keywords}
        tells = [x for x in S.walk(kws.get("size", S.C(None))) if isinstance(x, tuple) and x and x[0] == "call" and x[1] == ".tell"]
        okk = set(kws) == {"magic", "size", "version"} and kws["magic"] == S.C(b"DataTransformEnvelope") \
            and bool(tells) and S.equiv(kws["size"], S.op("sub", tells[0], S.C(512)), n=30).equal is True \
            and ((kws["version"][0] == "attr" and kws["version"][2] == "version") or (kws["version"][0] == "f" and kws["version"][1:3] == ("EnvelopeFileHeader", 508)))
    chk.decide(okk, "K-FORMULA", "header-fields-rebuilt", cons[0] if cons else pctx.func, "magic, size = total - sizeof(header), version from the parsed envelope")
    codec(chk)
    keystore(chk)
    cli(chk)
    chk.require("K-PATH", 6)
    chk.require("K-CODEC", 3)
    chk.require("K-PROV", 5)


def _flag_guard_ok(ctx, call, cipher_news):
    """`if <flag>: cipher.update(...)` where <flag> is set truthy exactly in the branch that builds the cipher and every other
    branch of that dispatch raises: the update cannot be skipped on a path that decrypts."""
    from ..loader import parent

    st = call
    while not isinstance(st, ast.stmt):
        st = parent(st)
    guard = parent(st)
    if not (isinstance(guard, ast.If) and isinstance(guard.test, ast.Name) and st in guard.body):
        return False
    flag = guard.test.id
    sets = [n for n in ast.walk(ctx.func) if isinstance(n, ast.Assign) and len(n.targets) == 1 and isinstance(n.targets[0], ast.Name)
            and n.targets[0].id == flag and isinstance(n.value, ast.Constant) and n.value.value is True]
    if len(sets) != 1 or not cipher_news:
        return False
    branch_if = parent(sets[0])
    if not (isinstance(branch_if, ast.If) and sets[0] in branch_if.body):
        return False
    same_branch = all(any(c is x for s_ in branch_if.body for x in ast.walk(s_)) for c in cipher_news)
    else_raises = bool(branch_if.orelse) and all(isinstance(s_, ast.Raise) or any(isinstance(x, ast.Raise) for x in ast.walk(s_)) for s_ in branch_if.orelse[-1:])
    return same_branch and else_raises


def _top_if(node, func):
    from ..loader import parent

    cur = node
    while parent(cur) is not None and parent(cur) is not func:
        cur = parent(cur)
    return cur


# ------------------------------------------------------------------------------------------------------------------

def _ops_of_reader(chk: Check, ctx):
    """Typed read sequence of _read_envelope_attributes: list of (op, detail) in source order + value branches."""
    R = chk.R
    seq = []
    branches = {}
    BUF = ("p", ctx.qual, 0)
    # evaluation order: an argument's call completes before the call that consumes it
    for n in sorted((x for x in ast.walk(ctx.func) if isinstance(x, ast.Call)), key=lambda x: (x.end_lineno, x.end_col_offset)):
        t = R.expr(ctx, n)
        item = None
        if t[0] == "read" and t[3] == BUF:
            tn = t[1] if isinstance(t[1], str) else S.show(t[1])
            cnt = t[2]
            item = ("cstr",) if (tn == "char" and cnt == S.C(None)) else ("type", tn)
        elif t[0] == "call" and t[1] == ".read" and t[2] and t[2][0] == BUF:
            ln = t[2][1] if len(t[2]) > 1 else None
            item = ("raw", ln[1] if ln is not None and S.is_const(ln) else "len")
        elif t[0] == "call" and isinstance(n.func, ast.Subscript) and n.args and R.expr(ctx, n.args[0]) == BUF:
            item = ("table",)
        if item is None:
            continue
        conds = conds_sym(chk, ctx, n)
        key = None
        for c, p in conds:
            if c[0] == "cmp" and c[1] == "==" and S.is_const(c[3]) and isinstance(c[3][1], S.EnumConst):
                if c[3][1].member == "Invalid":
                    continue  # the terminator test: everything after it is on its False side
                key = (c[3][1].member, p) if p else key
                if not p and key is None:
                    key = ("else", True)
        if key is None:
            seq.append(item)
        else:
            branches.setdefault(key[0], []).append(item)
    return seq, branches


def _ops_of_writer(chk: Check, ctx):
    R = chk.R
    seq = []
    branches = {}
    tail = []
    STREAM = ("p", ctx.qual, 0)
    loops = [l for l in ctx.loops if isinstance(l, ast.For)]
    for n in sorted((x for x in ast.walk(ctx.func) if isinstance(x, ast.Call) and isinstance(x.func, ast.Attribute) and x.func.attr == "write"),
                    key=lambda x: (x.lineno, x.col_offset)):
        recv = R.expr(ctx, n.func.value)
        item = None
        if recv == STREAM:
            a = R.expr(ctx, n.args[0])
            item = ("raw", len(a[1]) if S.is_const(a) and isinstance(a[1], bytes) else "len")
        elif recv[0] == "c" and isinstance(recv[1], CType):
            item = ("type", recv[1].name)
            if recv[1].name == "uint16":
                item = ("raw", 2)
            # an integer type writing the constant 0 is that many zero bytes, whatever the byte order
            val_t = R.expr(ctx, n.args[1], ctx.cfg.node_for(n)) if len(n.args) > 1 else None
            if val_t == S.C(0) and recv[1].sizeof() and recv[1].name.startswith(("uint", "int")):
                item = ("raw", recv[1].sizeof())
        elif recv[0] == "arrtype":
            item = ("cstr",) if recv[1].name == "char" and recv[2] == S.C(None) else ("type", recv[1].name + "[]")
        elif recv[0] == "sub":
            item = ("table",)
        if item is None:
            continue
        if item[0] == "raw" and isinstance(item[1], int) and not (loops and n in list(ast.walk(loops[0]))) and tail and tail[-1][0] == "raw" and isinstance(tail[-1][1], int):
            tail[-1] = ("raw", tail[-1][1] + item[1])  # consecutive zero runs behind the loop are one terminator
            continue
        in_loop = loops and n in list(ast.walk(loops[0]))
        conds = conds_sym(chk, ctx, n)
        key = None
        for c, p in conds:
            if c[0] == "cmp" and c[1] == "==" and S.is_const(c[3]) and isinstance(c[3][1], S.EnumConst):
                if p:
                    key = c[3][1].member
                elif key is None:
                    key = "else"
        if not in_loop:
            tail.append(item)
        elif key is None:
            seq.append(item)
        else:
            branches.setdefault(key, []).append(item)
    return seq, branches, tail


def codec(chk: Check):
    R = chk.R
    rctx = chk.func(REL, "_read_envelope_attributes")
    wctx = chk.func(REL, "_pack_attributes")
    rseq, rbr = _ops_of_reader(chk, rctx)
    wseq, wbr, tail = _ops_of_writer(chk, wctx)
    want_seq = [("type", "AttributeType"), ("type", "uint8"), ("raw", 2), ("cstr",)]
    chk.decide(rseq == want_seq and wseq == want_seq, "K-CODEC", "attribute-prefix", rctx.func if rseq != want_seq else wctx.func,
               "reader and writer agree on: type (u8 enum), flag (u8), two pad bytes, NUL-terminated name", expected=str(want_seq), found=f"read {rseq} / write {wseq}")
    want_br = {"String": [("cstr",)], "Bytes": [("type", "uint64"), ("raw", "len")], "else": [("table",)]}
    chk.decide(rbr == want_br and wbr == want_br, "K-CODEC", "attribute-value-branches", rctx.func if rbr != want_br else wctx.func,
               "String -> C string; Bytes -> u64 length + raw bytes; every other type -> the table's scalar type, for reader and writer alike",
               expected=str(want_br), found=f"read {rbr} / write {wbr}")
    chk.decide(tail == [("raw", 4)], "K-CODEC", "attribute-terminator", wctx.func, "the attribute list is terminated by 4 zero bytes (type Invalid + flag + pad)", found=str(tail))
    # Bytes length written is len(value)
    # type table
    try:
        tab = chk.prog.fold(ast.Name(id="ENVELOPE_ATTRIBUTE_TYPE_MAP"), chk.prog.info(REL))
    except NotConst:
        tab = None
    want = {"Invalid": None, "UInt8": "uint8", "UInt16": "uint16", "UInt32": "uint32", "UInt64": "uint64", "Int8": "int8", "Int16": "int16",
            "Int32": "int32", "Int64": "int64", "Float": "float", "Double": "double", "String": None, "Bytes": None}
    got = {}
    if tab is not None:
        for k, v in tab.items():
            got[k.member if isinstance(k, S.EnumConst) else str(k)] = v.name if isinstance(v, CType) else v
    chk.decide(got == want, "K-CODEC", "attribute-type-table", (REL, "<const ENVELOPE_ATTRIBUTE_TYPE_MAP>", 1),
               "every attribute type maps to the cstruct scalar of its width and signedness", expected=str(want), found=str(got))
    lay = list(chk.prog.info(REL).layouts.values())[0]
    en = lay.enums.get("AttributeType")
    wantv = {"Invalid": 0, "UInt8": 1, "UInt16": 2, "UInt32": 3, "UInt64": 4, "Int8": 5, "Int16": 6, "Int32": 7, "Int64": 8, "Float": 9, "Double": 10, "String": 11, "Bytes": 12}
    chk.decide(en is not None and en.members == wantv and en.size == 1, "K-CODEC", "attribute-type-values", (REL, "<enum AttributeType>", 1), "type codes 0..12 in one byte (frozen reference)",
               found=str(en.members if en else None), nontrivial=False)
    # the reader stops on Invalid / EOF and stores (type, flag, value) under the name
    okstore = False
    for n in ast.walk(rctx.func):
        if isinstance(n, ast.Assign) and isinstance(n.targets[0], ast.Subscript):
            t = R.expr(rctx, n.value, rctx.cfg.node_of[n])
            # (EnvelopeAttribute is a NamedTuple: its instances are represented as the tuple of their fields)
            okstore = (t[0] == "call" and t[1].endswith("EnvelopeAttribute") and len(t[2]) == 3) or \
                (t[0] == "tuple" and len(t[1]) == 3 and str(R._namedtuple_of(t) or "").endswith("EnvelopeAttribute"))
    chk.decide(okstore, "K-CODEC", "attribute-record", rctx.func, "attributes[name] = EnvelopeAttribute(type, flag, value)")


def keystore(chk: Check):
    R = chk.R
    kk = chk.prog.cls(REL, "KeyStore").key
    ctx = chk.func(REL, "KeyStore.__init__")
    key = [a for a in S.alternatives(R.self_attr(kk, "_key")) if a != S.C(None)]
    ok = False
    if len(key) == 1 and key[0][0] == "call" and key[0][1] == "ext:hashlib.pbkdf2_hmac":
        a = key[0][2]
        salt = b"This is obfuscation, not encryption. If you want encryption, use TPM."
        ok = len(a) == 4 and a[0] == S.C("sha256") and a[3] == S.C(100000) and a[1][0] == "op" and a[1][1] == "add" and S.C(salt) in (a[1][2], a[1][3]) \
            and "['data1']" in S.show(a[1]) and "b64decode" in S.show(a[1]) and "['data2']" in S.show(a[2]) and "b64decode" in S.show(a[2])
    chk.decide(ok, "K-PROV", "keystore-kdf", ctx.func, "key = PBKDF2-HMAC-SHA256(password = b64(data1) || constant, salt = b64(data2), 100000 rounds)",
               found=S.show(key[0])[:300] if key else "none")
    idt = [a for a in S.alternatives(R.self_attr(kk, "_id")) if a != S.C(None)]
    oki = len(idt) == 1 and "ext:uuid.UUID" in S.show(idt[0]) and "bytes=ext:base64.b64decode" in S.show(idt[0]) and "['keyId']" in S.show(idt[0])
    chk.decide(oki, "K-PROV", "keystore-id", ctx.func, "id = str(UUID(bytes = b64decode(keyId)))", found=S.show(idt[0])[:200] if idt else "none")
    for prop, attr in (("key", "_key"), ("id", "_id")):
        t = R.self_attr(kk, prop)
        chk.decide(t == R.self_attr(kk, attr), "K-PROV", f"keystore-{prop}-property", chk.func(REL, f"KeyStore.{prop}").func, f"KeyStore.{prop} exposes the derived value")
    # determinism: nothing in the module reads randomness / time
    res = Resolver(chk.prog)
    bad = []
    mi = chk.prog.info(REL)
    for mi_, call in iter_calls(chk.prog):
        if mi_ is not mi:
            continue
        kind, name = res.resolve(mi, call.func)
        if kind == "external" and name.split(".")[0] in ("random", "secrets", "time", "datetime") or name in ("os.urandom", "uuid.uuid4", "uuid.uuid1", "os.getrandom"):
            bad.append((call, name))
    for imp in ast.walk(mi.mod.tree):
        if isinstance(imp, (ast.Import, ast.ImportFrom)):
            mods = [a.name for a in imp.names] if isinstance(imp, ast.Import) else [imp.module or ""]
            for m in mods:
                if m.split(".")[0] in ("random", "secrets"):
                    bad.append((imp, m))
    chk.decide(not bad, "K-WHO", "deterministic-derivation", bad[0][0] if bad else (REL, "<module>", 1),
               "no randomness or clock is used anywhere in the module" if not bad else f"{bad[0][1]} makes key derivation / decryption non-deterministic")


def cli(chk: Check):
    R = chk.R
    ctx = chk.func(CLI, "main")
    env = [n for n in _own_nodes(ctx.func) if isinstance(n, ast.Call) and isinstance(n.func, ast.Name) and n.func.id == "Envelope"]
    ok = bool(env) and len(env[0].args) == 1 and not env[0].keywords
    if ok:
        t = R.expr(ctx, env[0].args[0])
        ok = t[0] == "call" and t[1] == ".open" and t[2][1:] == (S.C("rb"),)
    chk.decide(ok, "K-PATH", "cli-envelope-verified", env[0] if env else ctx.func, "Envelope(<file opened 'rb'>) with verification left on")
    ks = [n for n in _own_nodes(ctx.func) if isinstance(n, ast.Call) and ast.unparse(n.func) == "KeyStore.from_text"]
    okk = bool(ks) and "read_text" in ast.unparse(ks[0].args[0])
    chk.decide(okk, "K-PATH", "cli-keystore-text", ks[0] if ks else ctx.func, "the keystore is read as text")
    wr = [n for n in _own_nodes(ctx.func) if isinstance(n, ast.Call) and isinstance(n.func, ast.Attribute) and n.func.attr == "write"]
    okw = False
    if len(wr) == 1:
        t = R.expr(ctx, wr[0].args[0])
        ek = chk.prog.cls(REL, "Envelope").key
        # the key argument: the keystore's `key` - as an attribute read, or (the keystore comes from a factory of known class) as the
        # value of that property
        ksk = chk.prog.cls(REL, "KeyStore").key
        arg = t[2][1] if t[0] == "call" and len(t[2]) == 2 else None
        is_key = arg is not None and ((arg[0] == "attr" and arg[2] == "key") or arg == R.self_attr(ksk, "key"))
        okw = t[0] == "call" and t[1] == f"{ek}.decrypt" and is_key
    chk.decide(okw, "K-PATH", "cli-writes-exactly-the-plaintext", wr[0] if wr else ctx.func, "the output file receives exactly envelope.decrypt(keystore.key)")
