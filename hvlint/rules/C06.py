"""C06 - Parallels HDD/HDS: every byte range reads as the guest-visible content (structural clauses)."""
from __future__ import annotations

import ast

from .. import sym as S
from ..engine import Check
from ..loader import AnalysisError
from ..rulelib import (simulate_generator, _typestate, appends_in, calls_named, carried_with_entry, check_const, check_layout,
                       classify_effect, conds_sym, eval_conds, fld, inst_attr, loop_carried, loops_of, reach_table,
                       self_stores, spec_expr)

LEVEL = "other"
TECHNIQUE = ("static analysis: layout comparison, def-use reconstruction of the cluster split loop, abstract evaluation "
             "of the run-merge predicate over the kinds {sparse, allocated}, producer/consumer tuple roles")
EXPLANATION = (
    "Decides necessary structural conditions of byte-exact Parallels HDS reads: pvd_header layout (positional), both "
    "signatures and the v1/v2 decision (size field width, BAT unit: sectors for v1 => multiplier 1, clusters for v2 => "
    "multiplier tracks), cluster size tracks*512, BAT located right after the 64-byte header with m_Size 32-bit entries, "
    "data address bat[i]*multiplier*512 + offset%cluster, per-cluster split step min(cluster - offset%cluster, length) on "
    "both counters, the run-merge predicate evaluated over all kind combinations (a sparse run never merges with an "
    "allocated cluster whatever its file offset; allocated clusters merge only when physically adjacent), the "
    "(offset|None, size) tuple roles between _iter_runs and _read, parent read at the running guest offset, "
    "seek-before-read. Does NOT decide byte equality with guest content."
)
ASSUMPTIONS = ["terms are compared by normal form and randomised identity testing over integer valuations of their atoms"]

REL, CREL = "disk/hdd.py", "disk/c_hdd.py"
V1, V2 = b"WithoutFreeSpace", b"WithouFreSpacExt"


def run(chk: Check):
    R = chk.R
    check_layout(chk, CREL, "pvd_header")
    check_const(chk, CREL, "SIGNATURE_STRUCTURED_DISK_V1", V1, "version 1 signature (BAT in sectors)")
    check_const(chk, CREL, "SIGNATURE_STRUCTURED_DISK_V2", V2, "version 2 signature (BAT in clusters)")
    check_const(chk, CREL, "SIGNATURE_DISK_IN_USE", 0x746F6E59)
    check_const(chk, CREL, "SECTOR_SIZE", 512)
    hk = chk.prog.cls(REL, "HDS").key
    hdr = inst_attr(chk, REL, "HDS", "pvd_header")
    F = lambda n: fld(chk, hdr, CREL, "pvd_header", n)  # noqa: E731
    init = chk.func(REL, "HDS.__init__")
    sig = F("signature")
    env = {"tracks": F("tracks"), "v1": F("nb_sectors_v1"), "v2": F("nb_sectors_v2"), "sig": sig,
           "V1": S.C(V1), "V2": S.C(V2), "bat_entries": F("bat_entries")}

    def dom(leaf, rng):
        if leaf == sig:
            return rng.choice([V1, V2])
        if leaf == env["tracks"]:
            return rng.choice([1, 8, 256, 2048, 2048, 63])
        return None

    mult = R.self_attr(hk, "_bat_multiplier")
    chk.formula("K-DISPATCH", "bat-unit-by-version", init.func, mult, spec_expr("1 if sig == V1 else tracks", env), domain=dom)
    cs = R.self_attr(hk, "cluster_size")
    chk.formula("K-FORMULA", "cluster-size", init.func, cs, spec_expr("tracks * 512", env), domain=dom)
    sup = [n for n in ast.walk(init.func) if isinstance(n, ast.Call) and ast.unparse(n.func) == "super().__init__"]
    if sup and sup[0].args:
        chk.formula("K-DISPATCH", "size-by-version", sup[0], R.expr(init, sup[0].args[0]),
                    spec_expr("(v1 if sig == V1 else v2) * 512", env), domain=dom)
    else:
        chk.undecided("K-DISPATCH", "size-by-version", init.func, "no super().__init__(size) call")
    bat = R.self_attr(hk, "bat")
    ok = bat[0] == "read" and bat[1] in ("uint32", "uint32_t") and bat[2] == env["bat_entries"]
    chk.decide(ok, "K-FORMULA", "bat-shape", chk.func(REL, "HDS.bat").func,
               "the BAT is m_Size unsigned 32-bit entries", found=S.show(bat)[:200])
    bctx = chk.func(REL, "HDS.bat")
    for s in calls_named(bctx, "seek"):
        chk.formula("K-FORMULA", "bat-address", s, R.expr(bctx, s.args[0]), S.C(64))
    _typestate(chk, bctx, "bat")
    decos = chk.prog.cls(REL, "HDS").decorators("bat")
    chk.decide("cached_property" in decos, "K-PURE", "bat-memoised", bctx.func, "the BAT is loaded once (cached_property)", nontrivial=False)

    # ---- _iter_runs ---------------------------------------------------------------------------
    ctx = chk.func(REL, "HDS._iter_runs")
    loops = loops_of(ctx) or list(ctx.loops)
    if not loops:
        raise AnalysisError("ANCHOR-VANISHED HDS._iter_runs has no loop")
    loop = loops[0]
    sim = _runs_by_evaluation(chk, ctx, loop, env, bat)
    _iter_runs_structure(chk, ctx, loop, env, bat, dom, sim)
    _read_structure(chk, hk)


def _canonical(runs, start):
    """(file offset | None, size) runs from guest offset `start` -> maximal segments (guest offset, size, file offset | None)."""
    segs = []
    pos = start
    if not all((off is None or (isinstance(off, int) and not isinstance(off, bool))) and isinstance(size, int) and not isinstance(size, bool)
               for off, size in runs):
        return ("not (file offset | None, size) runs", tuple(runs))
    for off, size in runs:
        if segs and ((segs[-1][2] is None and off is None) or (segs[-1][2] is not None and off is not None and segs[-1][2] + segs[-1][1] == off)):
            segs[-1] = (segs[-1][0], segs[-1][1] + size, segs[-1][2])
        else:
            segs.append((pos, size, off))
        pos += size
    return segs


def _runs_by_evaluation(chk: Check, ctx, loop, env, bat):
    """_iter_runs decided on model images: the BAT is a concrete tuple, the loop's transition terms are evaluated round by round
    and the yielded (file offset | None, size) runs are compared - as a map guest range -> file range | sparse, so independent of
    how clusters are coalesced - with bat[i] * unit * 512 + offset % cluster for allocated and `sparse` for zero entries."""
    rule = ("K-KIND", "runs-by-evaluation")
    P1, P2 = ("p", ctx.qual, 1), ("p", ctx.qual, 2)
    models = []
    for sigv, tracks in ((V2, 8), (V1, 8), (V2, 2048), (V1, 63)):
        cs = tracks * 512
        unit = 1 if sigv == V1 else tracks
        first = 2048 // unit if sigv == V2 else 2048  # first data cluster, in BAT units
        step = 1 if sigv == V2 else tracks
        a = first
        bats = [
            (a, a + step, a + 2 * step, a + 3 * step),            # contiguous
            (0, 0, 0, 0),                                          # all sparse
            (a, 0, a + step, 0),                                   # alternating
            (0, a, 0, a + step),
            (a + 2 * step, a + step, a, a + 5 * step),             # out of order
            (a, a + step, 0, 0),
            (0, 0, a, a + step),
            (a, a + 2 * step, a + 3 * step, 0),
        ]
        for b in bats:
            for off, ln in ((0, 4 * cs), (0, cs), (512, cs), (cs - 512, 1024), (cs + 512, 2 * cs), (512, 3 * cs + 1024), (2 * cs, 2 * cs), (3 * cs + 512, 512)):
                models.append((sigv, tracks, b, off, ln))
    bad = []
    n = 0
    for sigv, tracks, b, off, ln in models:
        cs = tracks * 512
        unit = 1 if sigv == V1 else tracks
        base = {env["sig"]: sigv, env["tracks"]: tracks, env["v1"]: 4 * tracks, env["v2"]: 4 * tracks, env["bat_entries"]: 4, bat: b, P1: off, P2: ln}
        got = simulate_generator(chk, ctx, loop, base=base)
        if got is None or got == ("raise",) or not all(isinstance(x, tuple) and len(x) == 2 for x in got):
            return None
        n += 1
        want = []
        pos, rem = off, ln
        while rem > 0:
            i, o = divmod(pos, cs)
            size = min(cs - o, rem)
            want.append((None if b[i] == 0 else b[i] * unit * 512 + o, size))
            pos += size
            rem -= size
        if _canonical(got, off) != _canonical(want, off):
            bad.append(f"{'v1' if sigv == V1 else 'v2'} image, cluster {cs} bytes, BAT {b}, request ({off}, {ln}): runs {got}, specified {want}")
    chk.decide(not bad, *rule, loop,
               f"the runs of {n} model requests (4-cluster images of both versions; contiguous, sparse, alternating and out-of-order BATs; "
               f"aligned and unaligned requests) map every guest range to bat[i]*unit*512 + offset%cluster, or to `sparse` for a zero entry"
               if not bad else "; ".join(bad[:2]))
    return not bad


def _iter_runs_structure(chk: Check, ctx, loop, env, bat, dom, sim):
    """The finer-grained rules on the loop's variables (better diagnostics); where the variables cannot be identified the
    decision of `runs-by-evaluation` stands."""
    R = chk.R

    def cannot(kind, inst, node, why):
        if sim is None:
            chk.undecided(kind, inst, node, why)

    carried = loop_carried(chk, ctx, loop)
    pname, pinfo = carried_with_entry(chk, carried, ("p", ctx.qual, 1))
    rname, rinfo = carried_with_entry(chk, carried, ("p", ctx.qual, 2))
    oname, oinfo = carried_with_entry(chk, carried, S.C(None))
    sname, sinfo = carried_with_entry(chk, carried, S.C(0))
    if not all((pinfo, rinfo, oinfo, sinfo)):
        cannot("K-SPLIT", "loop-variables", loop, "cannot identify offset / length / run offset / run size loop variables")
        return
    POS, REM, RUNOFF, RUNSIZE = pinfo["phi"], rinfo["phi"], oinfo["phi"], sinfo["phi"]
    env.update(POS=POS, REM=REM, cs=spec_expr("tracks * 512", env), mult=spec_expr("1 if sig == V1 else tracks", env),
               BAT=lambda i: ("sub", bat, i))
    env["STEP"] = spec_expr("min(cs - POS % cs, REM)", env)

    def dom2(leaf, rng):
        v = dom(leaf, rng)
        if v is not None:
            return v
        if leaf == REM:
            return rng.choice([1, 512, 1 << 20, rng.randrange(1, 1 << 24)])
        return None

    for src, nxt in pinfo["next"]:
        chk.formula("K-SPLIT", "position-advance", loop, nxt, spec_expr("POS + STEP", env), domain=dom2)
    for src, nxt in rinfo["next"]:
        chk.formula("K-SPLIT", "remaining-advance", loop, nxt, spec_expr("REM - STEP", env), domain=dom2)
    # the physical offset of the current cluster (0 = sparse sentinel)
    ro_want = spec_expr("0 if BAT(POS // cs) == 0 else BAT(POS // cs) * mult * 512 + POS % cs", env)
    merge_stmt = None
    for n in ast.walk(loop):
        if isinstance(n, (ast.AugAssign, ast.Assign)):
            tgt = n.target if isinstance(n, ast.AugAssign) else n.targets[0]
            if isinstance(tgt, ast.Name) and tgt.id == sname:
                node = ctx.cfg.node_of.get(n)
                val = R._name(ctx, sname, node, {}, True, 0)
                if S.equiv(val, S.op("add", RUNSIZE, env["STEP"]), domain=dom2, n=60).equal is True:
                    merge_stmt = n
    if merge_stmt is None:
        cannot("K-KIND", "merge-predicate", loop, "cannot find the statement that extends the current run")
        return
    conds = conds_sym(chk, ctx, merge_stmt)
    # read_offset as the code spells it: the value the run-offset variable is (re)started with inside the loop
    ro = None
    starts = []
    for n in ast.walk(loop):
        if isinstance(n, ast.Assign) and isinstance(n.targets[0], ast.Name) and n.targets[0].id == oname:
            starts.append(R.expr(ctx, n.value, ctx.cfg.node_of.get(n)))
    if starts and all(x == starts[0] for x in starts):
        ro = starts[0]
    if ro is None:
        cannot("K-KIND", "merge-predicate", merge_stmt, "cannot find the current cluster's physical offset in the merge condition")
        return
    chk.formula("K-FORMULA", "cluster-address", merge_stmt, ro, ro_want, domain=dom2)
    cases = []
    CS = 1 << 20
    for run_off in (0, CS, 5 * CS, 512):
        for run_size in (CS, 2 * CS, 512, CS - 512):
            for read_off in (0, CS, 2 * CS, 3 * CS, run_off + run_size, run_size, 512 + CS):
                cases.append((run_off, run_size, read_off))
    bad = []
    for run_off, run_size, read_off in sorted(set(cases)):
        got = eval_conds(conds, S.Valuation(1, override={RUNOFF: run_off, RUNSIZE: run_size, ro: read_off}))
        if run_off == 0 and read_off == 0:
            want = True
        elif (run_off == 0) != (read_off == 0):
            want = False
        else:
            want = read_off == run_off + run_size
        if got != want:
            bad.append(f"run(offset={run_off}, size={run_size}) next cluster at {read_off}: merges={got}, specified {want}")
    chk.decide(not bad, "K-KIND", "merge-predicate", merge_stmt,
               "sparse runs extend only over sparse clusters, allocated runs only over the physically adjacent cluster "
               f"({len(set(cases))} kind/coincidence cases evaluated)" if not bad else "; ".join(bad[:3]),
               expected="merge iff (both sparse) or (both allocated and next == run offset + run size)")
    # yields: (offset or None, size)
    ys = [n for n in ast.walk(ctx.func) if isinstance(n, ast.Yield)]
    oky = bool(ys)
    for y in ys:
        node = ctx.cfg.node_for(y)
        t = R.expr(ctx, y.value, node)
        if not (t[0] == "tuple" and len(t[1]) == 2):
            oky = False
            continue
        first, second = t[1]
        # first: run offset with the sentinel 0 mapped to None; second: run size
        v0 = S.ev(first, S.Valuation(1, override={RUNOFF: 0, _after(R, ctx, oname, node): 0}))
        v1 = S.ev(first, S.Valuation(1, override={RUNOFF: 4096, _after(R, ctx, oname, node): 4096}))
        if v0 is not None or v1 != 4096:
            oky = False
    chk.decide(oky, "K-PROV", "run-tuple-roles:producer", ctx.func,
               f"{len(ys)} yield sites produce (file offset or None for sparse, run size)")
    _typestate(chk, ctx, "iter-runs")


def _read_structure(chk: Check, hk):
    R = chk.R
    rctx = chk.func(REL, "HDS._read")
    fh = R.self_attr(hk, "fh")
    parent = R.self_attr(hk, "parent")
    floops = [l for l in rctx.loops if isinstance(l, ast.For)]
    if not floops:
        raise AnalysisError("ANCHOR-VANISHED HDS._read has no for loop over the runs")
    floop = floops[0]
    it = R.expr(rctx, floop.iter, rctx.cfg.node_of[floop], binds={"__exclude_loop__": floop})
    want_it = S.call(f"{hk}._iter_runs", [("self", hk), ("p", rctx.qual, 1), ("p", rctx.qual, 2)])
    chk.decide(it == want_it, "K-PROV", "runs-requested-for-the-request", floop,
               "_read iterates _iter_runs(offset, length) of its own arguments", expected=S.show(want_it), found=S.show(it)[:200])
    I0, I1 = ("iter", it, 0), ("iter", it, 1)
    carried = loop_carried(chk, rctx, floop)
    pn, pi = carried_with_entry(chk, carried, ("p", rctx.qual, 1))
    if pi is None:
        chk.violated("K-PATH", "offset-advanced-per-run", floop,
                     "_read keeps no running guest offset that advances with every run: a parent read after the first "
                     "run would be issued at the wrong guest position")
        return
    RPOS = pi["phi"]
    for src, nxt in pi["next"]:
        chk.formula("K-PATH", "offset-advanced-per-run", floop, nxt, S.op("add", RPOS, I1))
    combos = [{"off": v, "parent": p} for v in (None, 512, 1 << 20) for p in (None, 1)]
    table = {(c["off"], c["parent"]): set() for c in combos}
    for call, t in appends_in(chk, rctx):
        eff = classify_effect(t, fh, parent)
        reach = reach_table(conds_sym(chk, rctx, call), {"off": I0, "parent": parent}, combos)
        for c, hit in zip(combos, reach):
            if hit:
                table[(c["off"], c["parent"])].add(eff[0])
        if eff[0] == "ZEROS":
            chk.formula("K-SPLIT", "zeros-length", call, eff[1], I1)
        elif eff[0] == "FILE":
            chk.formula("K-SPLIT", "read-length", call, eff[2], I1)
        elif eff[0] == "PARENT":
            chk.decide(eff[1] == ".read" and len(eff[2]) == 1, "K-PROV", "parent-read-interface", call, "parent.read(size)")
            if eff[2]:
                chk.formula("K-SPLIT", "parent-read-length", call, eff[2][0], I1)
        else:
            chk.violated("K-DISPATCH", "unknown-effect", call, f"appended data is of no known class: {S.show(t)[:200]}")
    want = {}
    for c in combos:
        v, p = c["off"], c["parent"]
        want[(v, p)] = ({"PARENT"} if p else {"ZEROS"}) if v is None else {"FILE"}
    chk.decide(table == want, "K-DISPATCH", "run-dispatch", floop,
               "sparse run (None) -> parent|zeros; otherwise own file", expected=str(sorted(map(str, want.items()))),
               found=str(sorted(map(str, table.items()))))
    for s in calls_named(rctx, "seek"):
        h = R.expr(rctx, s.func.value)
        t = R.expr(rctx, s.args[0])
        if h == parent or (h[0] in ("join", "ite") and parent in S.alternatives(h)) or h == parent:
            chk.formula("K-FORMULA", "parent-seek-guest-offset", s, t, RPOS)
        else:
            chk.formula("K-FORMULA", "file-seek-run-offset", s, t, I0)
    _typestate(chk, rctx, "read")
    for q in ("HDS._read", "HDS._iter_runs"):
        c = chk.func(REL, q)
        st = self_stores(c.func)
        chk.decide(not st, "K-PURE", f"no-self-store:{q}", st[0][0] if st else c.func,
                   "read path does not store to self" if not st else st[0][1], nontrivial=False)
    chk.require("K-SPLIT", 5)
    chk.require("K-KIND", 1)
    chk.require("K-FORMULA", 5)


def _after(R, ctx, name, node):
    """The value of a variable as seen at `node` (may be the PHI or a post-loop join)."""
    return R._name(ctx, name, node, {}, False, 0)
