"""C01 - QCOW2: every byte range reads as the guest-visible content (structural clauses)."""
from __future__ import annotations

import ast

from .. import sym as S
from ..engine import Check
from ..loader import AnalysisError
from ..rulelib import (after_loop_valuation, simulate_loop, _typestate, appends_in, calls_named, carried_with_entry, check_const, check_layout,
                       classify_effect, conds_sym, eval_conds, fld, func_eval, func_outcomes, inst_attr, loop_carried,
                       loops_of, reach_table, select_branch, self_stores, spec_expr, walk_cfg)

LEVEL = "other"
TECHNIQUE = ("static analysis: layout/constant comparison with the QCOW2 specification, def-use reconstruction of the "
             "L1/L2 walk, decision tables of the loop-free classifiers against QEMU's reference tables, CFG walk of the "
             "contiguity counter under predicate abstraction, tuple-role provenance, bounded-inflate and typestate rules")
EXPLANATION = (
    "Decides necessary structural conditions of byte-exact QCOW2 reads: header/extension/snapshot layouts (positional), "
    "masks and flag bits, all geometry derived from cluster_bits (cluster, sub-cluster, L2 entry size, l2_bits, compressed "
    "descriptor shift/masks), the seven index helpers, version-2 header normalisation before any v3 field is used, the "
    "_yield_runs loop (index triple from the current offset, identical step on offset and length at all three exits, step "
    "formulas, L1/L2 addressing, host offset per type), L2 table shape and entry/bitmap indexing, get_cluster_type / "
    "get_subcluster_type / get_subcluster_range_type as decision tables equal to QEMU's for a partition of entries, "
    "bitmaps and start indices, the ctz/cto helpers, the per-cluster decision structure of count_contiguous_subclusters, "
    "the (type, guest offset, host offset, length) tuple roles into _read, _read's dispatch over the seven sub-cluster "
    "types x backing, backing reads padded to the run length, compressed descriptor decoding and the bounded raw-deflate "
    "inflate, seek-before-read. Does NOT decide byte equality with guest content for all images, nor zstd."
)
ASSUMPTIONS = ["terms are compared by normal form and randomised identity testing over integer valuations of their atoms",
               "reference decision tables are transcribed from QEMU block/qcow2.h and qcow2-cluster.c"]

REL, CREL = "disk/qcow2.py", "disk/c_qcow2.py"

CONSTS = {
    "QCOW2_MAGIC": 0x514649FB, "MIN_CLUSTER_BITS": 9, "MAX_CLUSTER_BITS": 21, "QCOW2_COMPRESSED_SECTOR_SIZE": 512,
    "QCOW2_COMPRESSION_TYPE_ZLIB": 0, "QCOW2_COMPRESSION_TYPE_ZSTD": 1, "L2E_SIZE_NORMAL": 8, "L2E_SIZE_EXTENDED": 16,
    "L1E_OFFSET_MASK": 0x00FFFFFFFFFFFE00, "L2E_OFFSET_MASK": 0x00FFFFFFFFFFFE00,
    "L2E_COMPRESSED_OFFSET_SIZE_MASK": 0x3FFFFFFFFFFFFFFF, "QCOW_OFLAG_COPIED": 1 << 63, "QCOW_OFLAG_COMPRESSED": 1 << 62,
    "QCOW_OFLAG_ZERO": 1, "QCOW_EXTL2_SUBCLUSTERS_PER_CLUSTER": 32, "QCOW2_INCOMPAT_DIRTY": 1, "QCOW2_INCOMPAT_CORRUPT": 2,
    "QCOW2_INCOMPAT_DATA_FILE": 4, "QCOW2_INCOMPAT_COMPRESSION": 8, "QCOW2_INCOMPAT_EXTL2": 16,
    "QCOW2_EXT_MAGIC_END": 0, "QCOW2_EXT_MAGIC_BACKING_FORMAT": 0xE2792ACA, "QCOW2_EXT_MAGIC_FEATURE_TABLE": 0x6803F857,
    "QCOW2_EXT_MAGIC_CRYPTO_HEADER": 0x0537BE77, "QCOW2_EXT_MAGIC_BITMAPS": 0x23852875, "QCOW2_EXT_MAGIC_DATA_FILE": 0x44415441,
}
# enum values (QEMU order)
CT = dict(UNALLOCATED=0, ZERO_PLAIN=1, ZERO_ALLOC=2, NORMAL=3, COMPRESSED=4)
ST = dict(UNALLOCATED_PLAIN=0, UNALLOCATED_ALLOC=1, ZERO_PLAIN=2, ZERO_ALLOC=3, NORMAL=4, COMPRESSED=5, INVALID=6)
OFFMASK = 0x00FFFFFFFFFFFE00


# ---- reference tables (QEMU) ---------------------------------------------------------------------------

def ref_cluster_type(e, ext, has_data_file):
    if e & (1 << 62):
        return CT["COMPRESSED"]
    if (e & 1) and not ext:
        return CT["ZERO_ALLOC"] if e & OFFMASK else CT["ZERO_PLAIN"]
    if not e & OFFMASK:
        if has_data_file and e & (1 << 63):
            return CT["NORMAL"]
        return CT["UNALLOCATED"]
    return CT["NORMAL"]


def ref_subcluster_type(ct, bm, sc, ext):
    if ext:
        if ct == CT["COMPRESSED"]:
            return ST["COMPRESSED"]
        if ct == CT["NORMAL"]:
            if (bm >> 32) & bm:
                return ST["INVALID"]
            if bm & (1 << (32 + sc)):
                return ST["ZERO_ALLOC"]
            if bm & (1 << sc):
                return ST["NORMAL"]
            return ST["UNALLOCATED_ALLOC"]
        if ct == CT["UNALLOCATED"]:
            if bm & 0xFFFFFFFF:
                return ST["INVALID"]
            if bm & (1 << (32 + sc)):
                return ST["ZERO_PLAIN"]
            return ST["UNALLOCATED_PLAIN"]
        return "raise"
    return {CT["COMPRESSED"]: ST["COMPRESSED"], CT["ZERO_PLAIN"]: ST["ZERO_PLAIN"], CT["ZERO_ALLOC"]: ST["ZERO_ALLOC"],
            CT["NORMAL"]: ST["NORMAL"], CT["UNALLOCATED"]: ST["UNALLOCATED_PLAIN"]}.get(ct, "raise")


def _cto32(v):
    n = 0
    while n < 32 and v & (1 << n):
        n += 1
    return n


def _ctz32(v):
    n = 0
    while n < 32 and not v & (1 << n):
        n += 1
    return n


def ref_range(st, bm, sc_from, ext):
    if st == ST["INVALID"]:
        return "raise"
    if not ext or st == ST["COMPRESSED"]:
        return (st, (32 if ext else 1) - sc_from)
    mask = (1 << sc_from) - 1
    if st == ST["NORMAL"]:
        return (st, _cto32((bm | mask) & 0xFFFFFFFF) - sc_from)
    if st in (ST["ZERO_PLAIN"], ST["ZERO_ALLOC"]):
        return (st, _cto32(((bm | (mask << 32)) >> 32) & 0xFFFFFFFF) - sc_from)
    val = ((bm >> 32) | bm) & ~mask & 0xFFFFFFFF
    return (st, _ctz32(val) - sc_from)


# ---- geometry roles ---------------------------------------------------------------------------------------

class Geo:
    def __init__(self, chk: Check):
        R = chk.R
        self.chk = chk
        self.qk = chk.prog.cls(REL, "QCow2").key
        self.hdr = inst_attr(chk, REL, "QCow2", "QCowHeader")
        self.F = lambda n: fld(chk, self.hdr, CREL, "QCowHeader", n)
        self.cb = self.F("cluster_bits")
        self.inc = self.F("incompatible_features")
        self.env = {"cb": self.cb, "inc": self.inc, "hl": self.F("header_length"), "ctf": self.F("compression_type")}
        self.env["ext"] = spec_expr("(inc & 16) != 0", self.env)
        self.env["cs"] = spec_expr("1 << cb", self.env)
        self.env["spc"] = spec_expr("32 if ext else 1", self.env)
        self.env["scb"] = spec_expr("cb - (5 if ext else 0)", self.env)
        self.env["l2b"] = spec_expr("cb - (4 if ext else 3)", self.env)
        self.env["l2n"] = spec_expr("1 << l2b", self.env)
        self.env["es"] = spec_expr("16 if ext else 8", self.env)

    def dom(self, leaf, rng):
        if leaf == self.cb:
            return rng.randrange(9, 22)
        if leaf == self.inc:
            return rng.choice([0, 16, 4, 20, 1, 17, 8, 24])
        return None


def verify_bitcount(chk: Check):
    """ctz / cto: `for i in range(size): if [not] value & (1 << i): return i` ... `return size`; installs the
    evaluation model for calls of the helper once its structure is confirmed."""
    R = chk.R
    # models are per analysed tree: forget what an earlier analysis in this process installed
    for q in list(_DELEGATES):
        S._MODELS.pop(q, None)
    _DELEGATES.clear()
    for name in ("ctz", "cto"):
        S._MODELS.pop(f"{CREL}::{name}", None)
    for name, ones in (("ctz", False), ("cto", True)):
        if not chk.prog.has_func(CREL, name):
            chk.violated("K-FORMULA", f"bitcount:{name}", (CREL, name, 0), f"helper {name} is missing")
            continue
        ctx = chk.func(CREL, name)
        outs = func_outcomes(chk, ctx)
        V, SZ = ("p", ctx.qual, 0), ("p", ctx.qual, 1)
        floops = [l for l in ctx.loops if isinstance(l, ast.For)]
        if not ctx.loops and len(outs) == 1 and outs[0][0] == "return" and outs[0][3][0] == "call" and "::" in outs[0][3][1]:
            # the count is delegated to another function of the module (one helper for both directions): that function's loop is
            # evaluated with its parameters bound to the arguments of the call
            callee = outs[0][3]
            fdef = R._func_by_key(callee[1]) if hasattr(R, "_func_by_key") else None
            if fdef is not None:
                cctx = R.ctx_of(fdef)
                if len(cctx.loops) == 1 and len(callee[2]) == len(fdef.args.args) and not callee[3]:
                    def bind(v, sz, _args=callee[2], _q=cctx.qual):
                        val = S.Valuation(1, override={V: v, SZ: sz})
                        return {("p", _q, i): S.ev(a, val) for i, a in enumerate(_args)}
                    # which parameter of the callee is the size: the one bound to our size argument
                    szi = [i for i, a in enumerate(callee[2]) if a == SZ]
                    if len(szi) == 1:
                        res = _bitcount_by_simulation(chk, cctx, cctx.loops[0], None, ("p", cctx.qual, szi[0]), ones, func_outcomes(chk, cctx), bind=bind)
                        if res is not None:
                            bad, n = res
                            chk.decide(not bad, "K-FORMULA", f"bitcount:{name}", ctx.func,
                                       f"{name}(value, size) = number of trailing {'one' if ones else 'zero'} bits, `size` if there is none "
                                       f"(delegated to {cctx.qual.split('::')[-1]}; {n} (value, size) vectors evaluated round by round)" if not bad else "; ".join(bad[:3]))
                            if not bad:
                                S._MODELS[ctx.qual] = (lambda ones_: (lambda v, size=32: _count(v, size, ones_)))(ones)
                                # calls of ctz / cto are reconstructed as calls of the shared helper: it gets the model too, selected
                                # by the constant arguments this delegation passes
                                consts = {i: a[1] for i, a in enumerate(callee[2]) if S.is_const(a)}
                                vidx = [i for i, a in enumerate(callee[2]) if a == V]
                                if len(vidx) == 1:
                                    _DELEGATES.setdefault(cctx.qual, []).append((consts, vidx[0], szi[0], ones))
                                    S._MODELS[cctx.qual] = (lambda q: (lambda *args: _delegate_model(q, args)))(cctx.qual)
                            continue
        if not ctx.loops:
            # a closed form (bit tricks): decided by evaluating the function's exits against the reference count on every
            # 8-bit value with sizes 1..8, and on boundary values of the 32- and 64-bit sizes the callers use
            vectors = [(v, sz) for sz in (1, 2, 3, 8) for v in range(256)]
            for sz in (16, 32, 64):
                edge = [0, 1, (1 << sz) - 1, 1 << (sz - 1), (1 << sz), (1 << sz) | 1, (1 << (sz + 3)) - 1, ~0, -2, ~((1 << sz) - 1)]
                edge += [1 << i for i in range(0, sz + 2, 3)] + [(1 << i) - 1 for i in range(0, sz + 2, 3)] + [~(1 << i) for i in range(0, sz + 2, 5)]
                vectors += [(v, sz) for v in edge]
            bad = []
            for v, sz in vectors:
                got = func_eval(outs, S.Valuation(1, override={V: v, SZ: sz}))
                want = ("return", _count(v, sz, ones))
                if got != want:
                    bad.append(f"{name}({v:#x}, {sz}) -> {got}, specified {want[1]}")
            chk.decide(not bad, "K-FORMULA", f"bitcount:{name}", ctx.func,
                       f"{name}(value, size) = number of trailing {'one' if ones else 'zero'} bits, `size` if there is none "
                       f"(closed form, {len(vectors)} (value, size) vectors evaluated)" if not bad else "; ".join(bad[:3]))
            if not bad:
                S._MODELS[ctx.qual] = (lambda ones_: (lambda v, size=32: _count(v, size, ones_)))(ones)
            continue
        if len(ctx.loops) == 1:
            # one loop, whatever it carries (the index alone, or a running mask as well): the loop is evaluated round by round
            # on (value, size) vectors and the returned count compared with the reference
            res = _bitcount_by_simulation(chk, ctx, ctx.loops[0], V, SZ, ones, outs)
            if res is not None:
                bad, n = res
                chk.decide(not bad, "K-FORMULA", f"bitcount:{name}", ctx.func,
                           f"{name}(value, size) = number of trailing {'one' if ones else 'zero'} bits, `size` if there is none "
                           f"({n} (value, size) vectors evaluated round by round)" if not bad else "; ".join(bad[:3]))
                if not bad:
                    S._MODELS[ctx.qual] = (lambda ones_: (lambda v, size=32: _count(v, size, ones_)))(ones)
                continue
        ok = len(floops) == 1 and len(outs) == 2
        why = []
        if ok:
            it = R.expr(ctx, floops[0].iter, ctx.cfg.node_of[floops[0]])
            ok = it == S.call("range", [SZ])
            if not ok:
                why.append(f"loop iterates {S.show(it)}, specified range(size)")
        if ok:
            inner = [o for o in outs if o[1] in list(ast.walk(floops[0]))]
            outer = [o for o in outs if o[1] not in list(ast.walk(floops[0]))]
            ok = len(inner) == 1 and len(outer) == 1
            if ok:
                I = ("iter", S.call("range", [SZ]), None)
                ok = inner[0][3] == I
                if not ok:
                    why.append("the loop does not return its index")
                # decision of the inner return for value bit i set / clear
                for bit, i in ((1, 0), (0, 0), (1, 3), (0, 3)):
                    val = S.Valuation(1, override={V: (bit << i) | (1 << 20 if i != 20 else 0) | ((1 << i) - 1 if ones else 0), I: i})
                    hit = eval_conds([c for c in inner[0][2] if S.contains(c[0], lambda x: x == V)], val)
                    want = (bit == 0) if ones else (bit == 1)
                    if hit != want:
                        ok = False
                        why.append(f"returns at index {i} when bit {i} is {bit}: {hit}, specified {want}")
                if outer[0][3] != SZ:
                    ok = False
                    why.append(f"falls through to {S.show(outer[0][3])}, specified the word size (an empty word has `size` trailing {'ones' if ones else 'zeros'})")
        chk.decide(ok, "K-FORMULA", f"bitcount:{name}", ctx.func,
                   f"{name}(value, size) = number of trailing {'one' if ones else 'zero'} bits, `size` if there is none" if ok else "; ".join(why))
        if ok:
            S._MODELS[ctx.qual] = (lambda ones_: (lambda v, size=32: _count(v, size, ones_)))(ones)


_DELEGATES = {}


def _delegate_model(qual, args):
    for consts, vidx, szi, ones in _DELEGATES.get(qual, ()):
        if all(i < len(args) and args[i] == c for i, c in consts.items()):
            return _count(args[vidx], args[szi], ones)
    raise S.EvalError("no verified binding of the bit-count helper for these arguments")


def _bitcount_by_simulation(chk: Check, ctx, loop, V, SZ, ones, outs, bind=None):
    """-> ([mismatches], vectors evaluated) or None when the loop cannot be evaluated round by round."""
    R = chk.R
    carried = loop_carried(chk, ctx, loop)
    hdr = ctx.cfg.node_of[loop]
    I = None
    if isinstance(loop, ast.For):
        it = R.expr(ctx, loop.iter, hdr, binds={"__exclude_loop__": loop})
        if it != S.call("range", [SZ]):
            return None
        I = ("iter", it, None)
    finals = [o for o in outs if o[0] == "return" and not any(o[1] is x for x in ast.walk(loop))]
    if len(finals) != 1:
        return None
    vectors = [(v, sz) for sz in (1, 2, 3, 8) for v in range(0, 256, 1 if sz < 8 else 3)]
    for sz in (32, 64):
        vectors += [(v, sz) for v in (0, 1, 2, 4, 8, 12, (1 << sz) - 1, 1 << (sz - 1), (1 << sz), (1 << (sz - 1)) - 1, 0x5555, 0xFFFF0000, 7, 0xFF)]
    bad = []
    for v, sz in vectors:
        base = {V: v, SZ: sz} if bind is None else bind(v, sz)
        inputs = [dict({I: k} if I is not None else {}) for k in range(sz + (0 if I is not None else 1))]
        rounds = simulate_loop(chk, ctx, loop, carried, inputs, base=base)
        got = None
        try:
            for r in rounds:
                if r[2][0] in ("fork", "limit"):
                    return None
                if r[2][0] == "return":
                    node = r[2][1]
                    got = S.ev(R.expr(ctx, node.ast.value, node), r.val)
                    break
                if r[2][0] == "raise":
                    got = "raise"
                    break
            else:
                val = after_loop_valuation(chk, ctx, loop, carried, rounds)
                for k_, v_ in base.items():
                    val.override[k_] = v_
                got = S.ev(finals[0][3], val)
        except S.EvalError:
            return None
        want = _count(v, sz, ones)
        if got != want:
            bad.append(f"{ctx.qual.split('::')[-1]}({v:#x}, {sz}) -> {got}, specified {want}")
    return bad, len(vectors)


def _count(v, size, ones):
    n = 0
    while n < size and bool(v & (1 << n)) == ones:
        n += 1
    return n


def run(chk: Check):
    R = chk.R
    for name in ("QCowHeader", "QCowExtension", "QCowSnapshotHeader", "QCowSnapshotExtraData", "Qcow2CryptoHeaderExtension",
                 "Qcow2BitmapHeaderExt"):
        check_layout(chk, CREL, name)
    for name, val in CONSTS.items():
        check_const(chk, CREL, name, val)
    for en, tab in (("QCow2ClusterType", CT), ("QCow2SubclusterType", ST)):
        lay = list(chk.prog.info(CREL).layouts.values())[0]
        e = lay.enums.get(en)
        got = {k.replace("QCOW2_CLUSTER_", "").replace("QCOW2_SUBCLUSTER_", ""): v for k, v in (e.members.items() if e else [])}
        chk.decide(got == tab, "K-CONST", f"enum:{en}", (CREL, f"<enum {en}>", 1), "enumeration order equals QEMU's", expected=str(tab), found=str(got), nontrivial=False)
    for tup, want in (("NORMAL_SUBCLUSTER_TYPES", {4, 3, 1}), ("ZERO_SUBCLUSTER_TYPES", {2, 3}), ("UNALLOCATED_SUBCLUSTER_TYPES", {0, 1})):
        try:
            v = chk.prog.fold(ast.Name(id=tup), chk.prog.info(CREL))
            chk.decide({int(x) for x in v} == want, "K-CONST", f"type-set:{tup}", (CREL, f"<const {tup}>", 1),
                       f"{tup} = {sorted(want)}", expected=str(sorted(want)), found=str(sorted(int(x) for x in v)), nontrivial=False)
        except Exception as e:
            chk.undecided("K-CONST", f"type-set:{tup}", (CREL, f"<const {tup}>", 1), str(e))
    verify_bitcount(chk)
    G = Geo(chk)
    qk, env, dom = G.qk, G.env, G.dom
    init = chk.func(REL, "QCow2.__init__")
    geo = {
        "cluster_size": "1 << cb", "subclusters_per_cluster": "32 if ext else 1", "subcluster_size": "(1 << cb) // spc",
        "subcluster_bits": "scb", "_l2_entry_size": "es", "l2_bits": "l2b", "l2_size": "1 << l2b",
        "csize_shift": "62 - (cb - 8)", "csize_mask": "(1 << (cb - 8)) - 1", "cluster_offset_mask": "(1 << (62 - (cb - 8))) - 1",
        "compression_type": "ctf if hl > 104 else 0",
    }
    for attr, f in geo.items():
        chk.formula("K-FORMULA", f"geometry:{attr}", init.func, R.self_attr(qk, attr), spec_expr(f, env), domain=dom)
    # helper functions
    helpers = {
        "offset_into_cluster": "x % cs", "offset_into_subcluster": "x % (cs // spc)", "size_to_clusters": "ceildiv(x, cs)",
        "size_to_subclusters": "ceildiv(x, cs // spc)", "offset_to_l1_index": "x >> (l2b + cb)",
        "offset_to_l2_index": "(x >> cb) % l2n", "offset_to_sc_index": "(x >> scb) % spc",
    }
    for fn, f in helpers.items():
        if not chk.prog.has_func(REL, fn):
            continue
        c = chk.func(REL, fn)
        rets = [n for n in ast.walk(c.func) if isinstance(n, ast.Return)]
        e2 = dict(env)
        e2["x"] = ("p", c.qual, 1)
        chk.formula("K-FORMULA", f"helper:{fn}", c.func, R.expr(c, rets[0].value, c.cfg.node_for(rets[0])), spec_expr(f, e2), domain=dom)

    version2(chk, G, init)
    tables(chk, G)
    classifiers(chk, G)
    contiguous(chk, G)
    yield_runs(chk, G)
    read_dispatch(chk, G)
    compressed(chk, G)
    for q in ("QCow2._read", "QCow2._yield_runs", "QCow2._read_compressed", "QCow2._decompress", "QCow2.l2_table",
              "L2Table.entry", "L2Table.bitmap"):
        c = chk.func(REL, q)
        st = self_stores(c.func)
        chk.decide(not st, "K-PURE", f"no-self-store:{q}", st[0][0] if st else c.func,
                   "read path does not store to self" if not st else st[0][1], nontrivial=False)
    chk.require("K-LAYOUT", 6)
    chk.require("K-CONST", 26)
    chk.require("K-FORMULA", 30)
    chk.require("K-DISPATCH", 4)
    chk.require("K-SPLIT", 6)


# -----------------------------------------------------------------------------------------------------------

def version2(chk: Check, G: Geo, init):
    """Every v3-only header field is normalised for version 2 before its first use."""
    R = chk.R
    ver = G.F("version")
    v3 = {"incompatible_features": 0, "compatible_features": 0, "autoclear_features": 0, "refcount_order": 4, "header_length": 72}
    from ..rulelib import field_map

    st, fm = field_map(chk, CREL, "QCowHeader")
    repo_names = {fm[k].name: k for k in v3}
    norm_if = None
    stored = {}
    for n in ast.walk(init.func):
        if isinstance(n, ast.If):
            t = R.expr(init, n.test, init.cfg.node_of.get(n))
            if S.contains(t, lambda x: x == ver):
                tab = {v: eval_conds([(t, True)], S.Valuation(1, override={ver: v})) for v in (1, 2, 3, 4)}
                if tab == {1: False, 2: True, 3: False, 4: False}:
                    for s in n.body:
                        if isinstance(s, ast.Assign) and len(s.targets) == 1 and isinstance(s.targets[0], ast.Attribute):
                            tg = s.targets[0]
                            base = R.expr(init, tg.value, init.cfg.node_of.get(s))
                            if base == G.hdr and tg.attr in repo_names:
                                try:
                                    stored[repo_names[tg.attr]] = chk.prog.fold(s.value, init.mi, init.ci)
                                except Exception:
                                    stored[repo_names[tg.attr]] = "?"
                    if stored:
                        norm_if = n
    if norm_if is None:
        chk.violated("K-GATE-VERSION", "v3-fields-normalised-for-v2", init.func,
                     "for version 2 the header fields at offset >= 72 do not exist in the file, but they are used as parsed: "
                     "no branch `version == 2` sets incompatible/compatible/autoclear features, refcount_order and header_length "
                     "to their version-2 defaults")
        return
    chk.decide(stored == v3, "K-GATE-VERSION", "v3-fields-normalised-for-v2", norm_if,
               "version 2 defaults (0, 0, 0, refcount_order 4, header_length 72) are installed", expected=str(v3), found=str(stored))
    # dominance: the normalisation precedes every use of a v3 field in __init__ (and the helper calls that use them)
    cfg = init.cfg
    nnode = cfg.node_of[norm_if]
    late = []
    names = set(repo_names) | {"has_subclusters", "_read_extensions"}
    for n in ast.walk(init.func):
        if isinstance(n, ast.Attribute) and n.attr in names and isinstance(n.ctx, ast.Load):
            node = cfg.node_for(n)
            if node is None or node is nnode or n in list(ast.walk(norm_if.test)):
                continue
            if n in list(ast.walk(norm_if)):
                continue
            if not cfg.dominates(nnode, node):
                late.append(n)
    chk.decide(not late, "K-GATE-VERSION", "normalisation-dominates-v3-uses", late[0] if late else norm_if,
               "the version-2 normalisation dominates every use of a version-3 field in the constructor"
               if not late else f"`{ast.unparse(late[0])}` at line {late[0].lineno} can be reached without the normalisation")


def tables(chk: Check, G: Geo):
    R = chk.R
    env, dom, qk = G.env, G.dom, G.qk
    l1 = R.self_attr(qk, "l1_table")
    ok = l1[0] == "read" and l1[1] in ("uint64", "uint64_t") and l1[2] == G.F("l1_size")
    c = chk.func(REL, "QCow2.l1_table")
    chk.decide(ok, "K-FORMULA", "l1:shape", c.func, "the L1 table is l1_size big-endian 64-bit entries", found=S.show(l1)[:200])
    for s in calls_named(c, "seek"):
        chk.formula("K-FORMULA", "l1:address", s, R.expr(c, s.args[0]), G.F("l1_table_offset"))
    _typestate(chk, c, "l1")
    chk.decide("cached_property" in chk.prog.cls(REL, "QCow2").decorators("l1_table"), "K-PURE", "l1-memoised", c.func,
               "the L1 table is loaded once", nontrivial=False)
    ci = chk.prog.cls(REL, "QCow2")
    memo = any(isinstance(v, ast.Call) and "lru_cache" in ast.unparse(v.func) for (m, st, v) in ci.self_assigns.get("l2_table", []))
    chk.decide(memo, "K-PURE", "l2-memoised", chk.func(REL, "QCow2.__init__").func, "L2 tables are loaded through an LRU cache", nontrivial=False)
    lc = chk.func(REL, "L2Table.__init__")
    lk = chk.prog.cls(REL, "L2Table").key
    for s in calls_named(lc, "seek"):
        chk.formula("K-FORMULA", "l2:address", s, R.expr(lc, s.args[0]), ("p", lc.qual, 2))
    tbl = R.self_attr(lk, "_table")
    okk = tbl[0] == "read" and tbl[1] in ("uint64", "uint64_t")
    chk.decide(okk, "K-FORMULA", "l2:shape", lc.func, "an L2 table is an array of big-endian 64-bit words", found=S.show(tbl)[:200])
    if okk:
        chk.formula("K-FORMULA", "l2:word-count", lc.func, tbl[2], spec_expr("l2n * (es // 8)", env), domain=dom)
    _typestate(chk, lc, "l2")
    for meth, f in (("entry", "i * es // 8"), ("bitmap", "i * es // 8 + 1")):
        c = chk.func(REL, f"L2Table.{meth}")
        e2 = dict(env)
        e2["i"] = ("p", c.qual, 1)
        outs = func_outcomes(chk, c)
        idxs = []
        for kind, stmt, conds, v in outs:
            if v is not None and v[0] == "sub" and v[1] == tbl:
                idxs.append((stmt, conds, v[2]))
        if not idxs:
            chk.undecided("K-FORMULA", f"l2:{meth}-index", c.func, "no table look-up returned")
            continue
        for stmt, conds, idx in idxs:
            chk.formula("K-FORMULA", f"l2:{meth}-index", stmt, idx, spec_expr(f, e2), domain=dom)
        if meth == "bitmap":
            # without extended L2 the bitmap is 0
            tabv = {}
            for incv in (0, 16):
                r = func_eval(outs, S.Valuation(1, fields={("QCowHeader", 72): incv}))
                tabv[incv] = r[0] == "return" and r[1] == 0
            chk.decide(tabv == {0: True, 16: False}, "K-DISPATCH", "l2:bitmap-only-with-extended-l2", c.func,
                       "bitmap() is 0 without extended L2 and the second word of the entry with it", found=str(tabv))


def classifiers(chk: Check, G: Geo):
    R = chk.R
    # ---- get_cluster_type
    c = chk.func(REL, "get_cluster_type")
    outs = func_outcomes(chk, c)
    E = ("p", c.qual, 1)
    bad = []
    n = 0
    fh, df = ("p", f"{REL}::QCow2.__init__", 1), ("p", f"{REL}::QCow2.__init__", 2)
    for ext in (0, 16):
        for hdf in (0, 4):
            for flags in (0, 1 << 62, 1 << 63, (1 << 62) | (1 << 63), 1, 1 | (1 << 63), 1 | (1 << 62)):
                for off in (0, 0x10000, 0x00FFFFFFFFFFFE00, 0x200, 0x1FE):
                    e = flags | off
                    val = S.Valuation(1, override={E: e, fh: 111, df: 222}, fields={("QCowHeader", 72): ext | hdf})
                    got = func_eval(outs, val)
                    want = ref_cluster_type(e, bool(ext), bool(hdf))
                    n += 1
                    if got[0] != "return" or int(got[1]) != want:
                        bad.append(f"entry {e:#x} ext={bool(ext)} data_file={bool(hdf)}: {got}, specified {want}")
    chk.decide(not bad, "K-DISPATCH", "cluster-type-table", c.func,
               f"get_cluster_type equals QEMU's table on {n} (entry, extended-L2, data-file) cases" if not bad else "; ".join(bad[:3]))
    # ---- get_subcluster_type
    c2 = chk.func(REL, "get_subcluster_type")
    outs2 = func_outcomes(chk, c2)
    E2, B2, I2 = ("p", c2.qual, 1), ("p", c2.qual, 2), ("p", c2.qual, 3)
    ctcall = S.call(f"{REL}::get_cluster_type", [("self", G.qk), E2])
    bad = []
    n = 0
    bitmaps = [0, 1, 1 << 32, (1 << 32) | 1, 0xFFFFFFFF, 0xFFFFFFFF00000000, (1 << 5), (1 << 37), (1 << 5) | (1 << 37),
               0x00000000FFFF0000, 0x0000FFFF00000000, (1 << 31), (1 << 63)]
    for ext in (0, 16):
        for ct in range(6):
            for bm in bitmaps:
                for sc in (0, 5, 31):
                    val = S.Valuation(1, override={E2: 0, B2: bm, I2: sc, ctcall: ct}, fields={("QCowHeader", 72): ext})
                    got = func_eval(outs2, val)
                    want = ref_subcluster_type(ct, bm, sc, bool(ext))
                    n += 1
                    okk = (got[0] == "raise" and want == "raise") or (got[0] == "return" and want != "raise" and int(got[1]) == want)
                    if not okk:
                        bad.append(f"cluster type {ct} bitmap {bm:#x} index {sc} ext={bool(ext)}: {got[:2]}, specified {want}")
    has_call = any(S.contains(t, lambda x: x == ctcall) for o in outs2 for t in ([o[3]] if o[3] is not None else []) + [cc for cc, _ in o[2]])
    chk.decide(not bad and has_call, "K-DISPATCH", "subcluster-type-table", c2.func,
               f"get_subcluster_type equals QEMU's table on {n} cases (cluster type from get_cluster_type(l2_entry))"
               if not bad and has_call else ("; ".join(bad[:3]) or "the cluster type is not taken from get_cluster_type(qcow2, l2_entry)"))
    # ---- get_subcluster_range_type
    c3 = chk.func(REL, "get_subcluster_range_type")
    outs3 = func_outcomes(chk, c3)
    E3, B3, F3 = ("p", c3.qual, 1), ("p", c3.qual, 2), ("p", c3.qual, 3)
    stcall = S.call(f"{REL}::get_subcluster_type", [("self", G.qk), E3, B3, F3])
    bad = []
    n = 0
    bms = bitmaps + [0x0000000000000FF0, 0x00000FF000000000, 0x00000FF000000FF0 ^ 0xFF0, 0xFFFF0000, 0xFFFF000000000000,
                     0x00000000FFFFFFFE, 0xFFFFFFFE00000000, 0x7FFFFFFF, 0x7FFFFFFF00000000]
    for ext in (0, 16):
        for stv in range(7):
            for bm in bms:
                for sf in (0, 1, 4, 16, 31):
                    if not ext and (sf != 0 or stv == ST["INVALID"]):
                        continue  # without extended L2 there is one sub-cluster and no INVALID type
                    val = S.Valuation(1, override={E3: 0, B3: bm, F3: sf, stcall: S.EnumConst(stv)}, fields={("QCowHeader", 72): ext})
                    got = func_eval(outs3, val)
                    want = ref_range(stv, bm, sf, bool(ext))
                    n += 1
                    if want == "raise":
                        okk = got[0] == "raise"
                    else:
                        okk = got[0] == "return" and isinstance(got[1], tuple) and (int(got[1][0]), got[1][1]) == want
                    if not okk:
                        bad.append(f"type {stv} bitmap {bm:#x} from {sf} ext={bool(ext)}: {got[:2]}, specified {want}")
    has_call = any(S.contains(t, lambda x: x == stcall) for o in outs3 for t in ([o[3]] if o[3] is not None else []) + [cc for cc, _ in o[2]])
    chk.decide(not bad and has_call, "K-FORMULA", "subcluster-range", c3.func,
               f"get_subcluster_range_type equals QEMU's (type, contiguous count) on {n} (type, bitmap, start index) cases"
               if not bad and has_call else ("; ".join(bad[:3]) or "the type is not taken from get_subcluster_type(qcow2, l2_entry, l2_bitmap, sc_from)"))


def contiguous(chk: Check, G: Geo):
    """count_contiguous_subclusters: per-iteration decision structure and argument provenance."""
    R = chk.R
    c = chk.func(REL, "count_contiguous_subclusters")
    floops = [l for l in c.loops if isinstance(l, ast.For)]
    if not floops:
        chk.violated("K-FORMULA", "contiguous:loop", c.func, "no loop over the clusters")
        return
    loop = floops[0]
    hdr = c.cfg.node_of[loop]
    NB, SCI, L2T, L2I = ("p", c.qual, 1), ("p", c.qual, 2), ("p", c.qual, 3), ("p", c.qual, 4)
    lk = chk.prog.cls(REL, "L2Table").key
    it = R.expr(c, loop.iter, hdr, binds={"__exclude_loop__": loop})
    chk.decide(it == S.call("range", [NB]), "K-FORMULA", "contiguous:iterates-nb-clusters", loop, "the walk covers nb_clusters clusters",
               found=S.show(it))
    I = ("iter", it, None)
    # the range-type call and its arguments
    rcall = None
    for n in ast.walk(loop):
        if isinstance(n, ast.Call):
            t = R.expr(c, n)
            if t[0] == "call" and t[1] == f"{REL}::get_subcluster_range_type":
                rcall = (n, t)
    if rcall is None:
        chk.violated("K-PROV", "contiguous:range-type-call", loop, "get_subcluster_range_type is not consulted per cluster")
        return
    n, t = rcall
    tbl = R.self_attr(lk, "_table")
    env = dict(G.env)
    env.update(i=I, l2i=L2I)
    want_entry = ("sub", tbl, spec_expr("(l2i + i) * es // 8", env))
    want_bitmap = S.call(f"{lk}.bitmap", [("self", lk), spec_expr("l2i + i", env)])
    args = t[2]

    def dom(leaf, rng):
        if leaf == I:
            return rng.randrange(0, 4)
        return G.dom(leaf, rng)

    ok_e = len(args) == 4 and S.equiv(args[1], want_entry, domain=dom, n=60).equal is True
    chk.decide(ok_e, "K-PROV", "contiguous:entry-argument", n, "l2_entry is L2Table.entry(l2_index + i)",
               expected=S.show(want_entry)[:200], found=S.show(args[1])[:200] if len(args) == 4 else "?")
    ok_b = len(args) == 4 and S.equiv(args[2], want_bitmap, domain=dom, n=60).equal is True
    chk.decide(ok_b, "K-PROV", "contiguous:bitmap-argument", n, "l2_bitmap is L2Table.bitmap(l2_index + i), not the entry word",
               expected=S.show(want_bitmap)[:200], found=S.show(args[2])[:200] if len(args) == 4 else "?")
    first_sc = ("ite", S.cmp_("==", I, S.C(0)), SCI, S.C(0))
    ok_f = len(args) == 4 and S.equiv(args[3], first_sc, domain=dom, n=60).equal is True
    chk.decide(ok_f, "K-PROV", "contiguous:first-subcluster", n, "counting starts at sc_index in the first cluster and at 0 afterwards",
               found=S.show(args[3])[:200] if len(args) == 4 else "?")
    # the walk as a transition system: whatever variables carry "type of the run" / "host offset the next cluster must have" /
    # "is adjacency required", the decisions taken for a sequence of clusters must be QEMU's
    carried = loop_carried(chk, c, loop)
    cn, cinfo = carried_with_entry(chk, carried, S.C(0))
    if cinfo is None:
        chk.undecided("K-KIND", "contiguous:state-variables", loop, "cannot identify the accumulated count")
        return
    COUNT = cinfo["phi"]
    TYPE, CNT = ("sub", t, S.C(0)), ("sub", t, S.C(1))
    masked = S.op("and", args[1], S.C(OFFMASK))
    CHECKED = (ST["NORMAL"], ST["ZERO_ALLOC"], ST["UNALLOCATED_ALLOC"])
    spc, cs_ = 32, 65536
    fields = {("QCowHeader", 72): 16, ("QCowHeader", 20): 16}
    # what follows the first cluster: (same type?, host offset relative to the first cluster in clusters or None = adjacent, short?)
    FOLLOW = [(True, None, False), (True, +2, False), (True, 0, False), (False, None, False), (True, None, True)]
    bad = []
    ncase = 0
    undecided = None
    for t0 in range(6):
        for o0 in (0, 5 * cs_):
            for short0 in (False, True):
                for f1 in FOLLOW:
                    for f2 in FOLLOW[:3]:
                        seq = [(t0, o0, short0)]
                        for k, (same, rel, short) in enumerate((f1, f2), 1):
                            seq.append((t0 if same else (t0 + 1) % 6, o0 + (k if rel is None else k + 1 + rel) * cs_, short))
                        inputs = []
                        for k, (ty, off, short) in enumerate(seq):
                            cntv = 7 if short else spc - (2 if k == 0 else 0)
                            inputs.append({I: k, TYPE: S.EnumConst(ty), CNT: cntv, masked: off, SCI: 2})
                        rounds = simulate_loop(chk, c, loop, carried, inputs, fields=fields, watch=(cn,))
                        ncase += 1
                        total = 0
                        for k, ((ty, off, short), (state, visited, ex, at)) in enumerate(zip(seq, rounds)):
                            cntv = inputs[k][CNT]
                            if ex[0] in ("fork", "limit"):
                                undecided = f"cluster #{k} of {seq}: a test could not be evaluated at line {getattr(ex[1].ast, 'lineno', '?')}"
                                break
                            if k == 0 and ty == ST["COMPRESSED"]:
                                want = ("return", None)
                            elif k and ty != t0:
                                want = ("break", total)
                            elif k and ty in CHECKED and off != o0 + k * cs_:
                                want = ("break", total)
                            else:
                                total += cntv
                                want = ("break" if short else "back", total)
                            kind = ex[0] if ex[0] not in ("left", "continue") else "back"
                            got = (kind, None if kind == "return" else at.get(cn))
                            if got != want:
                                bad.append(f"clusters (type, host offset, short range) {seq[:k + 1]}: cluster #{k} -> {got[0]} with count {got[1]}, "
                                           f"specified {want[0]} with count {want[1]}")
                                break
                            if want[0] != "back":
                                break
                        if undecided:
                            break
                    if undecided:
                        break
    if undecided:
        chk.undecided("K-KIND", "contiguous:per-cluster-decision", loop, undecided)
    else:
        chk.decide(not bad, "K-KIND", "contiguous:per-cluster-decision", loop,
                   f"the decisions for cluster sequences (return for a compressed first cluster; stop on type change, on a host cluster "
                   f"that is not first + k*cluster_size for NORMAL / ZERO_ALLOC / UNALLOCATED_ALLOC runs, after a short range; count "
                   f"otherwise) equal QEMU's on {ncase} sequences, including runs that start at host offset 0" if not bad else "; ".join(bad[:3]))
    for x in ast.walk(loop):
        if isinstance(x, ast.AugAssign) and isinstance(x.target, ast.Name) and x.target.id == cn:
            v = R._name(c, x.target.id, c.cfg.node_of[x], {}, True, 0)
            chk.formula("K-KIND", "contiguous:count-advance", x, v, S.op("add", COUNT, CNT))
    outs = func_outcomes(chk, c)
    finals = [o for o in outs if o[0] == "return" and o[1] not in list(ast.walk(loop))]
    chk.decide(len(finals) == 1 and finals[0][3][0] in ("phi", "join", "ite") or (len(finals) == 1 and S.contains(finals[0][3], lambda x: x == COUNT)),
               "K-KIND", "contiguous:returns-count", c.func, "the function returns the accumulated count",
               found=S.show(finals[0][3])[:160] if finals else "no final return")
    inner = [o for o in outs if o[0] == "return" and o[1] in list(ast.walk(loop))]
    chk.decide(len(inner) == 1 and inner[0][3] == CNT, "K-KIND", "contiguous:compressed-returns-range-count", inner[0][1] if inner else loop,
               "a compressed first cluster returns its own sub-cluster count (never merged)")


def carried_name(carried, phi):
    for nm, inf in carried.items():
        if inf["phi"] == phi:
            return nm
    return None


def yield_runs(chk: Check, G: Geo):
    R = chk.R
    env, qk = dict(G.env), G.qk
    ctx = chk.func(REL, "QCow2._yield_runs")
    loops = loops_of(ctx)
    if not loops:
        raise AnalysisError("ANCHOR-VANISHED QCow2._yield_runs has no while loop")
    loop = loops[0]
    carried = loop_carried(chk, ctx, loop)
    pname, pinfo = carried_with_entry(chk, carried, ("p", ctx.qual, 1))
    rname, rinfo = carried_with_entry(chk, carried, ("p", ctx.qual, 2))
    if pinfo is None or rinfo is None:
        chk.undecided("K-SPLIT", "runs:loop-counters", loop, "cannot identify offset/length loop variables")
        return
    POS, REM = pinfo["phi"], rinfo["phi"]
    l1 = R.self_attr(qk, "l1_table")
    lk = chk.prog.cls(REL, "L2Table").key
    tbl = R.self_attr(lk, "_table")
    env.update(POS=POS, REM=REM)
    env["oic"] = spec_expr("POS % cs", env)
    env["l1i"] = spec_expr("POS >> (l2b + cb)", env)
    env["l2i"] = spec_expr("(POS >> cb) % l2n", env)
    env["sci"] = spec_expr("(POS >> scb) % spc", env)
    env["needed"] = spec_expr("min(REM + oic, (l2n - l2i) << cb)", env)
    env["L1E"] = ("sub", l1, env["l1i"])
    env["L2OFF"] = spec_expr("L1E & 0x00fffffffffffe00", env)
    L2T = S.call("new:" + lk, [("self", qk), env["L2OFF"]])
    env["ENTRY"] = ("sub", tbl, spec_expr("l2i * es // 8", env))
    SC = S.call(f"{REL}::count_contiguous_subclusters", [("self", qk), spec_expr("ceildiv(needed, cs)", env), env["sci"], L2T, env["l2i"]])
    env["SC"] = SC
    env["STEP3"] = spec_expr("min((SC + sci) << scb, needed) - oic", env)
    env["STEP1"] = spec_expr("needed - oic", env)

    def dom(leaf, rng):
        if leaf == REM:
            return rng.choice([1, 512, 65536, rng.randrange(1, 1 << 24)])
        if leaf == POS:
            return rng.randrange(0, 1 << 40)
        return G.dom(leaf, rng)

    # the contiguity count is an uninterpreted function of its arguments; draw its values from a small range so
    # that both arms of min(available, needed) are exercised
    dom.call_values = {f"{REL}::count_contiguous_subclusters": lambda h: 1 + h % 70}

    srcs = [s for s, _ in pinfo["next"]]
    scen = exit_scenarios(chk, ctx, loop, l1, POS, env)
    # the back edge after the L2 look-up is the one whose step mentions count_contiguous_subclusters
    for (src, pn), (src2, rn) in zip(pinfo["next"], rinfo["next"]):
        third = S.contains(pn, lambda x: isinstance(x, tuple) and x and x[0] == "call" and x[1].endswith("count_contiguous_subclusters"))
        tag = "allocated-l2" if third else "unallocated-l1"
        step = env["STEP3"] if third else env["STEP1"]
        # values on a back edge are compared on the valuations that reach it (its path condition)
        pc = conds_sym(chk, ctx, src.ast) if isinstance(src.ast, ast.AST) else None
        formula_on_path(chk, "K-SPLIT", f"runs:position-advance:{tag}", src.ast, pn, S.op("add", POS, step), dom, pc, scen)
        formula_on_path(chk, "K-SPLIT", f"runs:remaining-advance:{tag}", src2.ast, rn, S.op("sub", REM, step), dom, pc, scen)
    exit_partition(chk, ctx, loop, env, l1, POS, dom)
    # yields
    ys = [n for n in ast.walk(ctx.func) if isinstance(n, ast.Yield)]
    sttype = S.call(f"{REL}::get_subcluster_type", [("self", qk), env["ENTRY"], S.call(f"{lk}.bitmap", [("self", lk), env["l2i"]]), env["sci"]])
    for y in ys:
        node = ctx.cfg.node_for(y)
        t = R.expr(ctx, y.value, node)
        if not (t[0] == "tuple" and len(t[1]) == 4):
            chk.violated("K-PROV", "runs:tuple-shape", y, f"a run is not a 4-tuple: {S.show(t)[:160]}")
            continue
        ty, guest, host, cnt = t[1]
        third = S.contains(cnt, lambda x: isinstance(x, tuple) and x and x[0] == "call" and x[1].endswith("count_contiguous_subclusters"))
        chk.formula("K-PROV", f"runs:guest-offset-role:{'l2' if third else 'l1'}", y, guest, POS, domain=dom, n=40)
        ypc = conds_sym(chk, ctx, y)
        if not third:
            chk.decide(S.is_const(ty) and int(ty[1]) == ST["UNALLOCATED_PLAIN"], "K-DISPATCH", "runs:unallocated-l1-type", y,
                       "a missing L2 table yields an UNALLOCATED_PLAIN run", found=S.show(ty))
            formula_on_path(chk, "K-SPLIT", "runs:unallocated-l1-length", y, cnt, env["STEP1"], dom, ypc, scen)
        else:
            formula_on_path(chk, "K-SPLIT", "runs:l2-length", y, cnt, env["STEP3"], dom, ypc, scen)
            chk.decide(S.equiv(ty, sttype, domain=dom, n=40, assume=ypc).equal is True, "K-PROV", "runs:type<-get_subcluster_type", y,
                       "the run type is get_subcluster_type(entry(l2_index), bitmap(l2_index), sc_index) of the current offset",
                       expected=S.show(sttype)[:300], found=S.show(ty)[:300])
            # host offset per type: evaluate the branch structure that leads to the yield
            host_by_type(chk, G, ctx, loop, y, env, ty, dom)
    chk.decide(len(ys) >= 2, "K-PROV", "runs:yield-sites", ctx.func, f"{len(ys)} yield sites")
    # L1 look-up guarded and masked
    for n in ast.walk(loop):
        if isinstance(n, ast.Call):
            t = R.expr(ctx, n)
            if t[0] == "call" and t[1] == "new:" + lk:
                chk.formula("K-FORMULA", "runs:l2-table-offset", n, t[2][1], env["L2OFF"], domain=dom, n=40, assume=conds_sym(chk, ctx, n))


def exit_scenarios(chk: Check, ctx, loop, l1, POS, env):
    """(name, override, fields, classified?) for the three situations a round of the loop can be in."""
    R = chk.R
    lookups = []
    for y in [n for n in ast.walk(loop) if isinstance(n, ast.Yield)]:
        for c, _p in conds_sym(chk, ctx, y):
            for x in S.walk(c):
                if isinstance(x, tuple) and x and x[0] == "sub" and x[1] == l1 and x not in lookups:
                    lookups.append(x)
    if len(lookups) != 1:
        return None
    L1E = lookups[0]
    SPEC = env["L1E"]  # the specification's spelling of the same look-up gets the same value
    return L1E, [(nm, {**ov, **({SPEC: ov[L1E]} if L1E in ov else {})}, fl, th) for nm, ov, fl, th in [("L1 index beyond the table", {POS: (1 << 45) + 12345}, {("QCowHeader", 36): 0}, False),
                 ("empty L1 entry", {POS: (1 << 30) + 777, L1E: 0}, {("QCowHeader", 36): 1 << 31}, False),
                 ("empty L1 entry (flags only)", {POS: (1 << 30) + 777, L1E: 1 << 63}, {("QCowHeader", 36): 1 << 31}, False),
                 ("L1 entry with an L2 table", {POS: (1 << 30) + 777, L1E: 0x8000000000050000}, {("QCowHeader", 36): 1 << 31}, True)]]


def formula_on_path(chk: Check, kind, name, where, got, want, dom, pc, scen):
    """got == want at a program point: everywhere, or else on the valuations that reach the point (path condition pc),
    sampled at random and in each of the loop's situations."""
    r = S.equiv(got, want, domain=dom, n=60)
    if r.equal is False and pc:
        results = [S.equiv(got, want, domain=dom, n=40, assume=pc)]
        for _nm, ov, fl, _third in (scen[1] if scen else []):
            ov2 = {k: v for k, v in ov.items() if not (isinstance(k, tuple) and k and k[0] == "phi")}  # keep the position random
            results.append(S.equiv(got, want, domain=dom, n=30, assume=pc, override=ov2, fields=fl))
        bad = [x for x in results if x.equal is False]
        r = bad[0] if bad else (S.EqResult(True, "identity-testing on the path") if any(x.equal is True for x in results) else results[0])
    g, w = S.show(got), S.show(want)
    if r.equal is True:
        return chk.holds(kind, name, where, r.method, expected=w[:600], found=g[:600])
    if r.equal is False:
        wit = {k[:120]: (v if isinstance(v, (int, str, bool)) or v is None else repr(v)) for k, v in list((r.witness or {}).items())[:12]}
        return chk.violated(kind, name, where, f"terms differ, witness valuation {wit}", expected=w[:900], found=g[:900])
    return chk.undecided(kind, name, where, f"could not decide ({r.method})", expected=w[:600], found=g[:600])


def exit_partition(chk: Check, ctx, loop, env, l1, POS, dom):
    """Which run a round of the loop produces, by evaluating the yields' path conditions over the three situations
    {L1 index beyond the table, L1 entry empty, L1 entry points at an L2 table}: the first two produce the
    unallocated run (no count_contiguous_subclusters in its length), the third the classified run; never both, never none."""
    R = chk.R
    ys = [n for n in ast.walk(loop) if isinstance(n, ast.Yield)]
    sites = []
    for y in ys:
        t = R.expr(ctx, y.value, ctx.cfg.node_for(y))
        third = S.contains(t, lambda x: isinstance(x, tuple) and x and x[0] == "call" and x[1].endswith("count_contiguous_subclusters"))
        sites.append((y, third, conds_sym(chk, ctx, y)))
    sc = exit_scenarios(chk, ctx, loop, l1, POS, env)
    if sc is None:
        chk.undecided("K-SPLIT", "runs:exit-partition", loop, "expected exactly one L1 table look-up in the exit conditions")
        return
    L1E, cases = sc
    chk.formula("K-FORMULA", "runs:l1-index", loop, L1E[2], env["l1i"], domain=dom, n=40)
    bad = []
    for what, ov, fl, want_third in cases:
        for seed in (1, 2, 3):
            val = S.Valuation(seed, override=ov, fields=fl, domain=dom)
            hit = []
            for y, third, cs in sites:
                r = eval_conds(cs, val)
                if r:
                    hit.append(third)
            if hit != [want_third]:
                bad.append(f"{what}: reaches {['classified run' if h else 'unallocated run' for h in hit] or 'no yield'}, specified one {'classified' if want_third else 'unallocated'} run")
                break
    chk.decide(not bad, "K-SPLIT", "runs:exit-partition", loop,
               "beyond the L1 table / empty L1 entry -> one unallocated run; otherwise -> one classified run (evaluated over the three situations)"
               if not bad else "; ".join(bad[:3]))


def host_by_type(chk: Check, G: Geo, ctx, loop, y, env, sttype, dom):
    R = chk.R
    # find the first test after the classification that mentions the type, walk from there to the yield
    tests = [n for n in ast.walk(loop) if isinstance(n, ast.If) and S.contains(R.expr(ctx, n.test, ctx.cfg.node_of[n]), lambda x: x == sttype)]
    tests.sort(key=lambda n: n.lineno)
    ynode = ctx.cfg.node_for(y)
    if not tests:
        chk.violated("K-DISPATCH", "runs:host-offset-by-type", y, "the host offset does not depend on the run type")
        return
    start = ctx.cfg.node_of[tests[0]]
    hostname = y.value.elts[2].id if isinstance(y.value, ast.Tuple) and isinstance(y.value.elts[2], ast.Name) else None
    entry = env["ENTRY"]
    if hostname is None:
        # the third component is not a plain variable (a constructor call, an expression): its reconstructed value - a conditional
        # on the type tests - is compared per type instead of following the variable along the path
        t = R.expr(ctx, y.value, ynode)
        if not (t[0] == "tuple" and len(t[1]) == 4):
            chk.undecided("K-DISPATCH", "runs:host-offset-by-type", y, "cannot find the host offset component of the run")
            return
        bad = []
        for typ in range(6):
            if typ == ST["COMPRESSED"]:
                want = S.op("and", entry, S.C(0x3FFFFFFFFFFFFFFF))
            elif typ in (ST["NORMAL"], ST["ZERO_ALLOC"], ST["UNALLOCATED_ALLOC"]):
                want = S.op("add", S.op("and", entry, S.C(OFFMASK)), env["oic"])
            else:
                continue
            r = S.equiv(t[1][2], want, domain=dom, n=40, override={sttype: S.EnumConst(typ)})
            if r.equal is not True:
                bad.append(f"type {typ}: host offset {S.show(t[1][2])[:120]}, specified {S.show(want)[:120]}")
        chk.decide(not bad, "K-DISPATCH", "runs:host-offset-by-type", y,
                   "COMPRESSED -> entry & descriptor mask; NORMAL/ZERO_ALLOC/UNALLOCATED_ALLOC -> (entry & L2E_OFFSET_MASK) + offset in cluster"
                   if not bad else "; ".join(bad[:3]))
        return
    bad = []
    for typ in range(6):
        val = S.Valuation(3, override={sttype: S.EnumConst(typ)}, domain=dom)
        visited, ex = walk_cfg(chk, ctx, start, val, stop=lambda n: n is ynode)
        if ex[0] != "stop":
            bad.append(f"type {typ}: the yield is not reached ({ex[0]})")
            continue
        # last definition of the host variable along the path
        d = None
        for nd in visited:
            for df in ctx.cfg.defs_at[nd]:
                if df.name == hostname:
                    d = df
        if d is None:
            defs = ctx.cfg.rd_in[start].get(hostname, ())
            d = sorted(defs, key=lambda x: x.node.id)[-1] if defs else None
        got = R._def(ctx, d, {}, 0) if d is not None else S.unk("undefined")
        if typ == ST["COMPRESSED"]:
            want = S.op("and", entry, S.C(0x3FFFFFFFFFFFFFFF))
        elif typ in (ST["NORMAL"], ST["ZERO_ALLOC"], ST["UNALLOCATED_ALLOC"]):
            want = S.op("add", S.op("and", entry, S.C(OFFMASK)), env["oic"])
        else:
            want = None
        if want is not None:
            r = S.equiv(got, want, domain=dom, n=40)
            if r.equal is not True:
                bad.append(f"type {typ}: host offset {S.show(got)[:120]}, specified {S.show(want)[:120]}")
    chk.decide(not bad, "K-DISPATCH", "runs:host-offset-by-type", y,
               "COMPRESSED -> entry & descriptor mask; NORMAL/ZERO_ALLOC/UNALLOCATED_ALLOC -> (entry & L2E_OFFSET_MASK) + offset in cluster"
               if not bad else "; ".join(bad[:3]))


def read_dispatch(chk: Check, G: Geo):
    R = chk.R
    qk = G.qk
    ctx = chk.func(REL, "QCow2._read")
    floops = [l for l in ctx.loops if isinstance(l, ast.For)]
    if not floops:
        raise AnalysisError("ANCHOR-VANISHED QCow2._read has no loop over the runs")
    floop = floops[0]
    it = R.expr(ctx, floop.iter, ctx.cfg.node_of[floop], binds={"__exclude_loop__": floop})
    want_it = S.call(f"{qk}._yield_runs", [("self", qk), ("p", ctx.qual, 1), ("p", ctx.qual, 2)])
    chk.decide(it == want_it, "K-PROV", "read:runs-for-the-request", floop, "_read executes _yield_runs(offset, length)",
               expected=S.show(want_it), found=S.show(it)[:200])
    I = [("iter", it, i) for i in range(4)]
    fh = R.self_attr(qk, "fh")
    data = R.self_attr(qk, "data_file")
    backing = R.self_attr(qk, "backing_file")
    combos = [{"t": S.EnumConst(t), "b": b} for t in range(6) for b in (None, 1)]
    table = {(int(c["t"]), bool(c["b"])): set() for c in combos}
    ckey = f"{qk}._read_compressed"
    for call, t in appends_in(chk, ctx):
        conds = conds_sym(chk, ctx, call)
        reach = reach_table(conds, {"t": I[0], "b": backing}, combos)
        eff = classify_effect(t, None, backing)
        cls = eff[0]
        if cls == "PADDED":
            inner = eff[1]
            cls = "PARENT" if inner[0] == "PARENT" else inner[0]
        if cls == "FILE":
            cls = "DATA" if eff[1] == data or S.alternatives(eff[1]) == S.alternatives(data) else ("IMAGE" if eff[1] == fh else "FILE?")
        if cls == "CALL" and eff[1] == ckey:
            cls = "INFLATE"
        for cmb, hit in zip(combos, reach):
            if hit:
                table[(int(cmb["t"]), bool(cmb["b"]))].add(cls)
        if eff[0] == "ZEROS":
            chk.formula("K-SPLIT", "read:zeros-length", call, eff[1], I[3])
        elif eff[0] == "FILE":
            chk.formula("K-SPLIT", "read:data-length", call, eff[2], I[3])
        elif eff[0] == "PADDED":
            inner = eff[1]
            okp = inner[0] == "PARENT" and inner[1] == ".read" and len(inner[2]) == 1
            chk.decide(okp, "K-PATH", "backing-read-padded", call, "the backing read is padded to the run length (short backing file -> zeros)",
                       found=S.show(t)[:200])
            if okp:
                chk.formula("K-SPLIT", "read:backing-length", call, inner[2][0], I[3])
                pad = eff[2]
                chk.decide(len(pad) >= 1 and pad[0] == I[3] and (len(pad) < 2 or (S.is_const(pad[1]) and pad[1][1] in (b"\x00",))),
                           "K-PATH", "backing-pad-width", call, "padding is to run_length with zero bytes", found=str([S.show(p) for p in pad]))
        elif eff[0] == "PARENT":
            chk.violated("K-PATH", "backing-read-padded", call,
                         "the bytes read from the backing file reach the result without being padded to the run length: "
                         "a backing file shorter than the image shortens and shifts the returned data")
        elif eff[0] == "CALL" and eff[1] == ckey:
            args = eff[2]
            ok = len(args) == 4 and args[1] == I[2] and args[2] == I[1] and args[3] == I[3]
            chk.decide(ok, "K-PROV", "read:compressed-arguments", call,
                       "_read_compressed(descriptor = host offset role, guest offset, run length)", found=str([S.show(a)[-30:] for a in args]))
        else:
            chk.violated("K-DISPATCH", "read:unknown-effect", call, f"appended data of no known class: {S.show(t)[:160]}")
    want = {}
    for (t, b) in table:
        if t in (ST["ZERO_PLAIN"], ST["ZERO_ALLOC"]):
            w = {"ZEROS"}
        elif t in (ST["UNALLOCATED_PLAIN"], ST["UNALLOCATED_ALLOC"]):
            w = {"PARENT"} if b else {"ZEROS"}
        elif t == ST["NORMAL"]:
            w = {"DATA"}
        else:
            w = {"INFLATE"}
        want[(t, b)] = w
    chk.decide(table == want, "K-DISPATCH", "read:type-table", floop,
               "sub-cluster type x backing -> ZERO_*: zeros; UNALLOCATED_*: backing|zeros; NORMAL: data file; COMPRESSED: inflate",
               expected=str(sorted(map(str, want.items()))), found=str(sorted(map(str, table.items()))))
    for s in calls_named(ctx, "seek"):
        h = R.expr(ctx, s.func.value)
        t = R.expr(ctx, s.args[0])
        if h == backing:
            chk.formula("K-PROV", "read:backing-seek<-guest-offset", s, t, I[1])
        else:
            chk.decide(h == data, "K-PROV", "read:data-seek-handle", s, "allocated clusters are read from the data-file role (external data file or the image)",
                       found=S.show(h)[:160])
            chk.formula("K-PROV", "read:data-seek<-host-offset", s, t, I[2])
    _typestate(chk, ctx, "read")
    # data-file role
    env = dict(G.env)
    env.update(fh=("p", f"{REL}::QCow2.__init__", 1), df=("p", f"{REL}::QCow2.__init__", 2))
    chk.formula("K-DISPATCH", "data-file-role", chk.func(REL, "QCow2.__init__").func, data, spec_expr("df if inc & 4 else fh", env), domain=G.dom)


def compressed(chk: Check, G: Geo):
    R = chk.R
    qk, env = G.qk, dict(G.env)
    ctx = chk.func(REL, "QCow2._read_compressed")
    D, OFF, LEN = ("p", ctx.qual, 1), ("p", ctx.qual, 2), ("p", ctx.qual, 3)
    env.update(D=D, OFF=OFF, LEN=LEN)
    env["co"] = spec_expr("D & ((1 << (62 - (cb - 8))) - 1)", env)
    env["nb"] = spec_expr("((D >> (62 - (cb - 8))) & ((1 << (cb - 8)) - 1)) + 1", env)
    fh = R.self_attr(qk, "fh")

    def dom(leaf, rng):
        if leaf == D:
            return rng.randrange(0, 1 << 62)
        return G.dom(leaf, rng)

    for s in calls_named(ctx, "seek"):
        chk.formula("K-FORMULA", "compressed:address", s, R.expr(ctx, s.args[0]), env["co"], domain=dom)
        chk.decide(R.expr(ctx, s.func.value) == fh, "K-PROV", "compressed:from-image-handle", s, "compressed clusters live in the image file itself")
    for s in calls_named(ctx, "read"):
        chk.formula("K-FORMULA", "compressed:length", s, R.expr(ctx, s.args[0]), spec_expr("nb * 512 - (co & 511)", env), domain=dom)
    rets = [n for n in ast.walk(ctx.func) if isinstance(n, ast.Return)]
    if rets:
        t = R.expr(ctx, rets[-1].value, ctx.cfg.node_for(rets[-1]))
        ok = t[0] == "sub" and t[2][0] == "slice"
        chk.decide(ok, "K-FORMULA", "compressed:slice-shape", rets[-1], "the inflated cluster is sliced to the request", found=S.show(t)[:200])
        if ok:
            chk.formula("K-FORMULA", "compressed:slice-start", rets[-1], t[2][1], spec_expr("OFF % cs", env), domain=dom)
            chk.formula("K-FORMULA", "compressed:slice-end", rets[-1], t[2][2], spec_expr("OFF % cs + LEN", env), domain=dom)
            dkey = f"{qk}._decompress"
            # (a remembered earlier result - a benign memo, see rulelib._memo_store - may be an alternative: what is sliced must be,
            # where it is computed, the result of _decompress)
            alts = [a_ for a_ in S.alternatives(t[1])]
            computed = [a_ for a_ in alts if a_[0] == "call" and a_[1] == dkey]
            remembered = [a_ for a_ in alts if a_ not in computed and S.contains(a_, lambda y: isinstance(y, tuple) and y and y[0] in ("attr", "self"))
                          and not S.contains(a_, lambda y: isinstance(y, tuple) and y and y[0] == "call")]
            chk.decide(bool(computed) and len(computed) + len(remembered) == len(alts), "K-PROV", "compressed:inflate-call", rets[-1],
                       "data goes through _decompress", found=S.show(t[1])[:100])
    _typestate(chk, ctx, "compressed")
    # _decompress: zlib branch is a bounded raw-deflate inflate
    dctx = chk.func(REL, "QCow2._decompress")
    ctype = R.self_attr(qk, "compression_type")
    found = False
    for n in ast.walk(dctx.func):
        if isinstance(n, ast.Call) and isinstance(n.func, ast.Attribute) and n.func.attr == "decompress":
            t = R.expr(dctx, n)
            recv = t[2][0] if t[0] == "call" and t[2] else None
            if recv is not None and recv[0] == "call" and recv[1] == "ext:zlib.decompressobj":
                found = True
                wb = recv[2][0] if recv[2] else None
                chk.decide(wb == S.C(-12), "K-CONST", "inflate:raw-deflate-window", n,
                           "compressed clusters are raw deflate streams with a 4 KiB window (wbits = -12)", expected="-12", found=S.show(wb) if wb else "default")
                ml = t[2][2] if len(t[2]) > 2 else dict(t[3]).get("max_length")
                if ml is None:
                    chk.violated("K-BOUND", "inflate:bounded-by-cluster", n, "inflate without an output bound")
                else:
                    chk.formula("K-BOUND", "inflate:bounded-by-cluster", n, ml, G.env["cs"], domain=G.dom)
                conds = conds_sym(chk, dctx, n)
                tab = reach_table(conds, {"c": ctype}, [{"c": 0}, {"c": 1}, {"c": 2}])
                chk.decide(tab == [True, False, False], "K-DISPATCH", "inflate:zlib-for-type-0", n, "zlib is used for compression type 0 only", found=str(tab))
    if not found:
        chk.violated("K-BOUND", "inflate:bounded-by-cluster", dctx.func, "no zlib.decompressobj(...).decompress(buf, max_length) in _decompress")
