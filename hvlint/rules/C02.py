"""C02 - VMDK: every byte range of a sparse/flat extent reads as guest content (structural clauses)."""
from __future__ import annotations

import ast

from .. import sym as S
from ..engine import Check
from ..loader import AnalysisError
from ..program import CType
from ..rulelib import (_byte_to_sector, _typestate, appends_in, calls_named, carried_with_entry, check_const,
                       check_layout, classify_effect, conds_sym, dead_reads, eval_conds, field_map, func_eval,
                       func_outcomes, loop_carried, loops_of, reach_table, self_stores, spec_expr)

LEVEL = "other"
TECHNIQUE = ("static analysis: layout comparison, per-extent-kind scenario evaluation of reconstructed geometry terms, "
             "decision tables of the loop-free grain look-up, run-coalescer merge predicate over grain kinds, "
             "split-loop step/advance formulas, liveness of open-time reads")
EXPLANATION = (
    "Decides necessary structural conditions of byte-exact VMDK extent reads: hosted sparse / COWD / SE-sparse header and "
    "grain-marker layouts (positional), magics and flag bits, the footer rule (grain directory offset == all ones => "
    "header re-read 1024 bytes before the end), per kind: directory size (ceil(capacity/(gtes*grain)), stored count, "
    "size*512/8), table size, entry width (32/64 bit), directory address, capacity*512; grain table address incl. the "
    "SE-sparse directory entry check (& 0xFFFFFFFF00000000 == 0x1000000000000000) and low-32 index; the SE-sparse grain "
    "entry decision table (types 0,1 -> unallocated, 2 -> zero, 3 -> grains_offset + ((e>>48)&0xFFF | (e&0xFFFFFFFFFFFF)<<12)"
    "*grain_size, else raise); get_runs split step min(count, grain - sector%grain) on both counters and its merge "
    "predicate over {unallocated, zero, allocated} x adjacency; read_sectors dispatch {0: parent|zeros, 1: zeros, >1: "
    "file | per-grain inflate} with addresses (grain+offset)*512 and lengths count*512, the compressed inner loop "
    "(offset zeroed, grain advanced, count reduced on every iteration), compressed grain header decoding, flat extent "
    "addressing, byte->sector conversion, seek-before-read, no dead open-time read. Does NOT decide byte equality with "
    "guest content or zlib stream validity."
)
ASSUMPTIONS = ["terms are compared by normal form and randomised identity testing over integer valuations of their atoms",
               "the SE-sparse format has no public specification beyond QEMU block/vmdk.c, which the tables follow"]

REL, CREL = "disk/vmdk.py", "disk/c_vmdk.py"
KDMV, COWD, SEMAGIC = b"KDMV", b"COWD", b"\xbe\xba\xfe\xca"


class Kinds:
    """Scenario support: the three sparse header kinds as the code sees them."""

    def __init__(self, chk: Check):
        R = chk.R
        self.chk = chk
        hk = chk.prog.cls(REL, "SparseExtentHeader").key
        hdr = R.self_attr(hk, "hdr")
        self.insts = {}
        for a in S.alternatives(hdr):
            if a[0] == "inst":
                self.insts[a[1]] = a
        for need in ("VMDKSparseExtentHeader", "COWDSparseExtentHeader", "VMDKSESparseConstHeader"):
            if need not in self.insts:
                raise AnalysisError(f"ANCHOR-VANISHED SparseExtentHeader does not read a {need}")
        # the peeked magic that selects the struct
        self.peeks = []
        for x in S.walk(hdr):
            if isinstance(x, tuple) and x and x[0] == "cmp" and x[2][0] == "call" and x[2][1] == ".read" and x[2] not in self.peeks:
                self.peeks.append(x[2])
        self.struct = {"KDMV": "VMDKSparseExtentHeader", "COWD": "COWDSparseExtentHeader", "SE": "VMDKSESparseConstHeader"}

    def scenario(self, kind):
        magic = {"KDMV": KDMV, "COWD": COWD, "SE": SEMAGIC}[kind]
        override = {p: magic for p in self.peeks}
        fields = {("VMDKSparseExtentHeader", 0): KDMV, ("COWDSparseExtentHeader", 0): COWD,
                  ("VMDKSESparseConstHeader", 0): 0xCAFEBABE}
        return override, fields

    def F(self, kind, specfield):
        st = self.struct[kind]
        _, fm = field_map(self.chk, CREL, st)
        return self.chk.R.field(self.insts[st], fm[specfield].name)


def run(chk: Check):
    R = chk.R
    for name in ("VMDKSparseExtentHeader", "COWDSparseExtentHeader", "VMDKSESparseConstHeader",
                 "SparseGrainLBAHeaderOnDisk", "SparseSpecialLBAHeaderOnDisk"):
        check_layout(chk, CREL, name)
    for name, val in (("SECTOR_SIZE", 512), ("COWD_MAGIC", COWD), ("VMDK_MAGIC", KDMV), ("SESPARSE_MAGIC", SEMAGIC),
                      ("SESPARSE_CONST_HEADER_MAGIC", 0xCAFEBABE), ("SPARSEFLAG_COMPRESSED", 0x10000),
                      ("SPARSEFLAG_EMBEDDED_LBA", 0x20000), ("SESPARSE_GRAIN_TYPE_MASK", 0xF << 60),
                      ("SESPARSE_GRAIN_TYPE_UNALLOCATED", 0), ("SESPARSE_GRAIN_TYPE_FALLTHROUGH", 1 << 60),
                      ("SESPARSE_GRAIN_TYPE_ZERO", 2 << 60), ("SESPARSE_GRAIN_TYPE_ALLOCATED", 3 << 60)):
        check_const(chk, CREL, name, val)
    K = Kinds(chk)
    sk = chk.prog.cls(REL, "SparseDisk").key
    init = chk.func(REL, "SparseDisk.__init__")

    def dom(leaf, rng):
        if leaf[0] == "f" and leaf[1] == "VMDKSparseExtentHeader" and leaf[2] == 44:
            return rng.choice([512, 512, 256, 4096])
        if leaf[0] == "f" and leaf[2] in (20, 16, 24) and "Header" in leaf[1]:
            return rng.choice([128, 16, 8, 2048, 1])
        return None

    # ---- geometry per extent kind -------------------------------------------------------------
    geo = {
        "KDMV": dict(gd_size="ceildiv(capacity, num_gtes_per_gt * grain_size)", gt_size="num_gtes_per_gt",
                     gd_addr="gd_offset * 512", size="capacity * 512", sectors="capacity", width="uint32"),
        "COWD": dict(gd_size="num_gd_entries", gt_size="4096", gd_addr="gd_offset * 512", size="capacity * 512",
                     sectors="capacity", width="uint32"),
        "SE": dict(gd_size="grain_directory_size * 512 // 8", gt_size="grain_table_size * 512 // 8",
                   gd_addr="grain_directory_offset * 512", size="capacity * 512", sectors="capacity", width="uint64"),
    }
    code = {"gd_size": R.self_attr(sk, "_grain_directory_size"), "gt_size": R.self_attr(sk, "_grain_table_size"),
            "size": R.self_attr(sk, "size"), "sectors": R.self_attr(sk, "sector_count")}
    # the directory read: last seek of __init__ whose argument is not constant
    gdseek = [s for s in calls_named(init, "seek") if not S.is_const(R.expr(init, s.args[0]))]
    gdseek = [s for s in gdseek if "descriptor" not in ast.unparse(s)]
    code["gd_addr"] = R.expr(init, gdseek[-1].args[0]) if gdseek else S.unk("no-directory-seek")
    etype = R.self_attr(sk, "_grain_entry_type")
    for kind, spec in geo.items():
        ov, fl = K.scenario(kind)
        st = K.struct[kind]
        _, fm = field_map(chk, CREL, st)
        env = {n: R.field(K.insts[st], f.name) for n, f in fm.items()}
        for role in ("gd_size", "gt_size", "gd_addr", "size", "sectors"):
            want = spec_expr(spec[role], env)
            res = S.equiv(code[role], want, domain=dom, n=80, override=ov, fields=fl)
            where = gdseek[-1] if role == "gd_addr" and gdseek else init.func
            if res.equal is True:
                chk.holds("K-FORMULA", f"{kind}:{role}", where, f"= {spec[role]} ({res.method})", expected=spec[role])
            elif res.equal is False:
                chk.violated("K-FORMULA", f"{kind}:{role}", where,
                             f"for a {kind} extent the {role} differs from {spec[role]}; witness {_small(res.witness)}",
                             expected=spec[role], found=S.show(code[role])[:500])
            else:
                chk.undecided("K-FORMULA", f"{kind}:{role}", where, f"cannot evaluate ({res.method})")
        try:
            v = S.ev(etype, S.Valuation(1, override=ov, fields=fl))
            name = v.name if isinstance(v, CType) else repr(v)
        except S.EvalError:
            name = "?"
        chk.decide(name == spec["width"], "K-CONST", f"{kind}:entry-width", init.func,
                   f"grain directory / table entries of a {kind} extent are {spec['width']}", expected=spec["width"], found=name)
    # the directory is read as entry_type[gd_size] after that seek
    gd = R.self_attr(sk, "_grain_directory")
    chk.decide(S.contains(gd, lambda x: x == code["gd_size"]) and S.contains(gd, lambda x: x == etype), "K-FORMULA",
               "directory-shape", init.func, "the grain directory is read as entry_type[directory_size]", found=S.show(gd)[:200])

    # ---- footer ----------------------------------------------------------------------------------
    fseek = [s for s in calls_named(init, "seek") if len(s.args) == 2 and S.is_const(R.expr(init, s.args[0]))
             and R.expr(init, s.args[0])[1] not in (0,)]
    if not fseek:
        chk.violated("K-CONST", "footer-location", init.func, "no seek to the footer (-1024 from the end)")
    else:
        a, w = R.expr(init, fseek[0].args[0]), R.expr(init, fseek[0].args[1])
        chk.decide((a, w) == (S.C(-1024), S.C(2)), "K-CONST", "footer-location", fseek[0],
                   "the footer is read 1024 bytes before the end of the file", expected="(-1024, SEEK_END)", found=f"({S.show(a)}, {S.show(w)})")
        gdo = K.F("KDMV", "gd_offset")
        ov, fl = K.scenario("KDMV")
        conds = conds_sym(chk, init, fseek[0])
        tab = {}
        for v in (0, 1, 21, (1 << 63), (1 << 64) - 2, (1 << 64) - 1, 0xFFFFFFFF, 0xFFFFFFFF00000000, (1 << 63) - 1, 0x1FFFFFFFF):
            f2 = dict(fl)
            f2[(gdo[1], gdo[2])] = v
            tab[v] = eval_conds(conds, S.Valuation(1, override=ov, fields=f2))
        want = {v: v == (1 << 64) - 1 for v in tab}
        chk.decide(tab == want, "K-DISPATCH", "footer-condition", fseek[0],
                   "the footer is consulted iff the header's grain directory offset is 0xFFFFFFFFFFFFFFFF (GD_AT_END)",
                   expected=str(want), found=str(tab))
        # and not for SE-sparse
        ov, fl = K.scenario("SE")
        chk.decide(eval_conds(conds, S.Valuation(1, override=ov, fields=fl)) is False, "K-DISPATCH", "footer-only-hosted", fseek[0],
                   "SE-sparse extents have no footer")
    # header (re-)reads happen at a defined position
    hk = chk.prog.cls(REL, "SparseExtentHeader").key
    extra = []
    for n in ast.walk(init.func):
        if isinstance(n, ast.Call):
            t = R.expr(init, n)
            if t[0] == "call" and t[1] == "new:" + hk and n.args:
                extra.append((n, R.expr(init, n.args[0])))
    res = _typestate(chk, init, "open", allow_end=True, extra=extra)
    from ..rulelib import check_superseded

    check_superseded(chk, ["disk/vmdk.py"])
    for n, why in dead_reads(chk, init):
        chk.violated("K-LIVE", "dead-read", n, why)
    if not dead_reads(chk, init):
        chk.holds("K-LIVE", "dead-read", init.func, "every value read from the file at open time is used before it is overwritten")
    # descriptor
    dseek = [s for s in calls_named(init, "seek") if "descriptor" in ast.unparse(s)]
    if dseek:
        env = {"off": K.F("KDMV", "descriptor_offset"), "size": K.F("KDMV", "descriptor_size")}
        ov, fl = K.scenario("KDMV")
        _scen(chk, "K-FORMULA", "descriptor-address", dseek[0], R.expr(init, dseek[0].args[0]), spec_expr("off * 512", env), ov, fl)
        dread = [r for r in calls_named(init, "read") if "descriptor" in ast.unparse(r)]
        if dread:
            _scen(chk, "K-FORMULA", "descriptor-length", dread[0], R.expr(init, dread[0].args[0]), spec_expr("size * 512", env), ov, fl)

    lookup_tables(chk, K, sk, code, etype, dom)
    lookup_grain(chk, K, sk, code, dom)
    get_runs(chk, K, sk, dom)
    read_sectors(chk, K, sk, dom)
    compressed_grain(chk, K, sk)

    # ---- flat extents and the byte interface ---------------------------------------------------------
    ctx = chk.func(REL, "RawDisk.read_sectors")
    rk = chk.prog.cls(REL, "RawDisk").key
    env = {"sector": ("p", ctx.qual, 1), "count": ("p", ctx.qual, 2), "so": R.self_attr(rk, "sector_offset")}
    for s in calls_named(ctx, "seek"):
        chk.formula("K-FORMULA", "flat:seek", s, R.expr(ctx, s.args[0]), spec_expr("(sector - so) * 512", env))
    for s in calls_named(ctx, "read"):
        chk.formula("K-FORMULA", "flat:read-length", s, R.expr(ctx, s.args[0]), spec_expr("count * 512", env))
    _typestate(chk, ctx, "flat")
    ictx = chk.func(REL, "RawDisk.__init__")
    SZ, FHp = ("p", ictx.qual, 2), ("p", ictx.qual, 1)
    size_t = R.self_attr(rk, "size")
    alts = S.alternatives(size_t)
    ok_sz = SZ in alts and any(a[0] == "call" and a[1] == ".tell" and a[2][0] == FHp for a in alts) and len(alts) == 2
    chk.decide(ok_sz, "K-FORMULA", "flat:size", ictx.func, "a flat extent's size is the descriptor's size when given, else the file size (seek to END, tell)",
               found=S.show(size_t)[:200])
    if size_t[0] == "ite":
        tab = {}
        for v in (None, 0, 512, 1 << 40):
            try:
                tab[v] = S.ev(size_t, S.Valuation(1, override={SZ: v, S.call(".tell", [FHp]): 777}))
            except S.EvalError:
                tab[v] = "?"
        chk.decide(tab == {None: 777, 0: 777, 512: 512, 1 << 40: 1 << 40}, "K-DISPATCH", "flat:size-source", ictx.func,
                   "the given size wins; only a missing size falls back to the file size", found=str(tab))
    ends = [s_ for s_ in calls_named(ictx, "seek") if len(s_.args) == 2]
    okend = any(R.expr(ictx, s_.args[0]) == S.C(0) and R.expr(ictx, s_.args[1]) == S.C(2) for s_ in ends)
    chk.decide(okend, "K-CONST", "flat:file-size-probe", ictx.func, "the file size is probed with seek(0, SEEK_END)")
    sc = R.self_attr(rk, "sector_count")
    chk.formula("K-FORMULA", "flat:sector-count", ictx.func, sc, S.op("floordiv", size_t, S.C(512)))
    if chk.prog.has_func(REL, "ZeroDisk.__init__"):
        zk = chk.prog.cls(REL, "ZeroDisk").key
        zctx = chk.func(REL, "ZeroDisk.__init__")
        chk.formula("K-FORMULA", "zero:sector-count", zctx.func, R.self_attr(zk, "sector_count"), S.op("floordiv", ("p", zctx.qual, 1), S.C(512)))
        chk.decide(R.self_attr(zk, "size") == ("p", zctx.qual, 1), "K-FORMULA", "zero:size", zctx.func, "a zero extent's size is the size it is created with")
        rz = chk.func(REL, "ZeroDisk.read_sectors")
        from ..rulelib import func_outcomes, zeros_len
        outs = func_outcomes(chk, rz)
        z = zeros_len(outs[0][3]) if outs else None
        chk.decide(z is not None and S.equiv(z, S.op("mul", ("p", rz.qual, 2), S.C(512)), n=20).equal is True, "K-FORMULA", "zero:read", rz.func,
                   "a zero extent reads as count * 512 zero bytes")
    _byte_to_sector(chk, REL, "VMDK._read", S.C(512))
    for q in ("VMDK._read", "VMDK.read_sectors", "RawDisk.read_sectors", "SparseDisk.read_sectors", "SparseDisk.get_runs",
              "SparseDisk._lookup_grain", "SparseDisk._lookup_grain_table", "SparseDisk._read_compressed_grain"):
        c = chk.func(REL, q)
        st = self_stores(c.func)
        chk.decide(not st, "K-PURE", f"no-self-store:{q}", st[0][0] if st else c.func,
                   "read path does not store to self" if not st else st[0][1], nontrivial=False)
    chk.require("K-FORMULA", 25)
    chk.require("K-LAYOUT", 5)
    chk.require("K-SPLIT", 6)
    chk.require("K-DISPATCH", 4)


def _small(w):
    return {k[:60]: v for k, v in list((w or {}).items())[:6]}


def _scen(chk, kind, name, where, got, want, ov, fl, dom=None):
    res = S.equiv(got, want, domain=dom, n=80, override=ov, fields=fl)
    if res.equal is True:
        return chk.holds(kind, name, where, res.method, expected=S.show(want)[:300], found=S.show(got)[:300])
    if res.equal is False:
        return chk.violated(kind, name, where, f"terms differ; witness {_small(res.witness)}", expected=S.show(want)[:500], found=S.show(got)[:500])
    return chk.undecided(kind, name, where, f"cannot evaluate ({res.method})")


# -----------------------------------------------------------------------------------------------------


def lookup_tables(chk: Check, K: Kinds, sk, code, etype, dom):
    R = chk.R
    ctx = chk.func(REL, "SparseDisk._lookup_grain_table")
    outcomes = func_outcomes(chk, ctx)
    gd = R.self_attr(sk, "_grain_directory")
    D = ("p", ctx.qual, 1)
    entry = ("sub", gd, D)
    gto = K.F("SE", "grain_tables_offset")
    gts = K.F("SE", "grain_table_size")
    # which seek belongs to which kind, and the table address
    for s in calls_named(ctx, "seek"):
        conds = conds_sym(chk, ctx, s)
        t = R.expr(ctx, s.args[0])
        for kind in ("KDMV", "COWD", "SE"):
            ov, fl = K.scenario(kind)
            tab = {}
            vals = (0, 5, 0x1000000000000007, 0x1000000100000007, 0x2000000000000007, 0x0000000000000007) if kind == "SE" else (0, 5, 1 << 31)
            for v in vals:
                o2 = dict(ov)
                o2[entry] = v
                tab[v] = eval_conds(conds, S.Valuation(1, override=o2, fields=fl))
            if not any(tab.values()):
                continue
            if kind == "SE":
                want = {v: v != 0 and (v & 0xFFFFFFFF00000000) == 0x1000000000000000 for v in tab}
                chk.decide(tab == want, "K-DISPATCH", "SE:table-allocated-check", s,
                           "an SE-sparse grain table is present iff the directory entry's top 32 bits are 0x10000000",
                           expected=str(want), found=str(tab))
                env = {"e": entry, "gto": gto, "gts": gts}
                o2 = dict(ov)
                _scen(chk, "K-FORMULA", "SE:table-address", s, t,
                      spec_expr("(gto + (e & 0xFFFFFFFF) * ((gts * 512 // 8) * 8) // 512) * 512", env), o2, fl,
                      dom=lambda l, r: (0x1000000000000000 | r.randrange(0, 1 << 32)) if l == entry else dom(l, r))
            else:
                want = {v: v != 0 for v in tab}
                chk.decide(tab == want, "K-DISPATCH", f"{kind}:table-allocated-check", s,
                           "a grain table is present iff its directory entry is non-zero", expected=str(want), found=str(tab))
                _scen(chk, "K-FORMULA", f"{kind}:table-address", s, t, S.op("mul", entry, S.C(512)), ov, fl)
    # the table read has shape entry_type[table_size]; absent table -> None
    reads, shapes = [], []
    for n in ast.walk(ctx.func):
        if isinstance(n, ast.Call):
            t = R.expr(ctx, n, ctx.cfg.node_for(n))
            if t[0] == "read":
                reads.append(n)
                if S.contains(t, lambda x: x == code["gt_size"]) and S.contains(t, lambda x: x == etype):
                    shapes.append(n)
    # what the function hands back: None for an absent table, otherwise one of those reads
    vals = [a for o in func_outcomes(chk, ctx) if o[0] == "return" for a in S.alternatives(o[3])]
    okv = bool(vals) and all(a == S.C(None) or (a[0] == "read" and S.contains(a, lambda x: x == code["gt_size"]) and S.contains(a, lambda x: x == etype)) for a in vals) \
        and any(a == S.C(None) for a in vals) and any(a != S.C(None) for a in vals)
    chk.decide(bool(shapes) and len(shapes) == len(reads) and okv, "K-FORMULA", "table-shape", ctx.func,
               f"{len(shapes)} of {len(reads)} table reads have the shape entry_type[table_size]; the function returns such a table or None",
               found=str([S.show(a)[:80] for a in vals]))
    _typestate(chk, ctx, "grain-table")
    init = chk.func(REL, "SparseDisk.__init__")
    memo = any(isinstance(v, ast.Call) and "lru_cache" in ast.unparse(v.func) for (m, st, v) in chk.prog.cls(REL, "SparseDisk").self_assigns.get("_lookup_grain_table", []))
    chk.decide(memo, "K-PURE", "grain-table-memoised", init.func, "grain tables are loaded on demand through an LRU cache", nontrivial=False)


def _se_ref(e, grains_offset, grain_size):
    """Specified decoding of an SE-sparse grain table entry (QEMU block/vmdk.c) -> sector | 'raise'."""
    t = e >> 60
    if t in (0, 1):
        return 0
    if t == 2:
        return 1
    if t == 3:
        return grains_offset + (((e & 0x0FFF000000000000) >> 48) | ((e & 0x0000FFFFFFFFFFFF) << 12)) * grain_size
    return "raise"


def lookup_grain(chk: Check, K: Kinds, sk, code, dom):
    R = chk.R
    ctx = chk.func(REL, "SparseDisk._lookup_grain")
    outcomes = func_outcomes(chk, ctx)
    G = ("p", ctx.qual, 1)
    tkey = f"{sk}._lookup_grain_table"
    # the table look-up and the entry index
    table = None
    entry = None
    for kind_, stmt, conds, v in outcomes:
        for term in [v] + [c for c, _ in conds]:
            if term is None:
                continue
            for x in S.walk(term):
                if isinstance(x, tuple) and x and x[0] == "call" and x[1] == tkey and table is None:
                    table = x
                if isinstance(x, tuple) and x and x[0] == "sub" and x[1][0] == "call" and x[1][1] == tkey and entry is None:
                    entry = x
    if table is None or entry is None:
        chk.undecided("K-FORMULA", "grain-index-split", ctx.func, "cannot find table = _lookup_grain_table(..) / table[..]")
        return
    for kind in ("KDMV", "SE"):
        ov, fl = K.scenario(kind)
        env = {"grain": G, "gt": code["gt_size"]}
        _scen(chk, "K-FORMULA", f"{kind}:directory-index", ctx.func, table[2][1], spec_expr("grain // gt", env), ov, fl, dom)
        _scen(chk, "K-FORMULA", f"{kind}:table-index", ctx.func, entry[2], spec_expr("grain % gt", env), ov, fl, dom)
    # decision table
    go, gs = K.F("SE", "grains_offset"), K.F("SE", "grain_size")
    bad = []
    n = 0
    for kind in ("KDMV", "COWD", "SE"):
        ov, fl = K.scenario(kind)
        probes = [0, 1, 2, 128, 0xFFFFFFFF] if kind != "SE" else [
            (t << 60) | p for t in range(16) for p in (0, 1, 0x0000000000000ABC, 0x0FFF000000000000, 0x0123000000456789, 0x0FFFFFFFFFFFFFFF)]
        for have_table in (True, False):
            for e in probes:
                o2 = dict(ov)
                o2[table] = (1, 2, 3) if have_table else None
                o2[entry] = e
                f2 = dict(fl)
                f2[(go[1], go[2])] = 0x100000
                f2[(gs[1], gs[2])] = 8
                got = func_eval(outcomes, S.Valuation(1, override=o2, fields=f2))
                if not have_table:
                    want = ("return", 0)
                elif kind != "SE":
                    want = ("return", e)
                else:
                    r = _se_ref(e, 0x100000, 8)
                    want = ("raise",) if r == "raise" else ("return", r)
                n += 1
                if got[:2] != want[:2] and not (got[0] == "raise" and want[0] == "raise"):
                    bad.append(f"{kind} table={'yes' if have_table else 'no'} entry={e:#x}: {got[0]} {got[1] if got[0]=='return' else ''}, specified {want}")
    chk.decide(not bad, "K-DISPATCH", "grain-entry-table", ctx.func,
               f"grain look-up decision table over {n} (kind, table present, entry) cases equals the specification"
               if not bad else "; ".join(bad[:3]))


def get_runs(chk: Check, K: Kinds, sk, dom):
    R = chk.R
    ctx = chk.func(REL, "SparseDisk.get_runs")
    loops = loops_of(ctx)
    if not loops:
        raise AnalysisError("ANCHOR-VANISHED SparseDisk.get_runs has no while loop")
    loop = loops[0]
    carried = loop_carried(chk, ctx, loop)
    so = R.self_attr(sk, "sector_offset")
    pname, pinfo = carried_with_entry(chk, carried, S.op("sub", ("p", ctx.qual, 1), so))
    rname, rinfo = carried_with_entry(chk, carried, ("p", ctx.qual, 2))
    if pinfo is None or rinfo is None:
        chk.undecided("K-SPLIT", "runs:loop-counters", loop, "cannot identify sector/count loop variables "
                      "(position must start at sector - sector_offset)")
        return
    POS, REM = pinfo["phi"], rinfo["phi"]
    hk = chk.prog.cls(REL, "SparseExtentHeader").key
    gsz = R.attr(R.self_attr(sk, "header"), "grain_size")
    lkey = f"{sk}._lookup_grain"
    env = {"POS": POS, "REM": REM, "gs": gsz}
    env["STEP"] = spec_expr("min(REM, gs - POS % gs)", env)

    def dom2(leaf, rng):
        if leaf == REM:
            return rng.choice([1, 8, 128, 4096, rng.randrange(1, 1 << 20)])
        if leaf[0] == "f" and leaf[2] in (20, 16, 24):
            return rng.choice([128, 16, 8, 2048, 1])
        return dom(leaf, rng)

    for kind in ("KDMV", "SE"):
        ov, fl = K.scenario(kind)
        for src, nxt in pinfo["next"]:
            _scen(chk, "K-SPLIT", f"runs:position-advance:{kind}", loop, nxt, spec_expr("POS + STEP", env), ov, fl, dom2)
        for src, nxt in rinfo["next"]:
            _scen(chk, "K-SPLIT", f"runs:remaining-advance:{kind}", loop, nxt, spec_expr("REM - STEP", env), ov, fl, dom2)
    # the grain looked up is POS // grain_size
    ov, fl = K.scenario("KDMV")
    look = None
    for n in ast.walk(loop):
        if isinstance(n, ast.Call):
            t = R.expr(ctx, n)
            if t[0] == "call" and t[1] == lkey:
                look = t
                _scen(chk, "K-FORMULA", "runs:grain-index", n, t[2][1], spec_expr("POS // gs", env), ov, fl, dom2)
    if look is None:
        chk.undecided("K-FORMULA", "runs:grain-index", loop, "no _lookup_grain call in the loop")
        return
    run_machine(chk, ctx, loop, carried, pname, rname, POS, REM, look, so, gsz, ov, fl)
    _typestate(chk, ctx, "get-runs")


def _branch_of(stmt):
    from ..loader import parent as _parent

    p = _parent(stmt)
    for fld_ in ("body", "orelse"):
        blk = getattr(p, fld_, None)
        if isinstance(blk, list) and stmt in blk:
            return blk
    return []


def read_sectors(chk: Check, K: Kinds, sk, dom):
    R = chk.R
    ctx = chk.func(REL, "SparseDisk.read_sectors")
    floops = [l for l in ctx.loops if isinstance(l, ast.For)]
    if not floops:
        raise AnalysisError("ANCHOR-VANISHED SparseDisk.read_sectors has no loop over the runs")
    floop = floops[0]
    it = R.expr(ctx, floop.iter, ctx.cfg.node_of[floop], binds={"__exclude_loop__": floop})
    want_it = S.call(f"{sk}.get_runs", [("self", sk), ("p", ctx.qual, 1), ("p", ctx.qual, 2)])
    chk.decide(it == want_it, "K-PROV", "read:runs-for-the-request", floop, "read_sectors executes get_runs(sector, count)",
               expected=S.show(want_it), found=S.show(it)[:200])
    I = [("iter", it, i) for i in range(4)]
    fh = R.self_attr(sk, "fh")
    parent = R.self_attr(sk, "parent")
    flags = R.attr(R.self_attr(sk, "header"), "flags")
    gsz = R.attr(R.self_attr(sk, "header"), "grain_size")
    ov, fl = K.scenario("KDMV")
    wloops = [l for l in ctx.loops if isinstance(l, ast.While)]
    combos = [{"t": t, "parent": p, "flags": f} for t in (0, 1, 2, 1000) for p in (None, 1) for f in (0, 0x10000, 0x30001, 3)]
    table = {(c["t"], bool(c["parent"]), bool(c["flags"] & 0x10000)): set() for c in combos}
    for call, t in appends_in(chk, ctx):
        effs = classify_effect(t, fh, parent)
        effs = effs[1] if effs[0] == "JOIN" else [effs]
        conds = conds_sym(chk, ctx, call, kinds=("if", "prior"))
        in_while = any(call in list(ast.walk(w)) for w in wloops)
        for c in combos:
            o2 = dict(ov)
            o2.update({I[0]: c["t"], parent: c["parent"]})
            f2 = dict(fl)
            f2[("VMDKSparseExtentHeader", 8)] = c["flags"]
            # inside the compressed loop the run type is the loop-carried copy of I[0]
            for x in {y for cc, _ in conds for y in S.walk(cc) if isinstance(y, tuple) and y and y[0] == "phi" and y[3] == I[0]}:
                o2[x] = c["t"]
            hit = eval_conds(conds, S.Valuation(1, override=o2, fields=f2))
            if hit:
                for e in effs:
                    if len(effs) > 1:
                        # a JOIN of parent|zeros from one append: split by the parent truthiness
                        if (e[0] == "PARENT") != bool(c["parent"]):
                            continue
                    table[(c["t"], bool(c["parent"]), bool(c["flags"] & 0x10000))].add(e[0] if e[0] != "CALL" else "INFLATE")
        for e in effs:
            if e[0] == "ZEROS":
                chk.formula("K-SPLIT", "read:zeros-length", call, e[1], S.op("mul", I[2], S.C(512)))
            elif e[0] == "FILE":
                chk.formula("K-SPLIT", "read:raw-length", call, e[2], S.op("mul", I[2], S.C(512)))
            elif e[0] == "PARENT":
                chk.decide(e[1] == ".read_sectors" and len(e[2]) == 2, "K-PROV", "read:parent-interface", call,
                           "the parent is read through read_sectors(sector, count)")
                if len(e[2]) == 2:
                    chk.formula("K-PROV", "read:parent-sector<-run_parent", call, e[2][0], I[3])
                    chk.formula("K-PROV", "read:parent-count<-run_count", call, e[2][1], I[2])
            elif e[0] == "CALL":
                pass
            else:
                chk.violated("K-DISPATCH", "read:unknown-effect", call, f"appended data of no known class: {S.show(t)[:160]}")
    want = {}
    for k in table:
        t, p, comp = k
        want[k] = ({"PARENT"} if p else {"ZEROS"}) if t == 0 else {"ZEROS"} if t == 1 else ({"INFLATE"} if comp else {"FILE"})
    chk.decide(table == want, "K-DISPATCH", "read:run-type-table", floop,
               "run type x parent x compressed flag -> 0: parent|zeros; 1: zeros; >1: file, or per-grain inflate if compressed",
               expected=str(sorted(map(str, want.items()))), found=str(sorted(map(str, table.items()))))
    for s in calls_named(ctx, "seek"):
        chk.formula("K-FORMULA", "read:raw-address", s, R.expr(ctx, s.args[0]), spec_expr("(t + o) * 512", {"t": I[0], "o": I[1]}))
    # compressed inner loop
    if not wloops:
        chk.violated("K-SPLIT", "read:compressed-loop", floop, "no per-grain loop for compressed runs")
    else:
        wl = wloops[0]
        carried = loop_carried(chk, ctx, wl)
        n_t, i_t = carried_with_entry(chk, carried, I[0])
        n_o, i_o = carried_with_entry(chk, carried, I[1])
        n_c, i_c = carried_with_entry(chk, carried, I[2])
        if not all((i_t, i_o, i_c)):
            chk.violated("K-SPLIT", "read:compressed-loop", wl, "the compressed loop must carry grain sector, in-grain offset and count")
        else:
            T, O, Cn = i_t["phi"], i_o["phi"], i_c["phi"]
            env = {"T": T, "O": O, "C": Cn, "gs": gsz}
            env["STEP"] = spec_expr("min(C, gs - O)", env)

            def dm(leaf, rng):
                if leaf == O:
                    return rng.randrange(0, 8)
                if leaf == Cn:
                    return rng.randrange(1, 64)
                if leaf[0] == "f" and leaf[2] in (20, 16, 24):
                    return rng.choice([8, 16, 128])
                return None

            for _, nx in i_t["next"]:
                _scen(chk, "K-SPLIT", "read:compressed:grain-advance", wl, nx, spec_expr("T + gs", env), ov, fl, dm)
            for _, nx in i_o["next"]:
                _scen(chk, "K-SPLIT", "read:compressed:offset-zeroed", wl, nx, S.C(0), ov, fl, dm)
            for _, nx in i_c["next"]:
                _scen(chk, "K-SPLIT", "read:compressed:count-advance", wl, nx, spec_expr("C - STEP", env), ov, fl, dm)
            ckey = f"{sk}._read_compressed_grain"
            for call, t in appends_in(chk, ctx):
                if call in list(ast.walk(wl)):
                    okk = t[0] == "sub" and t[1][0] == "call" and t[1][1] == ckey and t[2][0] == "slice"
                    chk.decide(okk, "K-FORMULA", "read:compressed:slice-shape", call, "inflated grain sliced to the requested part",
                               found=S.show(t)[:200])
                    if okk:
                        _scen(chk, "K-PROV", "read:compressed:grain-argument", call, t[1][2][1], T, ov, fl, dm)
                        _scen(chk, "K-FORMULA", "read:compressed:slice-start", call, t[2][1], spec_expr("O * 512", env), ov, fl, dm)
                        _scen(chk, "K-FORMULA", "read:compressed:slice-end", call, t[2][2], spec_expr("O * 512 + STEP * 512", env), ov, fl, dm)
    _typestate(chk, ctx, "read")


def compressed_grain(chk: Check, K: Kinds, sk):
    R = chk.R
    ctx = chk.func(REL, "SparseDisk._read_compressed_grain")
    Sx = ("p", ctx.qual, 1)
    seeks = calls_named(ctx, "seek")
    reads = calls_named(ctx, "read")
    ov, fl = K.scenario("KDMV")
    if seeks:
        chk.formula("K-FORMULA", "grain:header-address", seeks[0], R.expr(ctx, seeks[0].args[0]), S.op("mul", Sx, S.C(512)))
    if reads:
        chk.formula("K-FORMULA", "grain:first-sector-length", reads[0], R.expr(ctx, reads[0].args[0]), S.C(512))
    if len(seeks) > 1:
        chk.formula("K-FORMULA", "grain:continuation-address", seeks[1], R.expr(ctx, seeks[1].args[0]),
                    S.op("mul", S.op("add", Sx, S.C(1)), S.C(512)))
    # header length / compressed length by the embedded-LBA flag
    rets = [n for n in ast.walk(ctx.func) if isinstance(n, ast.Return)]
    if not rets:
        chk.undecided("K-FORMULA", "grain:inflate", ctx.func, "no return")
        return
    rv = R.expr(ctx, rets[-1].value, ctx.cfg.node_for(rets[-1]))
    # the inflate call
    infl = None
    for x in S.walk(rv):
        if isinstance(x, tuple) and x and x[0] == "call" and ("decompress" in x[1]):
            infl = x
            break
    if infl is None:
        chk.undecided("K-FORMULA", "grain:inflate", rets[-1], f"no inflate call in the returned value: {S.show(rv)[:200]}")
        return
    data = infl[2][1] if infl[1].startswith(".") and len(infl[2]) > 1 else infl[2][0]
    ok = data[0] == "sub" and data[2][0] == "slice"
    chk.decide(ok, "K-FORMULA", "grain:payload-slice-shape", rets[-1], "the compressed payload is buf[header_len : header_len + compressed_len]",
               found=S.show(data)[:200])
    if ok:
        lo, hi = data[2][1], data[2][2]
        for flagv, hl in ((0x20000 | 0x10000, 12), (0x10000, 4)):
            f2 = dict(fl)
            f2[("VMDKSparseExtentHeader", 8)] = flagv
            try:
                v = S.ev(lo, S.Valuation(1, override=ov, fields=f2))
            except S.EvalError:
                v = None
            chk.decide(v == hl, "K-CONST", f"grain:header-length:{'embedded-lba' if hl == 12 else 'plain'}", rets[-1],
                       f"grain header is {hl} bytes {'with' if hl == 12 else 'without'} the embedded-LBA flag", expected=str(hl), found=str(v))
        # compressed length source: cmp_size field @8 of the 12-byte header / u32 at 0
        want_lba = ("f", "SparseGrainLBAHeaderOnDisk", 8, 4)
        has_lba = S.contains(hi, lambda x: isinstance(x, tuple) and x and x[0] == "f" and x[1:4] == want_lba[1:4])
        chk.decide(has_lba, "K-PROV", "grain:compressed-length<-cmp_size", rets[-1],
                   "with embedded LBA the compressed length is the header's cmp_size (u32 @8)", found=S.show(hi)[:200])
    # continuation read: needed iff header + payload do not fit into the first sector; its length is the overhang
    if len(reads) > 1 and ok:
        cont = reads[1]
        conds = conds_sym(chk, ctx, cont)
        hl_t, end_t = lo, hi  # header_len, header_len + compressed_len
        cl_t = None
        for x in S.walk(hi):
            if isinstance(x, tuple) and x and x[0] in ("ite", "join"):
                cl_t = x
                break
        tab = {}
        for hl in (4, 12):
            for cl in (0, 100, 499, 500, 501, 507, 508, 509, 512, 513, 2000):
                ov2 = dict(ov)
                ov2[lo] = hl
                ov2[hi] = hl + cl
                # the code may spell the test with compressed_len and header_len separately
                for cnd, _p in conds:
                    for y in S.walk(cnd):
                        if isinstance(y, tuple) and y and y[0] in ("ite", "join") and y != lo:
                            ov2[y] = cl
                tab[(hl, cl)] = eval_conds(conds, S.Valuation(1, override=ov2, fields=fl))
        want = {k: k[0] + k[1] > 512 for k in tab}
        chk.decide(tab == want, "K-DISPATCH", "grain:continuation-condition", cont,
                   "the rest of a grain is read iff header length + compressed length exceeds the first sector" if tab == want else
                   "the continuation read is skipped for some grains whose header + payload spill over the first sector: "
                   + str(sorted(k for k in tab if tab[k] != want[k])[:6]), expected="header_len + compressed_len > 512")
        ln = R.expr(ctx, cont.args[0])
        r = S.equiv(ln, S.op("sub", hi, S.C(512)), n=60, override=ov, fields=fl)
        chk.decide(r.equal is True, "K-FORMULA", "grain:continuation-length", cont, "continuation length = header length + compressed length - 512",
                   found=S.show(ln)[:200])
    elif len(reads) <= 1:
        chk.violated("K-DISPATCH", "grain:continuation-condition", ctx.func, "grains larger than one sector are never read completely")
    _typestate(chk, ctx, "grain")


def run_machine(chk: Check, ctx, loop, carried, pname, rname, POS, REM, look, so, gsz, ov, fl):
    """The loop body of get_runs as a state machine, decided by evaluating the values its variables carry around the
    back edge (whatever the branch structure that produces them):

        state  (type, in-grain offset, count, parent sector, expected next sector), emitted list of runs
        input  g = grain sector of POS // gs (0 unallocated, 1 zero, > 1 allocated), step, off = POS % gs
        merge  iff type in (0, 1) and g == type, or type > 1 and g == expected next   -> count += step (next += gs)
        else   emit (type, offset, count, parent) if a run is open; open: type = g, count = step,
               g == 0: parent = sector_offset + POS;  g > 1: offset = off, next = g + gs

    The roles of the variables are read off the emitted tuple (type, offset, count, parent)."""
    R = chk.R
    # ---- roles -----------------------------------------------------------------------------------------------
    apps = [n for n in ast.walk(ctx.func) if isinstance(n, ast.Call) and isinstance(n.func, ast.Attribute) and n.func.attr == "append" and len(n.args) == 1]
    in_loop = [a for a in apps if any(a is x for x in ast.walk(loop))]
    after = [a for a in apps if a not in in_loop]
    phis = {n: i["phi"] for n, i in carried.items() if i["phi"][0] == "phi"}
    roles = None
    okp = bool(in_loop)
    for a in in_loop:
        t = R.expr(ctx, a.args[0], ctx.cfg.node_for(a))
        if not (t[0] == "tuple" and len(t[1]) == 4):
            okp = False
            continue
        names = []
        for el in t[1]:
            hit = [n for n, ph in phis.items() if ph == el]
            names.append(hit[0] if len(hit) == 1 else None)
        if None in names and len(t[1]) == 4:
            # a recorded component that the loop never updates: it cannot describe the run it is recorded with
            for i, nm in enumerate(names):
                if nm is None and not S.contains(t[1][i], lambda x: isinstance(x, tuple) and x and x[0] == "phi"):
                    kind, rname_, what = [("K-KIND", "runs:open-state", "run type"), ("K-FORMULA", "runs:in-grain-offset-at-open", "in-grain offset"),
                                          ("K-KIND", "runs:open-state", "sector count"), ("K-FORMULA", "runs:parent-sector-at-open", "parent sector")][i]
                    chk.violated(kind, rname_, a, f"the {what} recorded with every run is `{S.show(t[1][i])[:60]}`: it is never updated inside the loop")
                    return
        if None in names or len(set(names)) != 4:
            okp = False
            continue
        if roles is None:
            roles = names
        okp = okp and names == roles
    if roles is None:
        chk.undecided("K-PROV", "runs:tuple-roles:producer", loop, "no run tuple (type, offset, count, parent) of loop-carried variables is recorded inside the loop")
        return
    rt, ro, rc, rp = roles
    # the flush behind the loop records the same variables in the same order
    for a in after:
        t = R.expr(ctx, a.args[0], ctx.cfg.node_for(a))
        names = []
        if t[0] == "tuple" and len(t[1]) == 4:
            for el in t[1]:
                hit = [n for n in carried if R._name(ctx, n, ctx.cfg.node_for(a), {}, False, 0) == el]
                names.append(hit[0] if hit else None)
        okp = okp and names == roles
    chk.decide(okp and bool(after), "K-PROV", "runs:tuple-roles:producer", ctx.func,
               f"every run is recorded as (type/grain sector, in-grain offset, sector count, parent sector): {roles}; the open run is flushed behind the loop")
    rest = [n for n in phis if n not in (rt, ro, rc, rp, pname, rname)]
    if len(rest) != 1:
        chk.decide(False if not rest else None, "K-KIND", "runs:merge-predicate", loop,
                   "no variable remembers the file sector that would continue an allocated run: adjacency cannot be decided" if not rest
                   else f"cannot tell which of {rest} is the expected next sector")
        return
    ng = rest[0]
    RT, RO, RC, RP, NG = phis[rt], phis[ro], phis[rc], phis[rp], phis[ng]
    entry_ok = RT[3] == S.C(None) and RC[3] == S.C(0)
    chk.decide(entry_ok, "K-KIND", "runs:initial-state", loop, "before the first grain no run is open (type None, count 0)",
               found=f"type {S.show(RT[3])}, count {S.show(RC[3])}")

    def nxt(name):
        vals = [t for _, t in carried[name]["next"]]
        return vals[0] if vals and all(v == vals[0] for v in vals) else None

    N = {n: nxt(n) for n in (rt, ro, rc, rp, ng)}
    if any(v is None for v in N.values()):
        chk.undecided("K-KIND", "runs:merge-predicate", loop, "the loop has several back edges with different values: not a single transition per grain")
        return
    emits = []
    for a in in_loop:
        emits.append((conds_sym(chk, ctx, a, within=loop), R.expr(ctx, a.args[0], ctx.cfg.node_for(a))))
    # ---- evaluation over the kind x adjacency partition -------------------------------------------------------------
    GS, SO = 128, 1 << 20
    f2 = dict(fl)
    for key in (("VMDKSparseExtentHeader", 20), ("COWDSparseExtentHeader", 16), ("VMDKSESparseConstHeader", 24)):
        f2[key] = GS
    probs = {k: [] for k in ("merge", "next-merge", "next-open", "offset-open", "parent-open", "open", "flush")}
    ncases = 0
    errors = []
    for run_type in (None, 0, 1, 2, 1000, 5000):
        for g in (0, 1, 2, 1000, 1128, 1256, 5000, 5128):
            nexts = [7] if run_type in (None, 0, 1) else [run_type + GS, run_type + 2 * GS]
            if run_type in (0, 1):
                nexts = [7, g]  # a stale expected-next value must not matter for sparse runs
            for ngv in nexts:
                for pos, rem in ((5 * GS + 3, 1000), (9 * GS, 40), (2 * GS + 100, 28), (0, 1)):
                    ncases += 1
                    off = pos % GS
                    step = min(rem, GS - off)
                    ro0, rc0, rp0 = 77, 300, (SO + 4242 if run_type == 0 else None)
                    if run_type is None:
                        # no run is open: the state is the initial one
                        init = [RO[3], RC[3], RP[3], NG[3]]
                        if not all(S.is_const(x) for x in init):
                            continue
                        ro0, rc0, rp0, ngv = (x[1] for x in init)
                    o2 = dict(ov)
                    o2.update({RT: run_type, RO: ro0, RC: rc0, RP: rp0, NG: ngv, look: g, POS: pos, REM: rem, so: SO,
                               ("p", ctx.qual, 1): SO + pos, ("p", ctx.qual, 2): rem + 1})
                    val = S.Valuation(1, override=o2, fields=f2)
                    try:
                        got = {n: S.ev(N[n], val) for n in N}
                        fired = [S.ev(t, val) for c, t in emits if eval_conds(c, val)]
                    except S.EvalError as e:
                        errors.append(str(e))
                        continue
                    merged_spec = (run_type in (0, 1) and g == run_type) or (run_type is not None and run_type > 1 and g > 1 and g == ngv)
                    case = f"run type {run_type}, expected next {ngv}, grain at {g}"
                    merged_got = got[rt] == run_type and got[rc] == rc0 + step and not fired
                    opened_got = got[rt] == g and got[rc] == step
                    if merged_spec:
                        if not merged_got:
                            probs["merge"].append(f"{case}: merges=False, specified True")
                            continue
                        if run_type is not None and run_type > 1 and got[ng] != ngv + GS:
                            probs["next-merge"].append(f"{case}: expected next becomes {got[ng]}, specified {ngv + GS}")
                        if run_type == 0 and got[rp] != rp0:
                            probs["parent-open"].append(f"{case}: the parent sector of the open run changes to {got[rp]}")
                        if run_type is not None and run_type > 1 and got[ro] != ro0:
                            probs["offset-open"].append(f"{case}: the in-grain offset of the open run changes to {got[ro]}")
                        continue
                    if merged_got and run_type is not None:
                        probs["merge"].append(f"{case}: merges=True, specified False")
                        continue
                    if not opened_got:
                        probs["open"].append(f"{case}: new run has type {got[rt]} and count {got[rc]}, specified {g} and {step}")
                        continue
                    if g == 0 and got[rp] != SO + pos:
                        probs["parent-open"].append(f"{case} at sector {pos}: parent sector {got[rp]}, specified sector_offset + sector = {SO + pos}")
                    if g > 1 and got[ro] != off:
                        probs["offset-open"].append(f"{case} at sector {pos}: in-grain offset {got[ro]}, specified {off}")
                    if g > 1 and got[ng] != g + GS:
                        probs["next-open"].append(f"{case}: expected next {got[ng]}, specified {g + GS}")
                    want_emit = run_type is not None
                    if want_emit != bool(fired) or len(fired) > 1:
                        probs["flush"].append(f"{case}: {len(fired)} runs recorded when the run ends, specified {int(want_emit)}")
                    elif fired:
                        e = fired[0]
                        bad_t = not (isinstance(e, tuple) and len(e) == 4) or e[0] != run_type or e[2] != rc0 or (run_type > 1 and e[1] != ro0) or (run_type == 0 and e[3] != rp0)
                        if bad_t:
                            probs["flush"].append(f"{case}: recorded {e}, specified ({run_type}, {ro0}, {rc0}, {rp0})")
    if errors and not any(probs.values()):
        chk.undecided("K-KIND", "runs:merge-predicate", loop, f"cannot evaluate the transition: {errors[0]}")
        return
    names = {"merge": ("K-KIND", "runs:merge-predicate", "unallocated/zero runs extend over the same kind only, allocated runs only over the physically next grain"),
             "next-merge": ("K-KIND", "runs:next-sector-after-merge", "extending an allocated run moves the expected next sector on by one grain"),
             "next-open": ("K-KIND", "runs:next-sector-at-open", "opening an allocated run expects the grain behind it next"),
             "offset-open": ("K-FORMULA", "runs:in-grain-offset-at-open", "an allocated run starts at sector % grain_size inside its first grain"),
             "parent-open": ("K-FORMULA", "runs:parent-sector-at-open", "an unallocated run remembers sector_offset + sector for the parent"),
             "open": ("K-KIND", "runs:open-state", "a new run takes the grain's sector as its type and the step as its count"),
             "flush": ("K-KIND", "runs:flush-on-open", "the open run is recorded exactly once, unchanged, when a new one starts")}
    for k, (kind, name, text) in names.items():
        chk.decide(not probs[k], kind, name, loop, f"{text} ({ncases} cases evaluated)" if not probs[k] else "; ".join(probs[k][:3]))
