"""C12 - foreign or unsupported inputs are refused, not misread.

Every enumerated gate is decided completely: its accepted set is computed from the guard's comparison structure
(region representatives around every constant the guard compares with, every single-bit flip of each magic, every
neighbouring version / geometry value), the rejecting side must raise, and the guard must dominate every normal exit
of the constructor (transitively through the constructors it calls), outside any exception handler.
"""
from __future__ import annotations

import ast

from .. import sym as S
from ..engine import HOLDS, UNDECIDED, VIOLATED, Check
from ..loader import AnalysisError, ancestors, parent
from ..program import NotConst
from ..recon import _own_nodes
from ..rulelib import atomic_facts, eval_conds, conds_sym, field_map, fld, inst_attr, insts_in_func, reach_table

LEVEL = "proof"
TECHNIQUE = ("static analysis: accepted-set computation of guards by evaluating their reconstructed condition terms on region "
             "representatives / bit flips, raise reachability, CFG dominance of the guard over the constructor's normal exits")
EXPLANATION = (
    "For each of the enumerated refusal gates (magics, versions, geometry ranges, mandatory features/regions/items, cipher / "
    "key-locator / keystore identifiers) the guard's accepted set is computed from the source and compared with the "
    "specified set: every single-bit flip of each magic, every neighbouring version and every out-of-range geometry value is "
    "rejected, the rejecting side reaches `raise`, the guard dominates all normal exits of the constructor (also through the "
    "constructors it calls unconditionally) and is not enclosed by a handler. Closed-table look-ups must be subscripts of a "
    "literal dict (KeyError), never .get(). Gates the property does not enumerate (checksums, unknown feature bits) are not claimed."
)
ASSUMPTIONS = ["guards compare their subject with constants, so their truth is constant between neighbouring constants "
               "(region representatives decide the accepted set exactly)",
               "an exception raised in a constructor propagates to the caller (no handler in the package swallows it - checked)"]
TRUSTED_BASE = ["CPython ast", "hvlint def-use reconstruction and CFG dominators", "spec tables in /verif/hvlint/spec"]


def bitflips(value, width_bits):
    return [value ^ (1 << b) for b in range(width_bits)]


def byteflips(b: bytes):
    out = []
    for i in range(len(b)):
        for bit in range(8):
            x = bytearray(b)
            x[i] ^= 1 << bit
            out.append(bytes(x))
    return out


def toplevel_stmt(node, func):
    cur = node
    while parent(cur) is not None and parent(cur) is not func:
        cur = parent(cur)
    return cur


def in_try(node, func):
    for a in ancestors(node):
        if a is func:
            break
        if isinstance(a, ast.Try) and any(node in list(ast.walk(s)) for s in a.body):
            return True
    return False


class Gate:
    def __init__(self, chk: Check, gid, rel, qual):
        self.chk = chk
        self.gid = gid
        self.ctx = chk.func(rel, qual)
        self.raises = [n for n in _own_nodes(self.ctx.func) if isinstance(n, ast.Raise)]
        self.conds = {id(r): conds_sym(chk, self.ctx, r) for r in self.raises}
        self.own_stmts = {}
        self.own = {id(r): self._own_tests(r) for r in self.raises}

    def _own_tests(self, r):
        """The tests that decide this raise: its enclosing `if`s, and guard clauses in front of it that leave by `return`
        (`if acceptable: return x` / `raise ...`).  Earlier guards that leave by `raise` are other gates and do not count."""
        from ..flow import path_conditions
        from ..rulelib import stmt_of

        out = []
        for test, pol, ifstmt, kind in path_conditions(stmt_of(r), self.ctx.func):
            if kind == "if":
                pass
            elif kind == "prior" and isinstance(ifstmt, ast.If):
                arm = ifstmt.body if not pol else ifstmt.orelse  # the arm that was NOT taken is the one that leaves
                if not arm or not isinstance(arm[-1], (ast.Return, ast.Continue, ast.Break)):
                    continue
            else:
                continue
            out.append((self.chk.R.expr(self.ctx, test, self.ctx.cfg.node_of.get(ifstmt)), pol))
            self.own_stmts.setdefault(id(r), []).append(ifstmt)
        return out

    def decide(self, controlled, probes, override=None, fields=None, what=""):
        """probes: [(combo dict, 'reject'|'accept')]"""
        chk, ctx = self.chk, self.ctx
        bad = []
        firing = set()
        for combo, expect in probes:
            hit = None
            for r in self.raises:
                conds = self.conds[id(r)]
                # the raise belongs to this gate only if one of its own enclosing tests mentions the subject
                # (conditions inherited from earlier guards that were passed do not count)
                if not any(_mentions(c[0], controlled) for c in self.own[id(r)]):
                    continue
                res = reach_table(conds, controlled, [combo], override=override, fields=fields)[0]
                if res:
                    hit = r
                    break
            got = "reject" if hit is not None else "accept"
            if hit is not None:
                firing.add(hit)
            if got != expect:
                bad.append(f"{_fmt(combo)}: {got}, specified {expect}")
        where = next(iter(firing), None) or ctx.func
        if bad:
            chk.violated("K-GATE", self.gid, where, f"accepted set differs: " + "; ".join(bad[:4]) + (f" (+{len(bad) - 4} more)" if len(bad) > 4 else ""),
                         expected=what)
            return False
        # dominance and handlers
        probs = []
        for r in firing:
            for c, pol in self.own[id(r)]:
                extra = _uncontrolled_leaves(c, controlled)
                if extra:
                    probs.append(f"the guard at line {r.lineno} additionally depends on {S.show(extra[0])[:80]}: "
                                 "it does not fire for every value outside the accepted set")
            # every path to the normal exit must pass the deciding test: the raise's enclosing top-level statement, or,
            # for a guard clause (`if ok: return x` / `raise`), the top-level statement of that clause
            tops = [toplevel_stmt(r, ctx.func)] + [toplevel_stmt(st, ctx.func) for st in self.own_stmts.get(id(r), [])]
            top = tops[0]
            node = None
            for tp in tops:
                nd = ctx.cfg.node_of.get(tp)
                if nd is not None and ctx.cfg.dominates(nd, ctx.cfg.exit):
                    node, top = nd, tp
                    break
            if node is None or not ctx.cfg.dominates(node, ctx.cfg.exit):
                probs.append(f"the guard at line {top.lineno} does not dominate the normal exit (it can be bypassed)")
            if in_try(r, ctx.func):
                probs.append(f"the raise at line {r.lineno} is inside a try block of the same function")
        if not firing:
            probs.append("no raise fires for the rejected probes")
        if probs:
            chk.violated("K-GATE", self.gid, where, "; ".join(probs), expected=what)
            return False
        chk.holds("K-GATE", self.gid, where, f"{len(probes)} probes: accepted set = {what}; guard dominates the exit", expected=what)
        return True


def root_subject(t):
    """Strip value-transforming method calls (x.lower(), x.strip(), ...) to get at the compared input itself."""
    while isinstance(t, tuple) and t and t[0] == "call" and t[1].startswith(".") and t[2] and t[1] in (
            ".lower", ".upper", ".strip", ".casefold", ".title", ".lstrip", ".rstrip", ".decode", ".encode"):
        t = t[2][0]
    return t


def _uncontrolled_leaves(t, controlled):
    terms = [v for v in controlled.values() if not (isinstance(v, tuple) and v and v[0] == "field")]
    fkeys = [v[1] for v in controlled.values() if isinstance(v, tuple) and v and v[0] == "field"]
    out = []

    def rec(x):
        if not (isinstance(x, tuple) and x):
            return
        if x in terms:
            return
        if x[0] == "f":
            if (x[1], x[2]) in fkeys or (x[1], x[2], x[5]) in fkeys:
                return
            out.append(x)
            return
        if x[0] in ("p", "phi", "unk", "self", "iter"):
            out.append(x)
            return
        if x[0] == "call" and not any(True for _ in S.children(x)):
            out.append(x)
            return
        if x[0] == "ite" and _mentions(x[2], controlled) and _mentions(x[3], controlled):
            # a selector between two copies of the controlled subject (e.g. the header with the higher sequence number)
            rec(x[2])
            rec(x[3])
            return
        for c in S.children(x):
            rec(c)
    rec(t)
    return out


def _mentions(t, controlled):
    terms = [v for v in controlled.values() if not (isinstance(v, tuple) and v and v[0] == "field")]
    fkeys = [v[1] for v in controlled.values() if isinstance(v, tuple) and v and v[0] == "field"]

    def hit(x):
        if not (isinstance(x, tuple) and x):
            return False
        if x in terms:
            return True
        if x[0] == "f":
            return (x[1], x[2]) in fkeys or (x[1], x[2], x[5]) in fkeys
        return False
    return S.contains(t, hit)


def _fmt(combo):
    def f(v):
        if isinstance(v, int) and not isinstance(v, bool) and v > 4096:
            return hex(v)
        return repr(v)
    return ", ".join(f"{k}={f(v)}" for k, v in combo.items())


def call_dominates(chk: Check, rel, qual, callee_key, gid, min_sites=1):
    """Every construction of `callee_key` inside rel::qual sits on all paths to the normal exit, outside try."""
    ctx = chk.func(rel, qual)
    sites = []
    for n in _own_nodes(ctx.func):
        if isinstance(n, ast.Call):
            t = chk.R.expr(ctx, n)
            if t[0] == "call" and t[1] == "new:" + callee_key:
                sites.append(n)
            elif t[0] == "inst" and False:
                pass
    why = []
    uncond = 0
    for s in sites:
        node = ctx.cfg.node_for(s)
        if node is not None and ctx.cfg.dominates(node, ctx.cfg.exit) and not in_try(s, ctx.func):
            uncond += 1
    ok = uncond >= min_sites
    if not ok:
        why.append(f"{uncond} of {len(sites)} construction site(s) lie on every path to a successful open, {min_sites} required")
    chk.decide(ok, "K-GATE", gid, sites[0] if sites else ctx.func,
               f"{len(sites)} unconditional construction site(s) of {callee_key.split('::')[-1]} on the way to a successful open"
               if ok else ("; ".join(why) or f"no construction of {callee_key} in {qual}"))
    return sites


def subscript_gate(chk: Check, rel, qual, table_name, want_keys, gid):
    """`TABLE[key]` into a closed module-level literal dict (KeyError for anything else); .get() is not a gate."""
    ctx = chk.func(rel, qual)
    mi = chk.prog.info(rel)
    try:
        tab = chk.prog.fold(ast.Name(id=table_name), mi)
    except NotConst:
        chk.undecided("K-GATE", gid, ctx.func, f"{table_name} is not a literal table")
        return
    keys_ok = set(tab.keys()) == set(want_keys)
    subs = [n for n in _own_nodes(ctx.func) if isinstance(n, ast.Subscript) and isinstance(n.value, ast.Name) and n.value.id == table_name]
    gets = [n for n in _own_nodes(ctx.func) if isinstance(n, ast.Call) and isinstance(n.func, ast.Attribute)
            and n.func.attr in ("get", "setdefault") and isinstance(n.func.value, ast.Name) and n.func.value.id == table_name]
    ok = keys_ok and bool(subs) and not gets and not any(in_try(s, ctx.func) for s in subs)
    # (a path that only hands back an entry of a per-instance memo computes nothing: the call that stored the entry went through the
    # look-up; dominance is asked of the returns that compute)
    from ..rulelib import memo_read_returns
    memo_rets = memo_read_returns(ctx.func)
    computing = [r for r in _own_nodes(ctx.func) if isinstance(r, ast.Return) and not any(r is m for m in memo_rets)]
    for s in subs:
        node = ctx.cfg.node_for(s)
        if node is None:
            ok = False
        elif memo_rets:
            if not computing or not all(ctx.cfg.dominates(node, ctx.cfg.node_for(r)) for r in computing):
                ok = False
        elif not ctx.cfg.dominates(node, ctx.cfg.exit):
            ok = False
    chk.decide(ok, "K-GATE", gid, subs[0] if subs else (gets[0] if gets else ctx.func),
               f"{table_name}[...] is a subscript of the closed table {sorted(tab.keys())} on every path" if ok else
               f"look-up into {table_name} is not a dominating subscript of the closed table {sorted(want_keys)} "
               f"(keys {sorted(map(str, tab.keys()))}, subscripts {len(subs)}, .get() calls {len(gets)})",
               expected=str(sorted(want_keys)))


def run(chk: Check):
    R = chk.R
    # ------------------------------------------------------------------------------------------------ QCOW2
    rel, crel = "disk/qcow2.py", "disk/c_qcow2.py"
    hdr = inst_attr(chk, rel, "QCow2", "QCowHeader")
    F = lambda n: fld(chk, hdr, crel, "QCowHeader", n)  # noqa: E731
    g = Gate(chk, "qcow2:magic", rel, "QCow2.__init__")
    M = 0x514649FB
    g.decide({"m": F("magic")}, [({"m": M}, "accept")] + [({"m": v}, "reject") for v in bitflips(M, 32) + [0, 0xFFFFFFFF, M + 1, M - 1]],
             what="{0x514649FB}")
    g = Gate(chk, "qcow2:version", rel, "QCow2.__init__")
    g.decide({"v": F("version")}, [({"v": v}, "accept" if v in (2, 3) else "reject") for v in (0, 1, 2, 3, 4, 5, 0xFFFFFFFF, 0x10002, 258)], what="{2, 3}")
    g = Gate(chk, "qcow2:cluster-bits", rel, "QCow2.__init__")
    g.decide({"cb": F("cluster_bits")}, [({"cb": v}, "accept" if 9 <= v <= 21 else "reject") for v in (0, 1, 8, 9, 10, 15, 20, 21, 22, 31, 32, 64, 0xFFFFFFFF)],
             fields={("QCowHeader", 72): 0}, what="[9, 21]")
    g = Gate(chk, "qcow2:subcluster-size", rel, "QCow2.__init__")
    probes = []
    for ext in (0, 16):
        for cb in (9, 10, 13, 14, 15, 21):
            probes.append(({"cb": cb, "inc": ext}, "reject" if ext and cb < 14 else "accept"))
    g.decide({"cb": F("cluster_bits"), "inc": F("incompatible_features")}, probes, what="sub-cluster size >= 512 (with extended L2: cluster_bits >= 14)")
    g = Gate(chk, "qcow2:encryption", rel, "QCow2.__init__")
    g.decide({"c": F("crypt_method")}, [({"c": v}, "accept" if v == 0 else "reject") for v in (0, 1, 2, 3, 0x80000000, 0xFFFFFFFF)], what="{0}")
    # zstd without module
    has_zstd = R.global_name(chk.func(rel, "QCow2.__init__"), "HAS_ZSTD")
    g = Gate(chk, "qcow2:zstd-module", rel, "QCow2.__init__")
    probes = [({"ct": 1, "hl": 112, "z": False}, "reject"), ({"ct": 1, "hl": 112, "z": True}, "accept"), ({"ct": 0, "hl": 112, "z": False}, "accept"),
              ({"ct": 1, "hl": 104, "z": False}, "accept"), ({"ct": 1, "hl": 105, "z": False}, "reject")]
    g.decide({"ct": F("compression_type"), "hl": F("header_length"), "z": has_zstd}, probes, what="zstd images need the zstandard module")
    ictx = chk.func(rel, "QCow2.__init__")
    DF, BF = ("p", ictx.qual, 2), ("p", ictx.qual, 3)
    g = Gate(chk, "qcow2:data-file-required", rel, "QCow2.__init__")
    g.decide({"inc": F("incompatible_features"), "df": DF},
             [({"inc": 4, "df": None}, "reject"), ({"inc": 4, "df": 7}, "accept"), ({"inc": 0, "df": None}, "accept"), ({"inc": 20, "df": None}, "reject"),
              ({"inc": 16, "df": None}, "accept")], fields={("QCowHeader", 20): 16}, what="DATA_FILE bit => data_file argument")
    g = Gate(chk, "qcow2:backing-file-required", rel, "QCow2.__init__")
    g.decide({"bo": F("backing_file_offset"), "bf": BF},
             [({"bo": 512, "bf": None}, "reject"), ({"bo": 512, "bf": 1}, "accept"), ({"bo": 512, "bf": 99}, "accept"), ({"bo": 0, "bf": None}, "accept"),
              ({"bo": 1 << 40, "bf": None}, "reject")], what="backing file offset => backing_file argument (or ALLOW_NO_BACKING_FILE)")
    try:
        v = chk.prog.fold(ast.Name(id="ALLOW_NO_BACKING_FILE"), chk.prog.info(rel))
        chk.decide(v is not None and v is not False, "K-GATE", "qcow2:opt-out-constant", (rel, "<const ALLOW_NO_BACKING_FILE>", 1),
                   "the opt-out is an explicit non-None constant", found=repr(v), nontrivial=False)
    except NotConst:
        chk.undecided("K-GATE", "qcow2:opt-out-constant", (rel, "<const>", 1), "ALLOW_NO_BACKING_FILE not constant")

    # ------------------------------------------------------------------------------------------------ VHDX
    rel, crel = "disk/vhdx.py", "disk/c_vhdx.py"
    ictx = chk.func(rel, "VHDX.__init__")
    g = Gate(chk, "vhdx:file-identifier", rel, "VHDX.__init__")
    sig = b"vhdxfile"
    g.decide({"s": ("field", ("file_identifier", 0))}, [({"s": sig}, "accept")] + [({"s": v}, "reject") for v in byteflips(sig) + [b"", b"vhdxfil", sig + b"\0"]],
             what="{b'vhdxfile'}")
    g = Gate(chk, "vhdx:header-signature", rel, "VHDX.__init__")
    g.decide({"s": ("field", ("header", 0))}, [({"s": b"head"}, "accept")] + [({"s": v}, "reject") for v in byteflips(b"head") + [b"\0\0\0\0"]], what="{b'head'}")
    g = Gate(chk, "vhdx:region-table-signature", rel, "RegionTable.__init__")
    g.decide({"s": ("field", ("region_table_header", 0))}, [({"s": b"regi"}, "accept")] + [({"s": v}, "reject") for v in byteflips(b"regi")], what="{b'regi'}")
    call_dominates(chk, rel, "VHDX.__init__", chk.prog.cls(rel, "RegionTable").key, "vhdx:region-tables-parsed", 2)
    g = Gate(chk, "vhdx:metadata-signature", rel, "MetadataTable.__init__")
    g.decide({"s": ("field", ("metadata_table_header", 0))}, [({"s": b"metadata"}, "accept")] + [({"s": v}, "reject") for v in byteflips(b"metadata")],
             what="{b'metadata'}")
    call_dominates(chk, rel, "VHDX.__init__", chk.prog.cls(rel, "MetadataTable").key, "vhdx:metadata-parsed", 1)
    # required regions / items: get(guid, required=True) raises when missing; call sites do not opt out
    for cls_, what_ in (("RegionTable", "region"), ("MetadataTable", "metadata item")):
        gctx = chk.func(rel, f"{cls_}.get")
        gg = Gate(chk, f"vhdx:required-{what_.replace(' ', '-')}-missing", rel, f"{cls_}.get")
        lookup = None
        for r in gg.raises:
            for c, _ in gg.conds[id(r)]:
                for x in S.walk(c):
                    if isinstance(x, tuple) and x and x[0] == "call" and x[1] == ".get":
                        lookup = x
        if lookup is None:
            chk.violated("K-GATE", f"vhdx:required-{what_.replace(' ', '-')}-missing", gctx.func, "get() no longer raises for a missing required entry")
        else:
            REQ = ("p", gctx.qual, 2)
            gg.decide({"d": lookup, "req": REQ}, [({"d": None, "req": True}, "reject"), ({"d": None, "req": False}, "accept"), ({"d": 5, "req": True}, "accept")],
                      what=f"missing required {what_} is refused")
        # default of `required`
        dflt = gctx.func.args.defaults[-1] if gctx.func.args.defaults else None
        chk.decide(isinstance(dflt, ast.Constant) and dflt.value is True, "K-GATE", f"vhdx:{cls_}.get-default-required", gctx.func,
                   "`required` defaults to True", nontrivial=False)
    need = {"METADATA_REGION_GUID": 0, "BAT_REGION_GUID": 0, "VIRTUAL_DISK_SIZE_GUID": 0, "FILE_PARAMETERS_GUID": 0,
            "LOGICAL_SECTOR_SIZE_GUID": 0, "VIRTUAL_DISK_ID_GUID": 0, "PARENT_LOCATOR_GUID": 0}
    for n in _own_nodes(ictx.func):
        if isinstance(n, ast.Call) and isinstance(n.func, ast.Attribute) and n.func.attr == "get" and n.args and isinstance(n.args[0], ast.Name) and n.args[0].id in need:
            optout = len(n.args) > 1 or any(k.arg == "required" for k in n.keywords)
            node = ictx.cfg.node_for(n)
            dom_ok = node is not None and (ictx.cfg.dominates(node, ictx.cfg.exit) or n.args[0].id == "PARENT_LOCATOR_GUID")
            chk.decide(not optout and dom_ok, "K-GATE", f"vhdx:required:{n.args[0].id}", n,
                       "looked up as required on every path to a successful open" if not optout and dom_ok else "look-up opts out of `required` or can be bypassed")
            need[n.args[0].id] += 1
    for k, v in need.items():
        if v == 0:
            chk.violated("K-GATE", f"vhdx:required:{k}", ictx.func, f"{k} is no longer looked up in the constructor")
    # parent locator type
    pl = None
    for n in _own_nodes(ictx.func):
        if isinstance(n, ast.Raise):
            for c, _ in conds_sym(chk, ictx, n):
                for x in S.walk(c):
                    if isinstance(x, tuple) and x and x[0] == "cmp" and S.is_const(x[3]) and str(x[3][1]).lower() == "b04aefb7-d19e-4a81-b789-25b8e9445913":
                        pl = x[2]
    if pl is None:
        chk.violated("K-GATE", "vhdx:parent-locator-type", ictx.func, "the parent locator type GUID is not checked")
    else:
        import uuid

        G0 = uuid.UUID("B04AEFB7-D19E-4A81-B789-25B8E9445913")
        hp = R.self_attr(chk.prog.cls(rel, "VHDX").key, "has_parent")
        g = Gate(chk, "vhdx:parent-locator-type", rel, "VHDX.__init__")
        g.decide({"t": pl, "hp": hp}, [({"t": G0, "hp": 1}, "accept"), ({"t": uuid.UUID(int=G0.int ^ 1), "hp": 1}, "reject"),
                                       ({"t": uuid.UUID(int=0), "hp": 1}, "reject"), ({"t": uuid.UUID(int=0), "hp": 0}, "accept")],
                 what="{B04AEFB7-D19E-4A81-B789-25B8E9445913} when has_parent")

    # ------------------------------------------------------------------------------------------------ VDI / Parallels
    g = Gate(chk, "vdi:signature", "disk/vdi.py", "VDI.__init__")
    Mv = 0xBEDA107F
    g.decide({"s": ("field", ("HeaderDescriptor", 64))}, [({"s": Mv}, "accept")] + [({"s": v}, "reject") for v in bitflips(Mv, 32) + [0]], what="{0xBEDA107F}")
    g = Gate(chk, "hds:signature", "disk/hdd.py", "HDS.__init__")
    v1, v2 = b"WithoutFreeSpace", b"WithouFreSpacExt"
    g.decide({"s": ("field", ("pvd_header", 0))}, [({"s": v1}, "accept"), ({"s": v2}, "accept")] + [({"s": v}, "reject") for v in byteflips(v1) + byteflips(v2) + [b"\0" * 16, v1[:8], v1 + b"x"]],
             what="{v1, v2 signatures}")
    octx = chk.func("disk/hdd.py", "HDD.open")
    ty = None
    for n in _own_nodes(octx.func):
        if isinstance(n, ast.Raise):
            for c, _ in conds_sym(chk, octx, n):
                for x in S.walk(c):
                    if isinstance(x, tuple) and x and x[0] == "cmp" and _mentions_types(x[3]):
                        ty = root_subject(x[2])
    if ty is None:
        chk.violated("K-GATE", "hdd:image-type", octx.func, "unsupported image types are not refused")
    else:
        g = Gate(chk, "hdd:image-type", "disk/hdd.py", "HDD.open")
        g.decide({"t": ty}, [({"t": "Compressed"}, "accept"), ({"t": "Plain"}, "accept"), ({"t": "Expanding"}, "reject"), ({"t": "plain"}, "reject"),
                             ({"t": ""}, "reject"), ({"t": None}, "reject")], what="{Compressed, Plain}")
    hctx = chk.func("disk/hdd.py", "HDD.__init__")
    ex = None
    for n in _own_nodes(hctx.func):
        if isinstance(n, ast.Raise):
            for c, _ in conds_sym(chk, hctx, n):
                for x in S.walk(c):
                    if isinstance(x, tuple) and x and x[0] == "call" and x[1] == ".exists":
                        ex = x
    if ex is None:
        chk.violated("K-GATE", "hdd:descriptor-present", hctx.func, "a missing DiskDescriptor.xml is not refused")
    else:
        okname = S.contains(ex, lambda x: x == S.C("DiskDescriptor.xml"))
        g = Gate(chk, "hdd:descriptor-present", "disk/hdd.py", "HDD.__init__")
        g.decide({"e": ex}, [({"e": False}, "reject"), ({"e": True}, "accept")], what="DiskDescriptor.xml must exist")
        chk.decide(okname, "K-GATE", "hdd:descriptor-name", hctx.func, "the checked path is <hdd>/DiskDescriptor.xml", nontrivial=False)

    # ------------------------------------------------------------------------------------------------ VMDK
    sctx = chk.func("disk/vmdk.py", "SparseExtentHeader.__init__")
    peek = None
    for n in _own_nodes(sctx.func):
        if isinstance(n, ast.Raise):
            for c, _ in conds_sym(chk, sctx, n):
                for x in S.walk(c):
                    if isinstance(x, tuple) and x and x[0] == "call" and x[1] == ".read":
                        peek = x
    if peek is None:
        chk.violated("K-GATE", "vmdk:sparse-magic", sctx.func, "an unknown sparse extent magic is not refused")
    else:
        g = Gate(chk, "vmdk:sparse-magic", "disk/vmdk.py", "SparseExtentHeader.__init__")
        acc = [b"KDMV", b"COWD", b"\xbe\xba\xfe\xca"]
        g.decide({"m": peek}, [({"m": a}, "accept") for a in acc] + [({"m": v}, "reject") for a in acc for v in byteflips(a)] + [({"m": b""}, "reject")],
                 what="{KDMV, COWD, 0xCAFEBABE}")
        chk.decide(peek[2][1] == S.C(4), "K-GATE", "vmdk:magic-width", sctx.func, "4 magic bytes are examined", nontrivial=False)
    call_dominates(chk, "disk/vmdk.py", "SparseDisk.__init__", chk.prog.cls("disk/vmdk.py", "SparseExtentHeader").key, "vmdk:header-parsed", 1)

    # ------------------------------------------------------------------------------------------------ Hyper-V
    rel = "descriptor/hyperv.py"
    for gid, qual, struct, value, width in (("hyperv:header-signature", "HyperVFile.__init__", "HyperVStorageHeader", 0x01282014, 32),
                                            ("hyperv:replay-log-signature", "HyperVStorageReplayLog.__init__", "HyperVStorageReplayLog", 0x01110003, 32),
                                            ("hyperv:object-table-signature", "HyperVStorageObjectTable.__init__", "HyperVStorageObjectTable", 0x01110001, 32),
                                            ("hyperv:key-table-signature", "HyperVStorageKeyTable.__init__", "HyperVStorageKeyTable", 0x0002, 16)):
        g = Gate(chk, gid, rel, qual)
        g.decide({"s": ("field", (struct, 0))}, [({"s": value}, "accept")] + [({"s": v}, "reject") for v in bitflips(value, width) + [0]], what=f"{{{value:#x}}}")
    g = Gate(chk, "hyperv:version", rel, "HyperVFile.__init__")
    g.decide({"v": ("field", ("HyperVStorageHeader", 10))}, [({"v": v}, "accept" if v == 0x400 else "reject") for v in (0, 1, 0x300, 0x3FF, 0x400, 0x401, 0x500, 0x10400, 0xFFFFFFFF)],
             what="{0x400}")
    call_dominates(chk, rel, "HyperVFile.__init__", chk.prog.cls(rel, "HyperVStorageReplayLog").key, "hyperv:replay-log-parsed", 1)
    call_dominates(chk, rel, "HyperVFile.__init__", chk.prog.cls(rel, "HyperVStorageObjectTable").key, "hyperv:object-table-parsed", 1)

    # ------------------------------------------------------------------------------------------------ envelope / keystore
    rel = "util/envelope.py"
    ectx = chk.func(rel, "Envelope.__init__")
    g = Gate(chk, "envelope:magic", rel, "Envelope.__init__")
    Me = b"DataTransformEnvelope"
    g.decide({"m": ("field", ("EnvelopeFileHeader", 0))}, [({"m": Me}, "accept")] + [({"m": v}, "reject") for v in byteflips(Me) + [b"", Me[:8]]], what="{b'DataTransformEnvelope'}")
    g = Gate(chk, "envelope:version", rel, "Envelope.__init__")
    g.decide({"v": ("field", ("EnvelopeFileHeader", 508))}, [({"v": v}, "accept" if v == 2 else "reject") for v in (0, 1, 2, 3, 4, 0x102, 0xFFFFFFFF)], what="{2}")
    # required attributes: some raise is guarded by "<name> not in <attributes>" with <name> running over a constant
    # collection of names (a loop variable, or the variable of a generator searched with next())
    reqs = None
    for r_ in [x for x in _own_nodes(ectx.func) if isinstance(x, ast.Raise)]:
        for c, p in conds_sym(chk, ectx, r_):
            for x in S.walk(c):
                if isinstance(x, tuple) and x and x[0] == "cmp" and x[1] in ("notin", "in") and x[2][0] == "iter":
                    seq = x[2][1]
                    vals = list(seq[1]) if S.is_const(seq) and isinstance(seq[1], (tuple, list)) else \
                        [a_[1] for a_ in seq[1]] if seq[0] in ("tuple", "list") and all(S.is_const(a_) for a_ in seq[1]) else None
                    if vals and all(isinstance(v, str) for v in vals):
                        reqs = (toplevel_stmt(r_, ectx.func), set(vals), r_)
    wantreq = {"vmware.keyInfo", "vmware.cipherName", "vmware.keyHash"}
    # spelled out, a short loop that was unrolled, or a first-missing search that became a conditional chain: decided by
    # evaluating the raises' conditions with the membership tests `"name" in attributes` forced to every combination
    spelled = {}
    atoms = {}
    cand = []
    for r_ in [x for x in _own_nodes(ectx.func) if isinstance(x, ast.Raise)]:
        ck = conds_sym(chk, ectx, r_, with_kind=True)
        mine = set()
        for t, pol, kind in ck:
            for x in S.walk(t):
                if isinstance(x, tuple) and x and x[0] == "cmp" and x[1] in ("in", "notin") and S.is_const(x[2]) and isinstance(x[2][1], str):
                    atoms.setdefault(x[2][1], set()).add(x)
                    if kind == "if":
                        mine.add(x)
        own = [(t, pol) for t, pol, kind in ck if kind == "if"]
        if mine and all(S.contains(t, lambda y: y in mine) for t, _ in own):
            top = toplevel_stmt(r_, ectx.func)
            node = ectx.cfg.node_of.get(top)
            if node is not None and ectx.cfg.dominates(node, ectx.cfg.exit) and not in_try(r_, ectx.func):
                cand.append((top, [(t, pol) for t, pol, _k in ck if any(S.contains(t, lambda y, a_=a_: y == a_) for s_ in atoms.values() for a_ in s_)]))
    if cand and len(atoms) <= 8:
        def raised(missing):
            ov = {}
            for name, ts in atoms.items():
                for x in ts:
                    ov[x] = (name in missing) == (x[1] == "notin")
            return any(eval_conds(rel_c, S.Valuation(1, override=ov)) for _top, rel_c in cand)
        if not raised(set()):
            for name in atoms:
                if raised({name}):
                    spelled[name] = cand[0][0]
    if reqs is None and spelled:
        chk.decide(set(spelled) >= wantreq, "K-GATE", "envelope:required-attributes", next(iter(spelled.values())),
                   f"each of {sorted(wantreq)} must be present (each test dominates the exit)", expected=str(sorted(wantreq)), found=str(sorted(spelled)))
    elif reqs is None:
        chk.violated("K-GATE", "envelope:required-attributes", ectx.func, "required attributes are not checked")
    else:
        n, seq, r = reqs
        conds = conds_sym(chk, ectx, r)
        # the raise is reached exactly when a required name is missing: evaluate with the membership test forced either way
        mem = [x for c, p in conds for x in S.walk(c) if isinstance(x, tuple) and x and x[0] == "cmp" and x[1] in ("notin", "in") and x[2][0] == "iter"]
        notin = False
        if mem:
            m0 = mem[0]
            rel_c = [(c, p) for c, p in conds if S.contains(c, lambda y: y == m0)]
            missing = eval_conds(rel_c, S.Valuation(1, override={m0: m0[1] == "notin"}))
            present = eval_conds(rel_c, S.Valuation(1, override={m0: m0[1] != "notin"}))
            # (a generator searched with next(): its value is the missing name or None - force that too)
            for c, p in rel_c:
                for y in S.walk(c):
                    if isinstance(y, tuple) and y and y[0] == "call" and y[1] == "next" and S.contains(y, lambda z: z == m0):
                        missing = eval_conds(rel_c, S.Valuation(1, override={y: "vmware.keyInfo"}))
                        present = eval_conds(rel_c, S.Valuation(1, override={y: None}))
            notin = bool(missing) and not present
        node = ectx.cfg.node_of.get(n)
        chk.decide(seq >= wantreq and notin and node is not None and ectx.cfg.dominates(node, ectx.cfg.exit) and not in_try(r, ectx.func),
                   "K-GATE", "envelope:required-attributes", n, f"each of {sorted(wantreq)} must be present (loop dominates the exit)",
                   expected=str(sorted(wantreq)), found=str(sorted(seq)))
    cn = R.self_attr(chk.prog.cls(rel, "Envelope").key, "cipher_name")
    iv = R.self_attr(chk.prog.cls(rel, "Envelope").key, "iv")
    for gid, qual, extra_c, extra_v in (("envelope:cipher-constructor", "Envelope.__init__", {"v": ("field", ("DataTransformAeadFooter", 4092))}, {"v": 1}),
                                        ("envelope:cipher-decrypt", "Envelope.decrypt", {"iv": iv}, {"iv": b"0123456789ab"})):
        g = Gate(chk, gid, rel, qual)
        ctl = {"c": cn}
        ctl.update(extra_c)
        extra_v = dict(extra_v)
        # the key-hash comparison also mentions the cipher name (it is hashed with the key): assume the hash matches
        for r in g.raises:
            for c_, _ in g.own[id(r)]:
                if c_[0] == "cmp" and S.contains(c_, lambda x: isinstance(x, tuple) and x and x[0] == "call" and "sha256" in str(x[1])):
                    ctl["keyhash-mismatch"] = c_
                    extra_v["keyhash-mismatch"] = False
        g.decide(ctl, [({"c": c_, **extra_v}, "accept" if c_ == "AES-256-GCM" else "reject")
                       for c_ in ("AES-256-GCM", "AES-256-CBC", "aes-256-gcm", "", "AES-128-GCM")], what="{AES-256-GCM}")
    g = Gate(chk, "envelope:aead-footer-version", rel, "Envelope.__init__")
    g.decide({"v": ("field", ("DataTransformAeadFooter", 4092)), "c": cn}, [({"v": 1, "c": "AES-256-GCM"}, "accept")] + [({"v": v, "c": "AES-256-GCM"}, "reject") for v in (0, 2, 3, 0x101, 0xFFFFFFFF)],
             what="{1}")
    kctx = chk.func(rel, "KeyStore.__init__")
    mode = R.self_attr(chk.prog.cls(rel, "KeyStore").key, "mode")
    g = Gate(chk, "keystore:mode", rel, "KeyStore.__init__")
    g.decide({"m": mode}, [({"m": "NONE"}, "accept"), ({"m": None}, "reject"), ({"m": ""}, "reject"), ({"m": "TPM"}, "reject"), ({"m": "none"}, "reject")], what="{NONE}")

    # ------------------------------------------------------------------------------------------------ VMX key safe
    rel = "descriptor/vmx.py"
    fctx = chk.func(rel, "KeySafe.from_text")
    ident = None
    for n in _own_nodes(fctx.func):
        if isinstance(n, ast.Raise):
            for c, _ in conds_sym(chk, fctx, n):
                cs = c
                if cs[0] == "cmp" and S.is_const(cs[3]) and cs[3][1] == "vmware:key":
                    ident = root_subject(cs[2])
    if ident is None:
        chk.violated("K-GATE", "vmx:keysafe-identifier", fctx.func, "the key safe identifier is not checked")
    else:
        g = Gate(chk, "vmx:keysafe-identifier", rel, "KeySafe.from_text")
        g.decide({"i": ident}, [({"i": "vmware:key"}, "accept"), ({"i": "vmware:keys"}, "reject"), ({"i": "vmware"}, "reject"), ({"i": ""}, "reject"), ({"i": "VMWARE:KEY"}, "reject")],
                 what="{vmware:key}")
    pctx = chk.func(rel, "_parse_key_locator")
    # decision structure: identifier -> list / pair / phrase handled, anything else raises
    from ..rulelib import func_eval, func_outcomes

    outs = func_outcomes(chk, pctx)
    idt = None
    for kind, stmt, conds, v in outs:
        for c, _ in conds:
            cs = c
            if cs[0] == "cmp" and S.is_const(cs[3]) and cs[3][1] in ("list", "pair", "phrase"):
                idt = root_subject(cs[2])
    if idt is None:
        chk.violated("K-GATE", "vmx:locator-kinds", pctx.func, "key locator kinds are not dispatched")
    else:
        tab = {}
        for v in ("list", "pair", "phrase", "rawkey", "ldap", "script", "role", "fqid", "", "List"):
            r = func_eval(outs, S.Valuation(1, override={idt: v}))
            tab[v] = r[0]
        want = {v: ("return" if v in ("list", "pair", "phrase") else "raise") for v in tab}
        chk.decide(tab == want, "K-GATE", "vmx:locator-kinds", pctx.func, "list / pair / phrase are parsed, every other locator kind raises",
                   expected=str(want), found=str(tab))
    subscript_gate(chk, rel, "Phrase.unwrap", "CIPHER_KEY_SIZES", {"AES-256", "AES-192", "AES-128"}, "vmx:cipher-table")
    subscript_gate(chk, rel, "Phrase.unwrap", "PASS2KEY_MAP", {"PBKDF2-HMAC-SHA-1", "PBKDF2-HMAC-SHA-256"}, "vmx:kdf-table")
    subscript_gate(chk, rel, "_decrypt_hmac", "HMAC_MAP", {"HMAC-SHA-1", "HMAC-SHA-1-128", "HMAC-SHA-256"}, "vmx:mac-table")
    chk.require("K-GATE", 45)
    # no handler in the package swallows constructor errors broadly (except the two re-raising parent openers)
    for rel_, mi in sorted(chk.prog.infos.items()):
        for n in ast.walk(mi.mod.tree):
            if isinstance(n, ast.ExceptHandler):
                names = ast.unparse(n.type) if n.type is not None else "<bare>"
                broad = n.type is None or any(x in names for x in ("Exception", "BaseException"))
                if broad:
                    reraises = any(isinstance(x, ast.Raise) for s in n.body for x in ast.walk(s))
                    chk.decide(reraises, "K-GATE", "no-swallowing-handler", n,
                               f"broad handler `except {names}` re-raises" if reraises else f"`except {names}` swallows errors raised while opening",
                               nontrivial=False)


def _mentions_types(t) -> bool:
    """The right-hand side of a comparison names the supported Parallels image types (a constant, or a tuple / list of constants)."""
    vals = []
    if S.is_const(t):
        v = t[1]
        vals = list(v) if isinstance(v, (tuple, list, set, frozenset)) else [v]
    elif isinstance(t, tuple) and t and t[0] in ("tuple", "list") and all(S.is_const(a) for a in t[1]):
        vals = [a[1] for a in t[1]]
    return any(v in ("Plain", "Compressed") for v in vals if isinstance(v, str))
