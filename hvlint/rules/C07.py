"""C07 - layer precedence in differencing, backing and snapshot chains (structural clauses)."""
from __future__ import annotations

import ast

from .. import sym as S
from ..engine import HOLDS, UNDECIDED, VIOLATED, Check
from ..loader import AnalysisError, parent
from ..recon import _own_nodes
from ..rulelib import (split_alternatives, eval_conds, appended_in_round, simulate_loop, appends_in, calls_named, carried_with_entry, classify_effect, conds_sym, field_map, func_outcomes,
                       loop_carried, loops_of, reach_table, spec_expr)

LEVEL = "other"
TECHNIQUE = ("static analysis: must-pass-through rules for mandatory parents, decision tables unallocated -> parent|zeros shared "
             "with the per-format checks, provenance of the position handed to the parent, structural rules for the VHDX sector "
             "bitmap decomposition, path-term comparison of the parent location candidates, chain orientation rules")
EXPLANATION = (
    "Decides structural necessary conditions of layer precedence: a differencing VHDX / VMDK with a parent reference opens its "
    "parent before the read path is set up and fails when that fails (handlers re-raise), QCOW2 honours only the explicit opt-out, "
    "Parallels look-ups raise when a GUID is missing; in every format unallocated units read the parent iff there is one (zeros "
    "otherwise) at the absolute guest position of the current run and allocated units never do; VHDX partially present blocks: "
    "bitmap address, a bitmap read that covers start bit + count bits, runs decomposed with the start bit honoured in the first "
    "byte only, bit 1 -> own file / 0 -> parent with a running relative sector; the documented parent location candidates in the "
    "documented order; the Parallels chain is stacked base-first with each image's parent = the previous stream and the top GUID "
    "taken from the descriptor; a QCOW2 snapshot view installs the snapshot's L1 table on a copy whose buffered stream state is reset before it is returned. Does NOT decide overlay equality "
    "for arbitrary chains."
)
ASSUMPTIONS = ["terms are compared by normal form and randomised identity testing"]

SHARED = {
    "C03": ("block-state-table", "parent-read"),
    "C05": ("marker-table", "parent-read"),
    "C06": ("run-dispatch", "parent-seek", "parent-read", "offset-advanced", "merge-predicate"),
}


def shared(chk: Check):
    """Parent-related rule instances of the per-format checks also count for C07."""
    import importlib

    for prop, pats in SHARED.items():
        mod = importlib.import_module(f"hvlint.rules.{prop}")
        sub = Check(prop, chk.tier, chk.world, "other", quiet=True)
        try:
            mod.run(sub)
        except AnalysisError as e:
            chk.add("ENGINE", f"shared:{prop}", ("?", "?", 0), UNDECIDED, str(e))
            continue
        for i in sub.instances:
            if any(p in i.name for p in pats):
                i.name = f"{prop}:{i.name}"
                chk.instances.append(i)
                chk.analysed_functions.add(f"{i.rel}::{i.func}")
    # VMDK / QCOW2 pieces need their scenario objects
    from . import C01, C02

    sub = Check("C02", chk.tier, chk.world, "other", quiet=True)
    K = C02.Kinds(sub)
    sk = chk.prog.cls("disk/vmdk.py", "SparseDisk").key
    C02.get_runs(sub, K, sk, lambda l, r: None)
    C02.read_sectors(sub, K, sk, lambda l, r: None)
    sub2 = Check("C01", chk.tier, chk.world, "other", quiet=True)
    C01.verify_bitcount(sub2)
    G = C01.Geo(sub2)
    C01.read_dispatch(sub2, G)
    for s_, prop, pats in ((sub, "C02", ("run-type-table", "parent", "runs:open-branches")), (sub2, "C01", ("type-table", "backing"))):
        for i in s_.instances:
            if any(p in i.name for p in pats):
                i.name = f"{prop}:{i.name}"
                chk.instances.append(i)
                chk.analysed_functions.add(f"{i.rel}::{i.func}")


def run(chk: Check):
    shared(chk)
    mandatory_parents(chk)
    vhdx_partial(chk)
    partial_runs(chk)
    locations(chk)
    parallels_chain(chk)
    qcow2_snapshot(chk)
    chk.require("K-PATH", 8)
    chk.require("K-FORMULA", 8)
    chk.require("K-DISPATCH", 5)


# ---------------------------------------------------------------------------------------------------------------

def _handlers_reraise(fn):
    hs = [n for n in ast.walk(fn) if isinstance(n, ast.ExceptHandler)]
    return hs, all(any(isinstance(x, ast.Raise) for s in h.body for x in ast.walk(s)) for h in hs)


def mandatory_parents(chk: Check):
    R = chk.R
    # VHDX
    rel = "disk/vhdx.py"
    vk = chk.prog.cls(rel, "VHDX").key
    init = chk.func(rel, "VHDX.__init__")
    par = R.self_attr(vk, "parent")
    hp = R.self_attr(vk, "has_parent")
    st = [(m, s, v) for (m, s, v) in chk.prog.cls(rel, "VHDX").self_assigns.get("parent", []) if not (isinstance(v, ast.Constant) and v.value is None)]
    ok = len(st) == 1
    if ok:
        m, s, v = st[0]
        t = R.expr(init, v, init.cfg.node_of[s])
        ok = t[0] == "call" and t[1] == f"{rel}::open_parent"
        tab = reach_table(conds_sym(chk, init, s), {"hp": hp}, [{"hp": 0}, {"hp": 1}])
        ok = ok and tab == [False, True]
        # before the BAT (the read path's table) is built
        bat = [(m2, s2, v2) for (m2, s2, v2) in chk.prog.cls(rel, "VHDX").self_assigns.get("bat", [])]
        if bat:
            ok = ok and init.cfg.node_of[s].id < init.cfg.node_of[bat[0][1]].id
    chk.decide(ok, "K-PATH", "vhdx:parent-opened-when-required", st[0][1] if st else init.func,
               "with has_parent set, self.parent = open_parent(...) on the only path to the BAT set-up")
    octx = chk.func(rel, "open_parent")
    hs, rr = _handlers_reraise(octx.func)
    outs = func_outcomes(chk, octx)
    rets = [o for o in outs if o[0] == "return"]
    okr = all(o[3][0] == "call" and o[3][1] == "new:" + vk for o in rets) and bool(rets)
    chk.decide(rr and okr, "K-PATH", "vhdx:open_parent-fails-loudly", octx.func,
               f"{len(hs)} handler(s) re-raise; the only normal result is an opened VHDX" if rr and okr else
               "open_parent can return without an opened parent (a handler swallows the failure or a non-VHDX value is returned)")
    # VMDK
    rel = "disk/vmdk.py"
    mk = chk.prog.cls(rel, "VMDK").key
    init = chk.func(rel, "VMDK.__init__")
    sites = []
    for n in _own_nodes(init.func):
        if isinstance(n, ast.Assign) and isinstance(n.targets[0], ast.Attribute) and n.targets[0].attr == "parent" and not (isinstance(n.value, ast.Constant)):
            t = R.expr(init, n.value, init.cfg.node_of[n])
            conds = conds_sym(chk, init, n)
            cid = None
            for c, p in conds:
                for x in S.walk(c):
                    if isinstance(x, tuple) and x and x[0] == "cmp" and x[3] == S.C("ffffffff"):
                        cid = x[2]
            if cid is None:
                continue
            # the descriptor object the CID is looked up in exists (its truthiness may be part of the same test)
            present = {x[1]: 1 for x in S.walk(cid) if isinstance(x, tuple) and x and x[0] == "attr" and x[2] == "attr"}
            # (conjuncts of the same tests that do not look at the CID - "there is an embedded descriptor" - are taken as given)
            for c, p in conds:
                if S.contains(c, lambda y: y == cid) and c[0] == "bool" and c[1] == "and":
                    for operand in c[2]:
                        if not S.contains(operand, lambda y: y == cid):
                            present[operand] = bool(p)
            # (a descriptor that exists only under a condition: the situations looked at are those in which the CID is consulted)
            for c, p in conds:
                for x in S.walk(c):
                    if isinstance(x, tuple) and x and x[0] == "ite":
                        in_a, in_b = S.contains(x[2], lambda y: y == cid), S.contains(x[3], lambda y: y == cid)
                        if in_a != in_b and not S.contains(x[1], lambda y: y == cid):
                            present[x[1]] = in_a
            tab = reach_table(conds, {"cid": cid}, [{"cid": "ffffffff"}, {"cid": "12345678"}, {"cid": "FFFFFFFF"}], override=present)
            sites.append((n, t[0] == "call" and t[1] == f"{rel}::open_parent" and tab[0] is False and tab[1] is True))
    chk.decide(len(sites) == 2 and all(ok for _, ok in sites), "K-PATH", "vmdk:parent-opened-when-required", init.func,
               f"{len(sites)} sites: parentCID != 'ffffffff' => parent = open_parent(dir, parentFileNameHint)")
    octx = chk.func(rel, "open_parent")
    hs, rr = _handlers_reraise(octx.func)
    outs = func_outcomes(chk, octx)
    rets = [o for o in outs if o[0] == "return"]
    okr = all(o[3][0] == "call" and o[3][1] == "new:" + mk for o in rets) and bool(rets)
    chk.decide(rr and okr, "K-PATH", "vmdk:open_parent-fails-loudly", octx.func,
               "handlers re-raise; the only normal result is an opened VMDK" if rr and okr else "open_parent can return without an opened parent")
    # descriptor-opened sparse extents receive the parent
    for n in _own_nodes(init.func):
        if isinstance(n, ast.Call):
            t = R.expr(init, n)
            if t[0] == "call" and t[1].endswith("::SparseDisk") and len(t[2]) == 1:
                kw = dict(t[3])
                if "parent" in kw:
                    chk.decide(kw["parent"][0] != "c", "K-PATH", "vmdk:extent-gets-parent", n, "descriptor-opened sparse extents are created with parent=self.parent",
                               found=S.show(kw["parent"])[:100])
    # QCOW2
    rel = "disk/qcow2.py"
    qk = chk.prog.cls(rel, "QCow2").key
    init = chk.func(rel, "QCow2.__init__")
    BF = ("p", init.qual, 3)
    st = [(m, s, v) for (m, s, v) in chk.prog.cls(rel, "QCow2").self_assigns.get("backing_file", []) if not (isinstance(v, ast.Constant) and v.value is None)]
    ok = len(st) == 1
    if ok:
        m, s, v = st[0]
        t = R.expr(init, v, init.cfg.node_of[s])
        tab = reach_table(conds_sym(chk, init, s), {"bf": BF}, [{"bf": 1}, {"bf": 7}, {"bf": 2}])
        ok = t == BF and tab == [False, True, True]
    chk.decide(ok, "K-PATH", "qcow2:backing-file-installed", st[0][1] if st else init.func,
               "the caller's backing file object is installed unless it is the explicit opt-out constant")
    # Parallels
    rel = "disk/hdd.py"
    for q in ("Storage.find_image", "Snapshots.find_shot"):
        ctx = chk.func(rel, q)
        outs = func_outcomes(chk, ctx)
        ok = _lookup_or_raise(chk, ctx, outs)
        chk.decide(ok, "K-PATH", f"parallels:{q}-raises-when-absent", ctx.func,
                   "returns the first element whose guid equals the argument and raises when no element has the GUID")
    octx = chk.func(rel, "HDD._open_image")
    outs = func_outcomes(chk, octx)
    rets = [o for o in outs if o[0] == "return"]
    ok = bool(rets) and all(o[3][0] == "call" and o[3][1] == ".open" and o[3][2][1:] == (S.C("rb"),) for o in rets)
    chk.decide(ok, "K-PATH", "parallels:_open_image-opens-or-fails", octx.func, "every return is <path>.open('rb'): a missing image raises")


def vhdx_partial(chk: Check):
    R = chk.R
    rel, crel = "disk/vhdx.py", "disk/c_vhdx.py"
    from .C03 import geometry

    vk, want, got = geometry(chk)
    bs, ss = got["block_size"], got["sector_size"]
    ctx = chk.func(rel, "VHDX.read_sectors")
    loop = loops_of(ctx)[0]
    carried = loop_carried(chk, ctx, loop)
    pn, pi = carried_with_entry(chk, carried, ("p", ctx.qual, 1))
    rn, ri = carried_with_entry(chk, carried, ("p", ctx.qual, 2))
    if pi is None or ri is None:
        chk.undecided("K-FORMULA", "vhdx:partial", loop, "loop counters not found")
        return
    POS, REM = pi["phi"], ri["phi"]
    env = {"POS": POS, "REM": REM, "bs": bs, "ss": ss}
    env["spb"] = spec_expr("bs // ss", env)
    env["ratio"] = spec_expr("(2 ** 23 * ss) // bs", env)
    env["STEP"] = spec_expr("min(REM, spb - POS % spb)", env)
    env["sic"] = spec_expr("((POS // spb) % ratio) * spb + POS % spb", env)

    def dom(leaf, rng):
        if leaf == bs:
            return (1 << 20) << rng.randrange(0, 6)
        if leaf == ss:
            return rng.choice([512, 4096])
        if leaf == REM:
            return rng.choice([1, 2, 7, 9, 64, 4096])
        return None

    floops = [l for l in ctx.loops if isinstance(l, ast.For)]
    if not floops:
        chk.violated("K-FORMULA", "vhdx:partial-runs-loop", loop, "no loop over the sector bitmap runs")
        return
    fl = floops[0]
    it = R.expr(ctx, fl.iter, ctx.cfg.node_of[fl], binds={"__exclude_loop__": fl})
    ok = it[0] == "call" and it[1] == f"{rel}::_iter_partial_runs" and len(it[2]) == 3
    chk.decide(ok, "K-PROV", "vhdx:partial-runs-call", fl, "the bitmap is decomposed by _iter_partial_runs(bitmap, start bit, count)", found=S.show(it)[:160])
    if not ok:
        return
    bitmap, start, count = it[2]
    chk.formula("K-FORMULA", "vhdx:partial-start-bit", fl, start, spec_expr("sic % 8", env), domain=dom)
    chk.formula("K-FORMULA", "vhdx:partial-count", fl, count, env["STEP"], domain=dom)
    okb = bitmap[0] == "call" and bitmap[1] == ".read" and len(bitmap[2]) == 2
    chk.decide(okb, "K-PROV", "vhdx:partial-bitmap-source", fl, "the bitmap argument is the bytes just read from the sector bitmap block", found=S.show(bitmap)[:120])
    if okb:
        r = S.equiv(bitmap[2][1], spec_expr("ceildiv(sic % 8 + STEP, 8)", env), domain=dom, n=120)
        chk.decide(r.equal is True, "K-FORMULA", "vhdx:partial-bitmap-length", fl,
                   "the bitmap read covers start bit + count bits" if r.equal is True else
                   f"the bitmap read is too short when the run does not start on a byte boundary: witness {r.witness and {k[:40]: v for k, v in list(r.witness.items())[:5]}}",
                   expected="ceil((start_bit + count) / 8)", found=S.show(bitmap[2][1])[:160])
    # inside the loop: relative sector cursor, dispatch on run type
    car2 = loop_carried(chk, ctx, fl)
    reln, reli = carried_with_entry(chk, car2, S.C(0))
    if reli is None:
        chk.violated("K-FORMULA", "vhdx:partial-relative-cursor", fl, "no running relative sector inside the partial block")
        return
    REL_ = reli["phi"]
    I0, I1 = ("iter", it, 0), ("iter", it, 1)
    for _, nx in reli["next"]:
        chk.formula("K-FORMULA", "vhdx:partial-relative-cursor", fl, nx, S.op("add", REL_, I1))
    fh = R.self_attr(vk, "fh")
    par = R.self_attr(vk, "parent")
    table = {0: set(), 1: set()}
    for call, t in appends_in(chk, ctx):
        if call not in list(ast.walk(fl)):
            continue
        eff = classify_effect(t, fh, par)
        reach = reach_table(conds_sym(chk, ctx, call), {"t": I0}, [{"t": 0}, {"t": 1}])
        for v, hit in zip((0, 1), reach):
            if hit:
                table[v].add(eff[0])
        if eff[0] == "PARENT" and len(eff[2]) == 2:
            chk.formula("K-FORMULA", "vhdx:partial-parent-sector", call, eff[2][0], S.op("add", POS, REL_), domain=dom)
            chk.formula("K-FORMULA", "vhdx:partial-parent-count", call, eff[2][1], I1)
        elif eff[0] == "FILE":
            chk.formula("K-FORMULA", "vhdx:partial-own-length", call, eff[2], S.op("mul", I1, ss), domain=dom)
    chk.decide(table == {0: {"PARENT"}, 1: {"FILE"}}, "K-DISPATCH", "vhdx:partial-bit-meaning", fl,
               "bitmap bit 0 -> sector comes from the parent, bit 1 -> from this file", expected="{0: PARENT, 1: FILE}", found=str(table))
    for s in calls_named(ctx, "seek"):
        if s in list(ast.walk(fl)):
            t = R.expr(ctx, s.args[0])
            # own-file address inside the partial block: payload block base + (sector_in_block + relative) * sector size
            ok = S.contains(t, lambda x: x == REL_) and S.contains(t, lambda x: x == ss)
            chk.decide(ok, "K-FORMULA", "vhdx:partial-own-address", s, "own sectors are read at block base + (sector in block + relative sector) * sector size",
                       found=S.show(t)[-160:])


def partial_runs(chk: Check):
    """_iter_partial_runs: the start bit is honoured in the first byte and reset afterwards."""
    R = chk.R
    rel = "disk/vhdx.py"
    ctx = chk.func(rel, "_iter_partial_runs")
    BM, ST, LN = ("p", ctx.qual, 0), ("p", ctx.qual, 1), ("p", ctx.qual, 2)
    floops = [l for l in ctx.loops if isinstance(l, ast.For)]
    if len(floops) < 2:
        chk.violated("K-FORMULA", "partial-runs", ctx.func, "expected a loop over the bitmap bytes with an inner loop over bits")
        return
    outer, inner = floops[0], floops[1]
    it = R.expr(ctx, outer.iter, ctx.cfg.node_of[outer], binds={"__exclude_loop__": outer})
    chk.decide(it == BM, "K-FORMULA", "partial-runs:iterates-bitmap", outer, "the outer loop walks the bitmap bytes")
    car = loop_carried(chk, ctx, outer)
    sn, si = carried_with_entry(chk, car, ST)
    ln, li = carried_with_entry(chk, car, LN)
    cn, cinfo = carried_with_entry(chk, car, S.C(0))
    if si is None or li is None or cinfo is None:
        chk.violated("K-FORMULA", "partial-runs", outer,
                     "the byte loop must carry the start bit (reset to 0 after the first byte), the remaining length and the current count")
        return
    SB, L = si["phi"], li["phi"]
    resets = [nx for _, nx in si["next"]]
    chk.decide(bool(resets) and all(nx == S.C(0) for nx in resets), "K-FORMULA", "partial-runs", outer,
               "the start bit is 0 for every byte after the first, on every path through the byte loop" if all(nx == S.C(0) for nx in resets) else
               "on some path through the byte loop the start bit of the first byte is kept for the following bytes: sectors are attributed to the wrong layer",
               expected="0 on every back edge", found=str([S.show(x)[:60] for x in resets]))
    # inner range
    iit = R.expr(ctx, inner.iter, ctx.cfg.node_of[inner], binds={"__exclude_loop__": inner})
    want = S.call("range", [SB, spec_expr("SB + min(L, 8 - SB)", {"SB": SB, "L": L})])
    ok = iit[0] == "call" and iit[1] == "range" and len(iit[2]) == 2

    def dom(leaf, rng):
        if leaf == SB:
            return rng.randrange(0, 8)
        if leaf == L:
            return rng.randrange(0, 40)
        return None

    if ok:
        r1 = S.equiv(iit[2][0], want[2][0], domain=dom, n=60).equal is True
        r2 = S.equiv(iit[2][1], want[2][1], domain=dom, n=120).equal is True
        ok = r1 and r2
    chk.decide(ok, "K-FORMULA", "partial-runs:bit-range", inner,
               "mixed bytes are scanned over bits [start, start + min(length, 8 - start))" if ok else
               "the bit range of a mixed byte does not honour the start bit: it must be [start, start + min(length, 8 - start))",
               expected=S.show(want)[:160], found=S.show(iit)[:160])
    # uniform bytes
    for n in ast.walk(outer):
        if isinstance(n, ast.AugAssign) and isinstance(n.target, ast.Name) and n.target.id == cn and n not in list(ast.walk(inner)):
            v = R.expr(ctx, n.value, ctx.cfg.node_of[n])
            chk.formula("K-FORMULA", "partial-runs:uniform-count", n, v, spec_expr("min(L, 8 - SB)", {"SB": SB, "L": L}), domain=dom)
    # initial type
    tn = [n for n, i in car.items() if n not in (sn, ln, cn)]
    if len(tn) == 1:
        ent = car[tn[0]]["phi"][3]
        want_t = spec_expr("(B >> ST) & 1", {"B": ("sub", BM, S.C(0)), "ST": ST})
        r = S.equiv(ent, want_t, domain=lambda l, rng: rng.randrange(0, 8) if l == ST else None, n=80)
        chk.decide(r.equal is True, "K-FORMULA", "partial-runs:initial-type", ctx.func, "the first run's type is bit `start` of the first byte", found=S.show(ent)[:120])
    # per-bit length decrement
    car_in = loop_carried(chk, ctx, inner)
    lin = [i for n, i in car_in.items() if n == ln]
    if lin:
        chk.decide(all(S.equiv(nx, S.op("sub", lin[0]["phi"], S.C(1)), n=10).equal is True for _, nx in lin[0]["next"]), "K-FORMULA",
                   "partial-runs:bit-consumes-one", inner, "each scanned bit consumes one sector of the remaining length")


def locations(chk: Check):
    R = chk.R
    # VHDX and VMDK: which path is opened, decided by evaluating the opener's argument on model hints (pure path and string
    # methods are interpreted on pathlib.PurePosixPath values; `.exists()` is forced either way)
    from pathlib import PurePosixPath as PP

    def vhdx_want(P, hint, exists):
        c1 = P.joinpath(hint["relative_path"].replace("\\", "/"))
        if exists(c1):
            return c1
        return P.joinpath("/" + hint["absolute_win32_path"].replace("\\", "/"))

    def vmdk_want(P, hint, exists):
        h = hint.replace("\\", "/")
        hdir, _, fname = h.rpartition("/")
        c1 = P.joinpath(fname)
        if exists(c1):
            return c1
        return P.parent.joinpath(hdir.rpartition("/")[2]).joinpath(fname)

    vhdx_hints = [{"relative_path": ".\\base.vhdx", "absolute_win32_path": "C:\\vms\\disks\\base.vhdx"},
                  {"relative_path": "..\\parents\\p.avhdx", "absolute_win32_path": "D:\\x\\p.avhdx"},
                  {"relative_path": "sub/dir/base.vhdx", "absolute_win32_path": "\\\\server\\share\\base.vhdx"}]
    vmdk_hints = ["base.vmdk", "../base/base.vmdk", "C:\\vms\\base disk\\base.vmdk", "/vmfs/volumes/ds1/vm/base.vmdk", "a/b/c/d.vmdk", "..\\other\\d-000001.vmdk"]
    for fmt, rel, ctor, hints, want_fn, text in (
            ("vhdx", "disk/vhdx.py", "::VHDX", vhdx_hints, vhdx_want,
             "1) <dir>/<relative_path>, 2) only if that does not exist: the absolute win32 path (back-slashes -> slashes)"),
            ("vmdk", "disk/vmdk.py", "::VMDK", vmdk_hints, vmdk_want,
             "1) <dir>/<file name of the hint>, 2) only if that does not exist: <dir>/../<last directory of the hint>/<file name>")):
        ctx = chk.func(rel, "open_parent")
        P, H = ("p", ctx.qual, 0), ("p", ctx.qual, 1)
        opens = []
        for n in _own_nodes(ctx.func):
            if isinstance(n, ast.Call):
                t = R.expr(ctx, n, ctx.cfg.node_for(n))
                if t[0] == "call" and t[1].endswith(ctor) and t[2]:
                    opens.append((n, t[2][0], conds_sym(chk, ctx, n)))
        cases = [({P: Pv, H: hint}, (Pv, hint)) for Pv in (PP("/evidence/vm/child"), PP("/a")) for hint in hints]
        _opened_path_by_evaluation(chk, ctx, opens, cases, lambda case, exists, _w=want_fn: _w(case[0], case[1], exists),
                                   ("K-PATH", f"{fmt}:parent-candidates"), text)
    # Parallels: the image file that is opened, decided the same way
    ctx = chk.func("disk/hdd.py", "HDD._open_image")
    hk = chk.prog.cls("disk/hdd.py", "HDD").key
    root = R.self_attr(hk, "path")
    PATH = ("p", ctx.qual, 1)
    opens = []
    for o in func_outcomes(chk, ctx):
        if o[0] == "return":
            for extra, alt in split_alternatives(o[3]):
                if alt[0] == "call" and alt[1] == ".open" and alt[2]:
                    opens.append((o[1], alt[2][0], list(o[2]) + list(extra)))

    def hdd_want(case, exists):
        rootv, pathv = case
        if not pathv.is_absolute():
            return rootv / pathv
        if exists(pathv):
            return pathv
        c1 = rootv / pathv.name
        if exists(c1):
            return c1
        c2 = rootv.parent / pathv.parent.name / pathv.name
        if exists(c2):
            return c2
        return rootv.parent.parent / pathv.parent.parent.name / pathv.parent.name / pathv.name

    # self.path derives from the constructor's path argument (its parent when a file inside the .hdd directory was given): the model
    # drives it through that argument, as a directory
    root_leaves = [x for x in S.walk(root) if isinstance(x, tuple) and x and x[0] == "p"]
    ROOT = root_leaves[0] if root_leaves else root
    cases = [({ROOT: rv, PATH: pv}, (rv, pv)) for rv in (PP("/evidence/copy/vm.pvm/disk.hdd"), PP("/x/y.hdd"))
             for pv in (PP("disk.hds"), PP("sub/disk.hds"), PP("/Users/u/Parallels/orig.pvm/orig.hdd/orig.hds"), PP("/a/b.hdd/c.hds"))]
    _opened_path_by_evaluation(chk, ctx, opens, cases, hdd_want, ("K-PATH", "parallels:image-candidates"),
                               "relative paths against the .hdd directory; an existing absolute path as it is; a missing one as <hdd>/<name>, "
                               "<vm dir>/<image dir name>/<name>, <vm dir parent>/<pvm name>/<image dir name>/<name>, the first that exists (the last unchecked)")
    modes = [R.expr(ctx, n.args[0], ctx.cfg.node_for(n)) for n in _own_nodes(ctx.func)
             if isinstance(n, ast.Call) and isinstance(n.func, ast.Attribute) and n.func.attr == "open" and n.args]
    chk.decide(bool(modes) and all(m == S.C("rb") for m in modes), "K-PATH", "parallels:image-opened-read-only", ctx.func, "image files are opened 'rb'",
               nontrivial=False)


def _opened_path_by_evaluation(chk: Check, ctx, opens, cases, want_fn, rule, text):
    """Which path a function opens, decided on model inputs: `opens` = [(node, path term, path conditions)], `cases` = [(override,
    case)], `want_fn(case, exists)` the specified choice.  `.exists()` / `.is_file()` are interpreted as an oracle over paths; every
    combination of answers for the paths the specification can ask about is a situation."""
    import itertools as _it
    from pathlib import PurePosixPath as PP
    if not opens:
        chk.violated(*rule, ctx.func, "nothing is opened")
        return
    bad, und = [], None
    ncase = 0
    for ov, case in cases:
        # the paths the specification may ask about: explore its decision tree
        universe = []

        def probe(c, _u=universe):
            if str(c) not in _u:
                _u.append(str(c))
            return False
        want_fn(case, probe)
        grew = True
        while grew:  # answers of True can reveal no new path in these specifications, but keep it general
            grew = False
            for combo in _it.product((True, False), repeat=len(universe)):
                ans = dict(zip(universe, combo))
                before = len(universe)
                want_fn(case, lambda c, _a=ans, _u=universe: (_u.append(str(c)) or False) if str(c) not in _a and str(c) not in _u else _a.get(str(c), False))
                if len(universe) != before:
                    grew = True
                    break
        for combo in _it.product((True, False), repeat=len(universe)):
            answers = dict(zip(universe, combo))
            foreign = []

            def oracle(p_, *a, _a=answers, _f=foreign):
                if str(p_) not in _a:
                    _f.append(str(p_))
                    return False
                return _a[str(p_)]
            val = S.Valuation(1, override=ov)
            val.call_models = {".exists": oracle, ".is_file": oracle}
            got = None
            try:
                for _n, t, conds in opens:
                    if eval_conds(conds, val):
                        got = S.ev(t, val)
                        break
            except S.EvalError as e:
                und = f"cannot evaluate the opened path: {e}"
                break
            want = want_fn(case, lambda c, _a=answers: _a[str(c)])
            ncase += 1
            if got is not None and not isinstance(got, PP):
                # the opened path did not evaluate to a path value: something in it (a hand-driven iterator, a call into code the
                # analyser does not interpret) is outside the model - no verdict either way
                und = f"the opened path does not evaluate to a path on the model inputs (case {tuple(map(str, case)) if isinstance(case, tuple) else case})"
                break
            if not isinstance(got, PP) or str(got) != str(want):
                bad.append(f"case {tuple(map(str, case)) if isinstance(case, tuple) else case}, existing {sorted(k for k, v in answers.items() if v)}: "
                           f"opens {got}, specified {want}" + (f" (asks about {foreign[0]}, which the specification never tests)" if foreign else ""))
        if und:
            break
    if und or (bad and any(S.opaque_parts(t) for _n, t, _c in opens)):
        chk.undecided(*rule, ctx.func, und or f"the opened path contains a part the analyser cannot interpret: {bad[0]}")
    else:
        chk.decide(not bad, *rule, ctx.func, text + f" ({ncase} input x existence situations evaluated)" if not bad else "; ".join(sorted(set(bad))[:2]))


def _chain_by_evaluation(chk: Check, cctx):
    """get_snapshot_chain decided on model snapshot trees: find_shot(g) is interpreted as "the record of snapshot g" (fields
    guid, parent), the loop's transition terms are evaluated round by round and the values appended to the returned list are
    collected.  Specified: [g, parent(g), parent(parent(g)), ...] down to the snapshot whose parent is the null GUID."""
    import uuid as _uuid
    R = chk.R
    rule = ("K-PROV", "parallels:chain-child-to-base")
    outs = func_outcomes(chk, cctx)
    rets = [o for o in outs if o[0] == "return"]
    loops = loops_of(cctx)
    if len(rets) != 1 or len(loops) != 1:
        chk.undecided(*rule, cctx.func, "not one loop and one return")
        return
    L = rets[0][3]
    if L[0] != "list":
        chk.undecided(*rule, cctx.func, f"the returned value is not a list built in the function: {S.show(L)[:120]}")
        return
    loop = loops[0]
    G = ("p", cctx.qual, 1)
    U = lambda k: _uuid.UUID(int=k)  # noqa: E731
    trees = [({1: 0}, 1), ({1: 2, 2: 0}, 1), ({1: 2, 2: 3, 3: 0}, 1), ({1: 2, 2: 3, 3: 0}, 2), ({5: 4, 4: 3, 3: 2, 2: 1, 1: 0}, 5),
             ({1: 2, 2: 3, 3: 0, 7: 2}, 7)]
    bad = []
    for parents, start in trees:
        def find_shot(*args, _p=parents):
            g = args[-1]
            k = g.int if isinstance(g, _uuid.UUID) else None
            if k not in _p:
                raise S.EvalError("unknown snapshot")
            return S.Rec(f"shot{k}", guid=U(k), parent=U(_p[k]))
        models = {".find_shot": find_shot}
        want = []
        k = start
        while k:
            want.append(U(k))
            k = parents[k]
        base = {G: U(start)}
        v0 = S.Valuation(1, override=base)
        v0.call_models = models
        try:
            got = [S.ev(x, v0) for x in L[1]]
        except S.EvalError as e:
            chk.undecided(*rule, cctx.func, f"cannot evaluate the initial chain: {e}")
            return
        # appends in front of the loop
        pre = [n for n in _own_nodes(cctx.func) if isinstance(n, ast.Expr) and isinstance(n.value, ast.Call) and isinstance(n.value.func, ast.Attribute)
               and n.value.func.attr == "append" and not any(n is x for x in ast.walk(loop)) and n.lineno < loop.lineno]
        for n in pre:
            if R.expr(cctx, n.value.func.value, cctx.cfg.node_of.get(n)) == L:
                got.append(S.ev(R.expr(cctx, n.value.args[0], cctx.cfg.node_of.get(n)), v0))
        carried = loop_carried(chk, cctx, loop)
        state_ok = True
        # one round at a time: the list's current contents are what `x in chain` sees
        inputs_done = 0
        rounds_all = []
        cur = list(got)
        # other containers the walk fills (a `seen` set for the cycle test): their contents follow the adds in the same way
        others = {}
        for n_ in ast.walk(loop):
            if isinstance(n_, ast.Call) and isinstance(n_.func, ast.Attribute) and n_.func.attr in ("add", "append") and isinstance(n_.func.value, ast.Name) and n_.args:
                tt = R.expr(cctx, n_.func.value, cctx.cfg.node_for(n_))
                if tt == L or tt in others:
                    continue
                init_ = None
                for a_ in _own_nodes(cctx.func):
                    if isinstance(a_, ast.Assign) and len(a_.targets) == 1 and isinstance(a_.targets[0], ast.Name) and a_.targets[0].id == n_.func.value.id \
                            and not any(a_ is x for x in ast.walk(loop)):
                        v_ = a_.value
                        if isinstance(v_, (ast.Set, ast.List, ast.Tuple)):
                            init_ = [S.ev(R.expr(cctx, e_, cctx.cfg.node_of.get(a_)), v0) for e_ in v_.elts]
                        elif isinstance(v_, ast.Call) and isinstance(v_.func, ast.Name) and v_.func.id in ("set", "list") and not v_.args:
                            init_ = []
                if init_ is not None:
                    others[tt] = init_
        # re-run the simulation with a growing prefix so that the override of the list term follows the appends
        n_rounds = len(parents) + 2
        seq = []
        for _ in range(n_rounds):
            step_ov = {L: tuple(cur)}
            step_ov.update({t_: tuple(c_) for t_, c_ in others.items()})
            seq.append(step_ov)
            rounds = simulate_loop(chk, cctx, loop, carried, seq, base=base, call_models=models)
            if len(rounds) < len(seq):
                break
            last = rounds[-1]
            if last[2][0] in ("fork", "limit"):
                state_ok = False
                break
            for call, v in appended_in_round(chk, cctx, last):
                if R.expr(cctx, call.func.value, cctx.cfg.node_for(call)) == L:
                    cur.append(v)
            for meth in ("add", "append"):
                for call, v in appended_in_round(chk, cctx, last, method=meth):
                    tt = R.expr(cctx, call.func.value, cctx.cfg.node_for(call))
                    if tt in others:
                        others[tt].append(v)
            if last[2][0] not in ("back", "continue") and not (last[2][0] == "left" and last[2][1] is cctx.cfg.node_of[loop]):
                break
        if not state_ok:
            chk.undecided(*rule, loop, "a test of the walk could not be evaluated on the model snapshot tree")
            return
        if cur != want:
            bad.append(f"snapshots {parents} (child: parent), chain of {start}: {[x.int for x in cur if isinstance(x, _uuid.UUID)]}, specified {[x.int for x in want]}")
    chk.decide(not bad, *rule, cctx.func, f"the chain lists the requested snapshot first and then each parent down to the base "
               f"({len(trees)} model snapshot trees evaluated)" if not bad else "; ".join(bad[:2]))


def _stack_by_evaluation(chk: Check, octx, l, it):
    """The per-storage layer loop of HDD.open decided on model layer lists: find_image(g) is interpreted as the image record of
    layer g (type, file), HDS(fh, parent) as a record of its arguments.  Specified: starting from nothing, a Compressed image
    becomes HDS(its file, parent = the stream so far), a Plain image becomes its file; any other type raises."""
    R = chk.R
    cfg = octx.cfg
    car = loop_carried(chk, octx, l)
    rule_p = ("K-PROV", "parallels:parent-is-previous-stream")
    rule_s = ("K-PROV", "parallels:layer-becomes-stream")
    # the stream of a storage: second component of what is recorded per storage behind the layer loop
    outer = [x for x in octx.loops if x is not l and any(y is l for y in ast.walk(x))]
    recs = [n for n in ast.walk(outer[0] if outer else octx.func) if isinstance(n, ast.Call) and isinstance(n.func, ast.Attribute) and n.func.attr == "append"
            and n.args and not any(n is y for y in ast.walk(l))]
    sname = None
    for a in recs:
        tt = R.expr(octx, a.args[0], cfg.node_for(a))
        if tt[0] == "tuple" and len(tt[1]) == 2:
            for nme in car:
                if R._name(octx, nme, cfg.node_for(a), {}, False, 0) == tt[1][1]:
                    sname = nme
    if sname is None:
        chk.undecided(*rule_s, l, "cannot identify the per-storage stream recorded behind the layer loop")
        return
    names = {}
    opens = []
    for n in ast.walk(l):
        if isinstance(n, ast.Call):
            tt = R.expr(octx, n, cfg.node_for(n))
            if tt[0] == "call":
                for suffix in ("find_image", "_open_image", "HDS"):
                    if tt[1].endswith(suffix):
                        names[suffix] = tt[1]
                        if suffix == "_open_image":
                            opens.append((n, tt))
    if set(names) != {"find_image", "_open_image", "HDS"} or len({tt for _, tt in opens}) != 1:
        chk.undecided(*rule_s, l, f"the layer loop does not consist of find_image / _open_image / HDS calls: {sorted(names)}")
        return
    ITER = ("iter", it, None)
    open_term = opens[0][1]

    def hds(fh, parent=None, **kw):
        return S.Rec(f"HDS({fh!r}, parent={parent!r})", fh=fh, parent=parent)

    def open_image(*args):
        return S.Rec(f"file[{S._key(args[-1])}]")

    import itertools
    bad_p, bad_s, und = [], [], None
    nseq = 0
    for n_layers in (1, 2, 3):
        for types in itertools.product(("Compressed", "Plain"), repeat=n_layers):
            nseq += 1

            def find_image(*args, _t=types):
                g = args[-1]
                if not isinstance(g, int) or not 0 <= g < len(_t):
                    raise S.EvalError("unknown layer")
                return S.Rec(f"image{g}", type=_t[g], file=f"layer{g}.hds", guid=g)
            models = {names["find_image"]: find_image, names["_open_image"]: open_image, names["HDS"]: hds}
            rounds = simulate_loop(chk, octx, l, car, [{ITER: k} for k in range(n_layers)], call_models=models)
            if len(rounds) != n_layers or any(r[2][0] in ("fork", "limit") for r in rounds):
                und = f"layers {types}: the loop body could not be evaluated round by round"
                break
            want = None
            first_parent_seen = rounds[0][0].get(sname)
            for k, r in enumerate(rounds):
                try:
                    fh = S.ev(open_term, r.val)
                except S.EvalError:
                    fh = None
                want = hds(fh, want) if types[k] == "Compressed" else fh
            got = rounds.final.get(sname)
            if first_parent_seen is not None:
                bad_p.append(f"the stack of a storage starts from {first_parent_seen!r}, not from nothing")
            elif S._key(got) != S._key(want):
                (bad_p if "parent=" in repr(want) and repr(got).count("HDS") == repr(want).count("HDS") else bad_s).append(
                    f"layers base-first {types}: stream {got!r}, specified {want!r}")
        if und:
            break
    if und:
        chk.undecided(*rule_s, l, und)
        return
    leaked = bool(bad_p) and "starts from" in bad_p[0]
    chk.decide(not bad_p, *rule_p, l,
               f"each expanding image is opened with parent = the stream of the layer below, the base with none ({nseq} model layer lists evaluated)"
               if not bad_p else ("the layer stack of a storage does not start empty: the stream variable is not reset to None per storage, so the base "
                                  "image of a later storage gets the previous storage's stream as its parent" if leaked else bad_p[0]))
    chk.decide(not bad_s, *rule_s, l, "the layer just opened becomes the stream for the next layer (HDS for Compressed, the file for Plain)"
               if not bad_s else bad_s[0])
    # an image type other than Compressed / Plain is refused

    def find_bogus(*args):
        return S.Rec("image0", type="Sparse2", file="layer0.hds", guid=0)
    rounds = simulate_loop(chk, octx, l, car, [{ITER: 0}], call_models={names["find_image"]: find_bogus, names["_open_image"]: open_image, names["HDS"]: hds})
    chk.decide(bool(rounds) and rounds[0][2][0] == "raise", "K-DISPATCH", "parallels:unknown-image-type-refused", l,
               "an image type other than Compressed / Plain raises instead of being stacked as something else", nontrivial=False)


def parallels_chain(chk: Check):
    R = chk.R
    rel = "disk/hdd.py"
    cctx = chk.func(rel, "Descriptor.get_snapshot_chain")
    _chain_by_evaluation(chk, cctx)
    octx = chk.func(rel, "HDD.open")
    hk = chk.prog.cls(rel, "HDD").key
    floops = [l for l in octx.loops if isinstance(l, ast.For)]
    inner = None
    for l in floops:
        t = R.expr(octx, l.iter, octx.cfg.node_of[l], binds={"__exclude_loop__": l})
        # strip identity wrappers: x[:], list(x), tuple(x)
        core = t
        while (core[0] == "sub" and core[2][0] == "slice" and core[2][1:] in ((S.C(None), S.C(None)), (S.C(None), S.C(None), S.C(1)))) or \
                (core[0] == "call" and core[1] in ("list", "tuple") and len(core[2]) == 1):
            core = core[1] if core[0] == "sub" else core[2][0]
        is_rev = (core[0] == "sub" and core[2][0] == "slice" and len(core[2]) > 3 and core[2][1:3] == (S.C(None), S.C(None)) and core[2][3] == S.C(-1)) or \
                 (core[0] == "call" and core[1] == "reversed" and len(core[2]) == 1)
        src_ = core[1] if core[0] == "sub" else (core[2][0] if core[0] == "call" and core[2] else core)
        if is_rev and S.contains(src_, lambda x: isinstance(x, tuple) and x and x[0] == "call" and x[1].endswith("get_snapshot_chain")):
            inner = (l, t)
    if inner is None:
        # positively top-first: the loop runs over the chain itself (possibly through identity wrappers)
        direct = None
        for l in floops:
            t = R.expr(octx, l.iter, octx.cfg.node_of[l], binds={"__exclude_loop__": l})
            core = t
            while (core[0] == "sub" and core[2][0] == "slice" and core[2][1:] in ((S.C(None), S.C(None)), (S.C(None), S.C(None), S.C(1)))) or \
                    (core[0] == "call" and core[1] in ("list", "tuple") and len(core[2]) == 1):
                core = core[1] if core[0] == "sub" else core[2][0]
            if core[0] == "call" and core[1].endswith("get_snapshot_chain"):
                direct = l
        if direct is not None:
            chk.violated("K-PROV", "parallels:stack-base-first", direct,
                         "the chain is not walked base-first: a child would become the parent of its own ancestor")
        else:
            chk.undecided("K-PROV", "parallels:stack-base-first", octx.func, "cannot tell in which order the snapshot chain is walked")
        return
    chk.decide(True, "K-PROV", "parallels:stack-base-first", octx.func,
               "images are stacked by walking the chain in reverse (base first, requested snapshot last)")
    l, t = inner
    _stack_by_evaluation(chk, octx, l, t)
    # top guid
    g = None
    for n in _own_nodes(octx.func):
        if isinstance(n, ast.Assign) and isinstance(n.value, ast.BoolOp) and isinstance(n.value.op, ast.Or):
            g = R.expr(octx, n.value, octx.cfg.node_of[n])
            conds = conds_sym(chk, octx, n)
    ok = g is not None and g[0] == "bool" and g[1] == "or" and S.contains(g[2][0], lambda x: isinstance(x, tuple) and x and x[0] == "attr" and x[2] == "top_guid") \
        and S.is_const(g[2][1]) and str(g[2][1][1]) == "5fbaabe3-6958-40ff-92a7-860e329aab41"
    chk.decide(ok, "K-PROV", "parallels:top-guid-from-descriptor", octx.func, "without an explicit GUID the descriptor's TopGUID is used, the well-known default only if it has none")


def qcow2_snapshot(chk: Check):
    R = chk.R
    rel = "disk/qcow2.py"
    ctx = chk.func(rel, "QCow2Snapshot.open")
    sk = chk.prog.cls(rel, "QCow2Snapshot").key
    stores = []
    for n in _own_nodes(ctx.func):
        if isinstance(n, ast.Assign) and isinstance(n.targets[0], ast.Attribute):
            base = R.expr(ctx, n.targets[0].value, ctx.cfg.node_of[n])
            val = R.expr(ctx, n.value, ctx.cfg.node_of[n])
            stores.append((n, n.targets[0].attr, base, val))
    on_copy = [s for s in stores if s[2][0] == "call" and s[2][1] in ("ext:copy.copy", "ext:copy.deepcopy")]
    on_live = [s for s in stores if s not in on_copy]
    l1 = R.self_attr(sk, "l1_table")
    BUFSTATE = {"_buf", "_pos", "_pos_align"}
    l1s = [s for s in on_copy if s[1] == "l1_table"]
    ok = len(l1s) == 1 and l1s[0][3] == l1 and not on_live and all(s[1] in BUFSTATE for s in on_copy if s not in l1s)
    chk.decide(ok, "K-PATH", "qcow2:snapshot-view-on-copy", ctx.func,
               "the snapshot's L1 table is installed on a copy of the image object, never on the live object" if ok else
               f"stores in open(): on a copy {[s[1] for s in on_copy]}, on live objects {[s[1] for s in on_live]}")
    outs = func_outcomes(chk, ctx)
    rets = [o for o in outs if o[0] == "return"]
    chk.decide(bool(rets) and all(o[3][0] == "call" and o[3][1].startswith("ext:copy.") for o in rets), "K-PATH", "qcow2:snapshot-view-returned", ctx.func,
               "the copy is what is returned")
    # the copy is a shallow copy of a buffered stream: position and alignment buffer of the live object come along, and
    # seek(0) keeps a buffer whose aligned position is already 0 - the view must get a fresh stream state
    cfg = ctx.cfg
    fresh = []
    for n in _own_nodes(ctx.func):
        if isinstance(n, ast.Call):
            t = R.expr(ctx, n, cfg.node_for(n))
            if t[0] == "call" and t[1].startswith("ext:") and t[1].endswith("AlignedStream.__init__") and t[2] and \
                    t[2][0][0] == "call" and t[2][0][1].startswith("ext:copy."):
                fresh.append(n)
    for s_ in on_copy:
        if s_[1] == "_buf" and s_[3] == S.C(None):
            fresh.append(s_[0])
    okf = bool(fresh) and bool(rets) and any(all(cfg.dominates(cfg.node_for(f), cfg.node_for(r[1])) for r in rets) for f in fresh)
    chk.decide(okf, "K-PATH", "qcow2:snapshot-view-fresh-stream-state", fresh[0] if fresh else ctx.func,
               "the copied stream's buffered state is reset (base initialiser re-run on the copy, or its buffer cleared) before the view is returned"
               if okf else "the shallow copy keeps the live stream's alignment buffer: seek(0) does not drop a buffer that already sits at "
               "aligned position 0, so the view's first read returns the active image's bytes")


def _lookup_or_raise(chk: Check, ctx, outs) -> bool:
    """A look-up by GUID over a collection attribute: `for x in coll: if x.guid == guid: return x` followed by `raise`, or
    `x = next((x for x in coll if x.guid == guid), None)` with `raise` when x is None."""
    rets = [o for o in outs if o[0] == "return"]
    raises = [o for o in outs if o[0] == "raise"]
    if not rets or not raises:
        return False
    key = ("p", ctx.qual, 1)

    def is_match(c, it):
        return c[0] == "cmp" and c[1] == "==" and {c[2], c[3]} == {("attr", it, "guid"), key}

    # shape 1: return inside the loop under the match, unconditional raise behind the loop
    def loop_shape():
        for r in rets:
            it = r[3]
            if not (it[0] == "iter" and it[2] is None and any(p and is_match(c, it) for c, p in r[2])):
                return False
        return outs[-1][0] == "raise" and not outs[-1][2]

    # shape 2: next(generator filtered by the match, None); raise iff the result is None
    def next_shape():
        for r in rets:
            v = r[3]
            if not (v[0] == "call" and v[1] == "next" and len(v[2]) == 2 and v[2][1] == S.C(None) and v[2][0][0] == "comp"):
                return False
            comp = v[2][0]
            it = ("iter", comp[3], None)
            if not (comp[2] == it and len(comp[4]) == 1 and is_match(comp[4][0], it)):
                return False
            none_t, some_t = ("cmp", "is", v, S.C(None)), ("cmp", "isnot", v, S.C(None))
            if not any((c == none_t and not p) or (c == some_t and p) for c, p in r[2]):
                return False
            if not any(len(o[2]) == 1 and ((o[2][0][0] == none_t and o[2][0][1]) or (o[2][0][0] == some_t and not o[2][0][1])) for o in raises):
                return False
        return True

    return loop_shape() or next_shape()
