"""C14 - exposed image metadata and parent references equal what the file stores (structural clauses)."""
from __future__ import annotations

import ast

from .. import sym as S
from ..calls import iter_functions
from ..engine import HOLDS, UNDECIDED, VIOLATED, Check
from ..loader import AnalysisError, parent
from ..recon import _own_nodes
from ..rulelib import (func_outcomes, eval_conds, split_alternatives, flows_from, _typestate, calls_named, carried_with_entry, check_layout, conds_sym, field_map, fld, inst_attr,
                       insts_in_func, loop_carried, loops_of, reach_table, spec_expr)
from ..spec.layouts import LAYOUTS, OWNERS

LEVEL = "other"
TECHNIQUE = ("static analysis: layout comparison, provenance of every exposed attribute (field -> attribute without transformation), "
             "record-consumption rule for sequential tables, sequence-number decision tables, Element-truthiness lint")
EXPLANATION = (
    "Decides structural necessary conditions of faithful metadata: header layouts (positional); every exposed attribute of the "
    "disk classes is assigned from the specified field / read (length and position from the specified fields, specified "
    "encoding) with no case transformation; the QCOW2 header extension walk (start at header_length, end at the backing file "
    "offset or the cluster size, 8-byte header, payload of `len` bytes, padding to 8) and the snapshot table walk (each entry "
    "starts on an 8-byte boundary and consumes 40 + extra_data_size + id_str_size + name_size bytes, unknown extra data taken "
    "from the bytes already read); VHDX header selection by the higher sequence number, parent locator keys / values decoded as "
    "UTF-16-LE at offset + key/value offset with the stored lengths, disk id from the GUID item in bytes_le order; VMDK descriptor "
    "parsing (comments / blanks skipped, split at the first '=', ddb. routing, extent lines) and the embedded descriptor window; "
    "Parallels descriptor element mapping; no XML Element is tested for truthiness; the virtual size / block size / sector size "
    "clauses of VHDX, VHD, VDI and Parallels HDS are adopted from C03 - C06 (prefixed instances). Does NOT decide equality for every stored value."
)
ASSUMPTIONS = ["terms are compared by normal form and randomised identity testing"]

CASE_TRANSFORMS = {".upper", ".lower", ".title", ".casefold", ".swapcase", ".capitalize"}
XML_MODULES = ["disk/hdd.py", "descriptor/ovf.py", "descriptor/vbox.py", "descriptor/pvs.py"]


def run(chk: Check):
    R = chk.R
    for rel in OWNERS["C14"]:
        for (r, name) in LAYOUTS:
            if r == rel:
                check_layout(chk, rel, name)
    qcow2(chk)
    vhdx(chk)
    vmdk(chk)
    parallels(chk)
    truthiness(chk)
    transforms(chk)
    # virtual size / allocation unit / sector size of the other formats: decided by the format's own property, adopted here
    chk.share("C03", lambda i: i.name.startswith("geometry:"), 4)
    chk.share("C04", lambda i: i.name in ("size<-footer.current_size", "stream-size"), 2)
    chk.share("C05", lambda i: i.name.startswith("geometry:") or i.name == "stream-size", 3)
    chk.share("C06", lambda i: i.name in ("cluster-size", "size-by-version"), 2)
    chk.require("K-PROV", 20)
    chk.require("K-CONSUME", 4)
    chk.require("K-TRUTHY", 1)


# --------------------------------------------------------------------------------------------------------------

def qcow2(chk: Check):
    R = chk.R
    rel, crel = "disk/qcow2.py", "disk/c_qcow2.py"
    qk = chk.prog.cls(rel, "QCow2").key
    hdr = inst_attr(chk, rel, "QCow2", "QCowHeader")
    F = lambda n: fld(chk, hdr, crel, "QCowHeader", n)  # noqa: E731
    init = chk.func(rel, "QCow2.__init__")
    fh = R.self_attr(qk, "fh")
    # stream size
    sup = [n for n in ast.walk(init.func) if isinstance(n, ast.Call) and ast.unparse(n.func) == "super().__init__"]
    if sup and sup[0].args:
        chk.decide(R.expr(init, sup[0].args[0]) == F("size"), "K-PROV", "qcow2:size", sup[0], "virtual size is header.size (u64 @24)")
    # backing file name
    abf = R.self_attr(qk, "auto_backing_file")
    want = S.call(".decode", [S.call(".read", [fh, F("backing_file_size")])])
    alts = [a for a in S.alternatives(abf) if a != S.C(None)]
    chk.decide(alts == [want], "K-PROV", "qcow2:auto_backing_file", init.func,
               "auto_backing_file is the backing_file_size bytes read from the image, decoded, untransformed",
               expected=S.show(want)[:200], found=S.show(abf)[:200])
    for s in calls_named(init, "seek"):
        t = R.expr(init, s.args[0])
        chk.decide(t == F("backing_file_offset"), "K-PROV", "qcow2:backing-name-address", s, "the name is read at backing_file_offset", found=S.show(t)[:120])
    # extension walk
    ectx = chk.func(rel, "QCow2._read_extensions")
    loops = loops_of(ectx)
    if not loops:
        raise AnalysisError("ANCHOR-VANISHED QCow2._read_extensions has no loop")
    loop = loops[0]
    car = loop_carried(chk, ectx, loop)
    oname, oinfo = carried_with_entry(chk, car, F("header_length"))
    if oinfo is None:
        chk.violated("K-CONSUME", "qcow2:extensions-start", loop, "the extension walk does not start at header_length (72 for version 2 after normalisation)")
        return
    OFF = oinfo["phi"]
    chk.holds("K-CONSUME", "qcow2:extensions-start", loop, "the walk starts at header_length")
    test = R.expr(ectx, loop.test, ectx.cfg.node_of[loop])
    env = {"OFF": OFF, "bfo": F("backing_file_offset"), "cb": F("cluster_bits")}
    want_t = spec_expr("OFF < (bfo if bfo else (1 << cb))", env)

    def dom(leaf, rng):
        if leaf == env["cb"]:
            return rng.randrange(9, 22)
        if leaf == env["bfo"]:
            return rng.choice([0, 0, 200, 4096])
        if leaf == OFF:
            return rng.choice([72, 104, 112, 500, 5000, 1 << 22])
        return None

    chk.formula("K-CONSUME", "qcow2:extensions-end", loop, test, want_t, domain=dom)
    ext = insts_in_func(chk, ectx, "QCowExtension")
    if not ext:
        chk.violated("K-CONSUME", "qcow2:extension-header", loop, "no QCowExtension header is read")
        return
    _, fm = field_map(chk, crel, "QCowExtension")
    elen = R.field(ext[0], fm["len"].name)
    emagic = R.field(ext[0], fm["magic"].name)
    for s in calls_named(ectx, "seek"):
        chk.formula("K-CONSUME", "qcow2:extension-address", s, R.expr(ectx, s.args[0]), OFF)
    e2 = {"OFF": OFF, "len": elen}
    for src, nx in oinfo["next"]:
        chk.formula("K-CONSUME", "qcow2:extension-advance", loop, nx, spec_expr("OFF + 8 + ((len + 7) & ~7)", e2),
                    domain=lambda l, r: r.randrange(0, 1 << 20) if l == elen else None)
    # payload reads have the stored length; exposures by magic
    magics = {0xE2792ACA: "backing_format", 0x6803F857: "feature_table", 0x44415441: "image_data_file"}
    ci = chk.prog.cls(rel, "QCow2")
    for mval, attr in magics.items():
        sts = [(m, st, v) for (m, st, v) in ci.self_assigns.get(attr, []) if m.name == "_read_extensions"]
        if not sts:
            chk.violated("K-PROV", f"qcow2:extension:{attr}", ectx.func, f"{attr} is not assigned from its header extension")
            continue
        m, st, v = sts[0]
        conds = conds_sym(chk, ectx, st)
        tab = reach_table(conds, {"m": emagic}, [{"m": k} for k in list(magics) + [0x0537BE77, 0x23852875, 1]])
        want_tab = [k == mval for k in list(magics) + [0x0537BE77, 0x23852875, 1]]
        t = R.expr(ectx, v, ectx.cfg.node_of[st])
        has_read = S.contains(t, lambda x: x == S.call(".read", [fh, elen]))
        chk.decide(tab == want_tab and has_read, "K-PROV", f"qcow2:extension:{attr}", st,
                   f"{attr} <- payload (len bytes) of the extension with magic {mval:#x}", found=f"{S.show(t)[:120]} / magic table {tab}")
    # snapshots
    sctx = chk.func(rel, "QCow2.snapshots")
    floops = [l for l in sctx.loops if isinstance(l, ast.For)]
    if not floops:
        chk.violated("K-CONSUME", "snapshot-entry-alignment", sctx.func, "no loop over the snapshot table")
        return
    loop = floops[0]
    it = R.expr(sctx, loop.iter, sctx.cfg.node_of[loop], binds={"__exclude_loop__": loop})
    chk.decide(it == S.call("range", [F("nb_snapshots")]), "K-CONSUME", "snapshot-count", loop, "the walk reads nb_snapshots entries", found=S.show(it)[:100])
    car = loop_carried(chk, sctx, loop)
    oname, oinfo = carried_with_entry(chk, car, F("snapshots_offset"))
    sk = chk.prog.cls(rel, "QCow2Snapshot").key
    if oinfo is None:
        chk.violated("K-CONSUME", "snapshot-entry-alignment", loop, "the snapshot walk does not start at snapshots_offset")
        return
    OFF = oinfo["phi"]
    news = [n for n in ast.walk(loop) if isinstance(n, ast.Call) and R.expr(sctx, n)[0] == "call" and R.expr(sctx, n)[1] == "new:" + sk]
    if not news:
        chk.violated("K-CONSUME", "snapshot-entry-alignment", loop, "no QCow2Snapshot is created per entry")
        return
    at = R.expr(sctx, news[0])[2][1]
    want_at = spec_expr("(OFF + 7) & ~7", {"OFF": OFF})
    r = S.equiv(at, want_at, n=80)
    chk.decide(r.equal is True, "K-CONSUME", "snapshot-entry-alignment", news[0],
               "each snapshot table entry is parsed at the running offset rounded up to 8 bytes" if r.equal is True else
               "snapshot table entries start on 8-byte boundaries, but the next entry is parsed directly behind the previous name: every entry "
               "after one whose length is not a multiple of 8 is garbage", expected=S.show(want_at), found=S.show(at)[:160])
    es = R.self_attr(sk, "entry_size")
    for src, nx in oinfo["next"]:
        # next running offset = aligned start + entry size
        sizes = [x for x in S.walk(nx) if isinstance(x, tuple) and x and x[0] == "attr" and x[2] == "entry_size"]
        if not sizes and S.contains(nx, lambda x: x == es):
            sizes = [es]  # the entry's size spelled out (position after the name - entry start)
        # next running offset = the (aligned) position this entry was parsed at + the size it reports
        ok = bool(sizes) and S.equiv(nx, S.op("add", at, sizes[0]), n=60).equal is True
        chk.decide(ok, "K-CONSUME", "snapshot-offset-advance", loop, "the running offset advances by the parsed entry's size", found=S.show(nx)[:200])
    # the entry itself
    ictx = chk.func(rel, "QCow2Snapshot.__init__")
    OFFP = ("p", ictx.qual, 2)
    sh = insts_in_func(chk, ictx, "QCowSnapshotHeader")
    if not sh:
        chk.violated("K-CONSUME", "snapshot-entry-consumption", ictx.func, "no snapshot header is read")
        return
    _, fm = field_map(chk, crel, "QCowSnapshotHeader")
    Hf = lambda n: R.field(sh[0], fm[n].name)  # noqa: E731
    for s in calls_named(ictx, "seek"):
        chk.formula("K-CONSUME", "snapshot-entry-address", s, R.expr(ictx, s.args[0]), OFFP)
    reads = [R.expr(ictx, r_.args[0]) for r_ in calls_named(ictx, "read") if r_.args]
    want_reads = [Hf("extra_data_size"), Hf("id_str_size"), Hf("name_size")]
    chk.decide(reads == want_reads, "K-CONSUME", "snapshot-entry-consumption", ictx.func,
               "after the 40-byte header an entry consumes exactly extra_data_size, id_str_size and name_size bytes, in this order "
               "(unknown extra data is part of extra_data_size, not additional)" if reads == want_reads else
               f"reads after the header: {[S.show(x)[-40:] for x in reads]}; specified extra_data_size, id_str_size, name_size - anything "
               "else shifts id / name of the entry and the start of the next entry",
               expected=str([S.show(x)[-30:] for x in want_reads]), found=str([S.show(x)[-30:] for x in reads]))
    for attr, f in (("id_str", "id_str_size"), ("name", "name_size")):
        t = R.self_attr(sk, attr)
        want = S.call(".decode", [S.call(".read", [("p", f"{rel}::QCow2.__init__", 1), Hf(f)])])
        chk.decide(t == want, "K-PROV", f"snapshot:{attr}", ictx.func, f"{attr} is the {f} bytes decoded, untransformed", found=S.show(t)[:160])
    es_want = S.op("sub", S.call(".tell", [("p", f"{rel}::QCow2.__init__", 1)]), OFFP)
    chk.decide(es == es_want, "K-CONSUME", "snapshot-entry-size", ictx.func, "entry_size = position after the name - entry start", found=S.show(es)[:120])
    _typestate(chk, ictx, "snapshot")
    # snapshot L1 table from the snapshot header
    lctx = chk.func(rel, "QCow2Snapshot.l1_table")
    for s in calls_named(lctx, "seek"):
        chk.decide(R.expr(lctx, s.args[0]) == Hf("l1_table_offset"), "K-PROV", "snapshot:l1-address", s, "the snapshot's L1 table is read at its own l1_table_offset")
    l1 = R.self_attr(sk, "l1_table")
    chk.decide(l1[0] == "read" and l1[2] == Hf("l1_size"), "K-PROV", "snapshot:l1-size", lctx.func, "... with its own l1_size entries", found=S.show(l1)[:160])


def vhdx(chk: Check):
    R = chk.R
    rel, crel = "disk/vhdx.py", "disk/c_vhdx.py"
    vk = chk.prog.cls(rel, "VHDX").key
    init = chk.func(rel, "VHDX.__init__")
    hdr = R.self_attr(vk, "header")
    hs = insts_in_func(chk, init, "header")
    ok = False
    detail = "two header copies are read"
    if len(hs) == 2 and hdr[0] == "ite":
        _, fm = field_map(chk, crel, "header")
        s1, s2 = R.field(hs[0], fm["sequence_number"].name), R.field(hs[1], fm["sequence_number"].name)
        tab = {}
        for a, b in ((5, 3), (3, 5), (0, 1), (1 << 40, 7)):
            v = S.Valuation(1, assign={s1: a, s2: b})
            try:
                c = bool(S.ev(hdr[1], v))
            except S.EvalError:
                c = None
            chosen = hdr[2] if c else hdr[3]
            tab[(a, b)] = 1 if chosen == hs[0] else 2 if chosen == hs[1] else 0
        want = {(5, 3): 1, (3, 5): 2, (0, 1): 2, (1 << 40, 7): 1}
        ok = tab == want
        detail = f"active header = the copy with the higher sequence number: {tab}"
    chk.decide(ok, "K-DISPATCH", "vhdx:header-by-sequence-number", init.func, detail, found=S.show(hdr)[:200] if not ok else None)
    # id
    idt = R.self_attr(vk, "id")
    okid = idt[0] == "call" and idt[1] == "ext:uuid.UUID" and dict(idt[3]).get("bytes_le") is not None and "beca12ab" in S.show(idt)
    chk.decide(okid, "K-PROV", "vhdx:id", init.func, "disk id = UUID(bytes_le = virtual disk id item)", found=S.show(idt)[:200])
    # parent locator decoding
    pctx = chk.func(rel, "ParentLocator.__init__")
    floops = [l for l in pctx.loops if isinstance(l, ast.For)]
    pk = chk.prog.cls(rel, "ParentLocator").key
    if not floops:
        chk.violated("K-PROV", "vhdx:locator-entries", pctx.func, "no loop over the parent locator entries")
        return
    loop = floops[0]
    it = R.expr(pctx, loop.iter, pctx.cfg.node_of[loop], binds={"__exclude_loop__": loop})
    E = ("iter", it, None)
    _, fm = field_map(chk, crel, "parent_locator_entry")
    base = R.self_attr(pk, "offset")
    # every string is read by a seek + read pair (paired in execution order); which pair gives the key and which the value is
    # read off the store entries[K] = V, so the order in which the two strings are fetched does not matter
    def order(n):
        node = pctx.cfg.node_for(n)
        return (node.id if node is not None else 0, n.lineno, n.col_offset)
    seeks = sorted(calls_named(pctx, "seek"), key=order)
    reads = sorted([x for x in calls_named(pctx, "read") if x.args], key=order)
    pairs = []
    for sk_, rd_ in zip(seeks, reads):
        pairs.append((R.expr(pctx, sk_.args[0], pctx.cfg.node_for(sk_)), R.expr(pctx, rd_.args[0], pctx.cfg.node_for(rd_)), rd_))
    stores = [n for n in ast.walk(loop) if isinstance(n, ast.Assign) and isinstance(n.targets[0], ast.Subscript)]
    seek_of = {id(rd_): sk_ for sk_, rd_ in zip(seeks, reads)} if len(seeks) == len(reads) else {}

    def file_range(e, at, depth=6):
        """(start term, length term, [bound conditions]) of the file bytes an expression's value consists of, or None."""
        if isinstance(e, ast.Call) and isinstance(e.func, ast.Attribute) and e.func.attr == "decode":
            return file_range(e.func.value, at, depth)
        if isinstance(e, ast.Call) and id(e) in seek_of:
            sk_ = seek_of[id(e)]
            return R.expr(pctx, sk_.args[0], pctx.cfg.node_for(sk_)), R.expr(pctx, e.args[0], pctx.cfg.node_for(e)), []
        if isinstance(e, ast.Subscript) and isinstance(e.slice, ast.Slice) and e.slice.step is None:
            inner = file_range(e.value, at, depth)
            if inner is None:
                return None
            start, ln, bounds = inner
            lo = R.expr(pctx, e.slice.lower, at) if e.slice.lower is not None else S.C(0)
            hi = R.expr(pctx, e.slice.upper, at) if e.slice.upper is not None else ln
            return S.op("add", start, lo), S.op("sub", hi, lo), bounds + [S.cmp_("<=", hi, ln), S.cmp_("<=", lo, hi)]
        if isinstance(e, ast.Name) and depth > 0 and at is not None:
            defs = list(pctx.cfg.rd_in.get(at, {}).get(e.id, ()))
            if len(defs) == 1 and defs[0].value is not None and defs[0].kind in ("assign", "walrus"):
                return file_range(defs[0].value, defs[0].node, depth - 1)
        return None

    def always(cond):
        for i in range(80):
            try:
                if not S.ev(cond, S.Valuation(4242 + i)):
                    return False
            except S.EvalError:
                return None
        return True

    if len(stores) == 1 and seek_of:
        at = pctx.cfg.node_of[stores[0]]
        rk, rv = file_range(stores[0].targets[0].slice, at), file_range(stores[0].value, at)
    else:
        rk = rv = None
    if rk is None or rv is None:
        chk.undecided("K-PROV", "vhdx:locator-addresses", loop, f"cannot tell which file bytes the stored key and value consist of "
                      f"({len(seeks)} seeks, {len(reads)} reads, {len(stores)} stores)")
    else:
        verdicts = [(c, always(c)) for c in rk[2] + rv[2]]
        refuted = [S.show(c)[:160] for c, v in verdicts if v is False]
        unproved = [S.show(c)[:120] for c, v in verdicts if v is None]
        ok_a = all(S.equiv(r_[0], S.op("add", base, ("attr", E, fm[f"{nm}_offset"].name)), n=40).equal is True for nm, r_ in (("key", rk), ("value", rv)))
        ok_l = all(S.equiv(r_[1], ("attr", E, fm[f"{nm}_length"].name), n=40).equal is True for nm, r_ in (("key", rk), ("value", rv)))
        if refuted and ok_a and ok_l:
            chk.violated("K-PROV", "vhdx:locator-addresses", loop, "the strings are cut out of a larger read that does not cover them for every entry "
                         f"(offsets and lengths of an entry are independent fields): {refuted[0]} can be false - the slice comes back short")
        elif unproved and ok_a and ok_l:
            chk.undecided("K-PROV", "vhdx:locator-addresses", loop, f"the strings are cut out of a larger read; that the read covers them is not shown: {unproved[0]}")
        else:
            chk.decide(ok_a, "K-PROV", "vhdx:locator-addresses", loop, "key and value consist of the bytes at locator start + key_offset / value_offset",
                       found=str({"key": S.show(rk[0])[-80:], "value": S.show(rv[0])[-80:]}))
            chk.decide(ok_l, "K-PROV", "vhdx:locator-lengths", loop, "of key_length / value_length bytes",
                       found=str({"key": S.show(rk[1])[-60:], "value": S.show(rv[1])[-60:]}))
    decs = [n for n in ast.walk(loop) if isinstance(n, ast.Call) and isinstance(n.func, ast.Attribute) and n.func.attr == "decode"]
    encs = [chk.prog.fold(n.args[0], pctx.mi) if n.args else None for n in decs]
    chk.decide(len(encs) == 2 and all(str(e).lower().replace("_", "-") == "utf-16-le" for e in encs), "K-PROV", "vhdx:locator-encoding", loop,
               "decoded as UTF-16-LE", found=str(encs))
    off = R.self_attr(pk, "offset")
    chk.decide(off == S.call(".tell", [("p", pctx.qual, 1)]), "K-PROV", "vhdx:locator-base", pctx.func, "offsets are relative to the start of the locator item", found=S.show(off))
    # the item is parsed at the position its caller (MetadataTable) seeks to; that seek is checked below
    # metadata items are read at table offset + entry offset
    mctx = chk.func(rel, "MetadataTable.__init__")
    mk = chk.prog.cls(rel, "MetadataTable").key
    ml = [l for l in mctx.loops if isinstance(l, ast.For)]
    if ml:
        it = R.expr(mctx, ml[0].iter, mctx.cfg.node_of[ml[0]], binds={"__exclude_loop__": ml[0]})
        E = ("iter", it, None)
        _, fm2 = field_map(chk, crel, "metadata_table_entry")
        ss = [s for s in calls_named(mctx, "seek") if s in list(ast.walk(ml[0]))]
        if ss:
            chk.formula("K-PROV", "vhdx:metadata-item-address", ss[0], R.expr(mctx, ss[0].args[0]),
                        S.op("add", R.self_attr(mk, "offset"), ("attr", E, fm2["offset"].name)))


def vmdk(chk: Check):
    R = chk.R
    rel = "disk/vmdk.py"
    pctx = chk.func(rel, "DiskDescriptor.parse")
    src = pctx.func
    floops = [l for l in pctx.loops if isinstance(l, ast.For)]
    if not floops:
        chk.violated("K-PROV", "vmdk:descriptor-lines", src, "the descriptor is not parsed line by line")
        return
    loop = floops[0]
    it = R.expr(pctx, loop.iter, pctx.cfg.node_of[loop], binds={"__exclude_loop__": loop})
    chk.decide(it == S.call(".split", [("p", pctx.qual, 1), S.C("\n")]), "K-PROV", "vmdk:descriptor-lines", loop, "lines are split at \\n", found=S.show(it)[:100])
    # skip rule
    conts = [n for n in ast.walk(loop) if isinstance(n, ast.Continue)]
    skip = None
    for c in conts:
        conds = conds_sym(chk, pctx, c)
        txt = " ".join(S.show(x) for x, _ in conds)
        if "startswith" in txt and "'#'" in txt and len(conds) == 1:
            skip = c
    chk.decide(skip is not None, "K-PROV", "vmdk:comment-and-blank-skip", skip or loop, "blank lines and lines starting with # are skipped")
    parts = [n for n in ast.walk(loop) if isinstance(n, ast.Call) and isinstance(n.func, ast.Attribute) and n.func.attr == "partition"]
    okp = bool(parts) and parts[0].args and isinstance(parts[0].args[0], ast.Constant) and parts[0].args[0].value == "="
    chk.decide(okp, "K-PROV", "vmdk:split-at-first-equals", parts[0] if parts else loop, "key and value are split at the first '='")
    # routing: decided by evaluating, for a setting name with and without the ddb. prefix, which dictionary the store goes to
    # (the target may be chosen by a conditional expression or by an if / else around two stores)
    stores = [n for n in ast.walk(loop) if isinstance(n, ast.Assign) and isinstance(n.targets[0], ast.Subscript)]
    # the two dictionaries are told apart by the variables that hold them (both start as the same empty display): the first and
    # the third argument of the DiskDescriptor that is returned
    role = {}
    for n in _own_nodes(pctx.func):
        if isinstance(n, ast.Return) and isinstance(n.value, ast.Call) and len(n.value.args) >= 3 and all(isinstance(a, ast.Name) for a in (n.value.args[0], n.value.args[2])):
            role = {n.value.args[0].id: "attr", n.value.args[2].id: "ddb"}

    def target_names(e, node, depth=3):
        """[(variable name, [(condition term, polarity)])] a store target expression can denote."""
        if isinstance(e, ast.IfExp):
            c = R.expr(pctx, e.test, node)
            return [(nm, [(c, True)] + cs) for nm, cs in target_names(e.body, node, depth)] + \
                   [(nm, [(c, False)] + cs) for nm, cs in target_names(e.orelse, node, depth)]
        if isinstance(e, ast.Name):
            if e.id in role or depth == 0:
                return [(e.id, [])]
            defs = list(pctx.cfg.rd_in.get(node, {}).get(e.id, ()))
            if len(defs) == 1 and defs[0].value is not None and defs[0].kind == "assign":
                return target_names(defs[0].value, defs[0].node, depth - 1)
            return [(e.id, [])]
        return [("?", [])]

    sites = []
    setting = None
    for st in stores:
        node = pctx.cfg.node_of[st]
        key_t = R.expr(pctx, st.targets[0].slice, node)
        for nm, extra in target_names(st.targets[0].value, node):
            sites.append((nm, conds_sym(chk, pctx, st) + extra))
        if setting is None:
            setting = key_t
    routes = {}
    if setting is not None and role:
        for name in ("ddb.adapterType", "ddb.virtualHWVersion", "CID", "parentFileNameHint", "createType", "xddb.foo"):
            val = S.Valuation(1, override={setting: name})
            hit = [role.get(nm, "?") for nm, conds in sites if eval_conds([(c, p_) for c, p_ in conds if S.contains(c, lambda x: x == setting)], val)]
            routes[name] = hit
    want_routes = {n: ["ddb" if n.startswith("ddb.") else "attr"] for n in routes}
    chk.decide(bool(routes) and routes == want_routes, "K-PROV", "vmdk:ddb-routing", loop,
               "settings starting with ddb. go to the disk database, all others to the descriptor attributes", found=str(routes))
    for st in stores:
        key = R.expr(pctx, st.targets[0].slice, pctx.cfg.node_of[st])
        val = R.expr(pctx, st.value, pctx.cfg.node_of[st])
        case = [x for x in S.walk(key) if isinstance(x, tuple) and x and x[0] == "call" and x[1] in CASE_TRANSFORMS]
        case += [x for x in S.walk(val) if isinstance(x, tuple) and x and x[0] == "call" and x[1] in CASE_TRANSFORMS]
        chk.decide(not case, "K-TRANSFORM", "vmdk:descriptor-kv-untransformed", st, "keys and values keep their stored spelling", found=S.show(key)[:80])
    # embedded descriptor window
    sctx = chk.func(rel, "SparseDisk.__init__")
    dparse = [n for n in ast.walk(sctx.func) if isinstance(n, ast.Call) and ast.unparse(n.func).endswith("DiskDescriptor.parse")]
    if dparse:
        t = R.expr(sctx, dparse[0].args[0], sctx.cfg.node_for(dparse[0]))
        # decided by evaluating the text handed to the parser on model windows (bytes methods are interpreted)
        bufs = [x for x in S.walk(t) if isinstance(x, tuple) and x and ((x[0] == "call" and x[1] == ".read") or x[0] == "read")]
        if not bufs:
            chk.undecided("K-PROV", "vmdk:embedded-descriptor-cut-at-nul", dparse[0], f"cannot find the window that was read in {S.show(t)[:160]}")
        else:
            BUF = max(bufs, key=lambda x: len(repr(x)))
            probes = {b"# Disk DescriptorFile\nversion=1\n\x00\x00\x00\x00": "# Disk DescriptorFile\nversion=1\n", b"a=1\n\x00junk=2\n\x00\x00": "a=1\n",
                      b"a=1\nb=2\n": "a=1\nb=2\n", b"\x00\x00": "", b"x\x00": "x"}
            bad = []
            und = None
            for buf, want in probes.items():
                try:
                    got = S.ev(t, S.Valuation(1, override={BUF: buf}))
                except S.EvalError as e:
                    und = str(e)
                    break
                if got != want:
                    bad.append(f"window {buf!r}: the parser gets {got!r}, specified {want!r}")
            if und or (bad and S.opaque_parts(t)):
                chk.undecided("K-PROV", "vmdk:embedded-descriptor-cut-at-nul", dparse[0], f"the text handed to the parser cannot be evaluated: {und or S.show(t)[:160]}")
            else:
                chk.decide(not bad, "K-PROV", "vmdk:embedded-descriptor-cut-at-nul", dparse[0],
                           f"the embedded descriptor is the window's bytes up to the first NUL ({len(probes)} model windows evaluated)" if not bad else "; ".join(bad[:2]))
    # sectors sum
    rets = [n for n in ast.walk(pctx.func) if isinstance(n, ast.Return)]
    chk.decide(bool(rets), "K-PROV", "vmdk:descriptor-returned", pctx.func, "parse returns a DiskDescriptor")


def _tag_of(chk: Check, ctx, node):
    """The element name a find()/iterfind() call asks for: a literal, or a name that resolves to one (a helper's parameter)."""
    if isinstance(node, ast.Constant):
        return node.value
    try:
        t = chk.R.expr(ctx, node)
    except Exception:
        return None
    if S.is_const(t) and isinstance(t[1], str):
        return t[1]
    return None


def parallels(chk: Check):
    R = chk.R
    rel = "disk/hdd.py"
    want = {
        "Storage._from_xml": {"Start", "End", "Image"}, "Image._from_xml": {"GUID", "Type", "File"},
        "Snapshots._from_xml": {"TopGUID", "Shot"}, "Shot._from_xml": {"GUID", "ParentGUID"}, "StorageData._from_xml": {"Storage"},
    }
    for q, tags in want.items():
        ctx = chk.func(rel, q)
        got = set()
        for n in _own_nodes(ctx.func):
            if isinstance(n, ast.Call) and isinstance(n.func, ast.Attribute) and n.func.attr in ("find", "iterfind", "findall", "findtext") and n.args:
                name = _tag_of(chk, ctx, n.args[0])
                if name is not None:
                    got.add(name)
        chk.decide(got == tags, "K-PROV", f"parallels:{q.split('.')[0]}-elements", ctx.func, f"reads child elements {sorted(tags)}", expected=str(sorted(tags)), found=str(sorted(got)))
    dctx = chk.func(rel, "Descriptor.__init__")
    got = set()
    for n in _own_nodes(dctx.func):
        if isinstance(n, ast.Call) and isinstance(n.func, ast.Attribute) and n.func.attr == "find" and n.args and _tag_of(chk, dctx, n.args[0]) is not None:
            got.add(_tag_of(chk, dctx, n.args[0]))
    chk.decide(got == {"StorageData", "Snapshots"}, "K-PROV", "parallels:descriptor-sections", dctx.func, "StorageData and Snapshots sections", found=str(sorted(got)))
    # field order of the dataclass constructors: Storage(start, end, images), Image(guid, type, file), Shot(guid, parent)
    order = {"Storage._from_xml": ["Start", "End", "Image"], "Image._from_xml": ["GUID", "Type", "File"], "Shot._from_xml": ["GUID", "ParentGUID"]}
    for q, seq in order.items():
        ctx = chk.func(rel, q)
        rets = [n for n in ast.walk(ctx.func) if isinstance(n, ast.Return)]
        t = R.expr(ctx, rets[0].value, ctx.cfg.node_for(rets[0])) if rets else S.unk("none")
        args = t[2] if t[0] == "call" else ()
        tags = []
        for a in args:
            tg = [x[2][1][1] for x in S.walk(a) if isinstance(x, tuple) and x and x[0] == "call" and x[1] in (".find", ".iterfind") and len(x[2]) > 1 and S.is_const(x[2][1])]
            tags.append(tg[0] if tg else "?")
        chk.decide(tags == seq, "K-PROV", f"parallels:{q.split('.')[0]}-field-order", ctx.func, f"constructor arguments come from {seq} in this order", found=str(tags))


def truthiness(chk: Check):
    """The result of Element.find() must never be used as a boolean (an Element without children is falsy)."""
    R = chk.R
    n_sites = 0
    for rel in XML_MODULES:
        mi = chk.prog.info(rel)
        for mi_, ci, fn in iter_functions(chk.prog):
            if mi_ is not mi:
                continue
            ctx = R.ctx_of(fn)
            for n in _own_nodes(fn):
                tests = []
                if isinstance(n, (ast.If, ast.While, ast.IfExp)):
                    tests.append(n.test)
                elif isinstance(n, ast.BoolOp):
                    tests += n.values
                elif isinstance(n, ast.UnaryOp) and isinstance(n.op, ast.Not):
                    tests.append(n.operand)
                for tnode in tests:
                    if isinstance(tnode, (ast.Compare, ast.BoolOp, ast.Call)) and not isinstance(tnode, ast.Call):
                        continue
                    at = ctx.cfg.node_for(tnode)
                    t = R.expr(ctx, tnode, at)
                    is_find = t[0] == "call" and t[1] == ".find"
                    if t[0] == "join":
                        is_find = any(a[0] == "call" and a[1] == ".find" for a in t[1])
                    if is_find:
                        n_sites += 1
                        chk.violated("K-TRUTHY", "element-truthiness", tnode,
                                     f"`{ast.unparse(tnode)}` is the result of Element.find() used as a boolean: an element without child elements "
                                     "is falsy, so a present element is treated as absent; use `is not None`")
    # positive form: find() results compared with None
    ok_sites = 0
    for rel in XML_MODULES:
        mi = chk.prog.info(rel)
        for n in ast.walk(mi.mod.tree):
            if isinstance(n, ast.Compare) and len(n.ops) == 1 and isinstance(n.ops[0], (ast.IsNot, ast.Is)) and isinstance(n.comparators[0], ast.Constant) and n.comparators[0].value is None:
                ok_sites += 1
    chk.holds("K-TRUTHY", "element-truthiness-scan", ("<xml modules>", "<4 modules>", 0),
              f"scanned all boolean contexts of the XML modules: {n_sites} truthiness tests of find() results, {ok_sites} `is (not) None` tests", nontrivial=False)


def transforms(chk: Check):
    """Exposed string attributes of the disk classes are not case-transformed."""
    R = chk.R
    for rel in ("disk/qcow2.py", "disk/vhdx.py", "disk/vmdk.py", "disk/vhd.py", "disk/vdi.py", "disk/hdd.py"):
        mi = chk.prog.info(rel)
        for ci in mi.classes.values():
            for attr, assigns in ci.self_assigns.items():
                if attr.startswith("_"):
                    continue
                for (m, st, v) in assigns:
                    if isinstance(st, ast.AugAssign):
                        continue
                    ctx = R.ctx_of(m)
                    t = R.expr(ctx, v, ctx.cfg.node_for(st))
                    case = [x for x in S.walk(t) if isinstance(x, tuple) and x and x[0] == "call" and x[1] in CASE_TRANSFORMS]
                    from_file = S.contains(t, lambda x: isinstance(x, tuple) and x and x[0] == "call" and x[1] in (".read", ".decode"))
                    if case and from_file:
                        kinds = sorted({c[1][1:] for c in case})
                        chk.violated("K-TRANSFORM", f"exposed-string-untransformed:{attr}:{'+'.join(kinds)}", st,
                                     f"self.{attr} is file content passed through .{kinds[0]}(): the exposed value differs from what the file stores",
                                     found=S.show(t)[:160])
                    elif from_file and S.contains(t, lambda x: isinstance(x, tuple) and x and x[0] == "call" and x[1] == ".decode"):
                        chk.holds("K-TRANSFORM", f"exposed-string-untransformed:{ci.name}.{attr}", st, "decoded and exposed as stored", nontrivial=False)
