"""C17 - Hyper-V VMCX/VMRS: decoded tree equals the stored key/value tree (structural clauses)."""
from __future__ import annotations

import ast
import struct

from .. import sym as S
from ..engine import Check
from ..loader import AnalysisError
from ..recon import _own_nodes
from ..rulelib import (select_branch, split_alternatives, _typestate, calls_named, carried_with_entry, check_const, check_layout, conds_sym, eval_conds,
                       func_outcomes, insts_in_func, loop_carried, loops_of, reach_table)

LEVEL = "other"
TECHNIQUE = ("static analysis: frozen layout / constant comparison, decision tables of the value decoder and the object-table "
             "dispatch, def-use reconstruction of entry framing and slices, sequence-number rules")
EXPLANATION = (
    "Decides structural necessary conditions of faithful Hyper-V decoding (no public specification: the pinned tree's layouts "
    "and constants are the frozen reference, so these rules detect regressions): packed struct layouts and enum values; headers "
    "read at 0 and 0x1000 with the higher sequence number active, first object table at 0x2000, replay log at the header's offset; "
    "object-table entries with allocated == 0 are skipped before dispatch, KeyTable / File / ObjectTable / ReplayLog entries are "
    "dispatched on their type with (offset, size) from the entry, key tables are grouped by index and ordered by sequence number "
    "descending with [0] active; key-table entry framing (start after the 10-byte table header, advance by entry.size, stop at "
    "size 0); entry raw = table.raw[offset + 21 : offset + size], key = raw[: data_offset - 1] UTF-8, data = raw[data_offset :], "
    "type = low byte, flags = high byte of the 16-bit type field; file-object pointers are (size u32, offset u64) little-endian "
    "from data[:12]; the value decoder's table {Int <q/8, UInt <Q/8, Double <d/8, Bool <I/4 != 0, String UTF-16-LE, Array bytes - "
    "inline with a u32 length prefix, whole file object otherwise, everything else raises}; Free entries are ignored when the tree "
    "is linked; parents are resolved through key_tables[idx][0]._lookup[offset]. Does NOT decide tree equality for all serialisations."
)
ASSUMPTIONS = ["the layouts of the pinned tree are the reference (reverse-engineered format)"]

REL, CREL = "descriptor/hyperv.py", "descriptor/c_hyperv.py"
KDT = dict(Free=1, Unknown=2, Int=3, UInt=4, Double=5, String=6, Array=7, Bool=8, Node=9)
OET = dict(Unknown0=0, ObjectTable=1, KeyTable=2, File=3, Free=4, Unknown5Header=5, ReplayLog=6, ChangeTrackingBuffer=7)


def find(t, pred):
    return [x for x in S.walk(t) if isinstance(x, tuple) and x and pred(x)]


def run(chk: Check):
    R = chk.R
    for name in ("HyperVStorageHeader", "HyperVStorageReplayLog", "HyperVStorageReplayLogEntry", "HyperVStorageObjectTable",
                 "HyperVStorageObjectTableEntry", "HyperVStorageKeyTable", "HyperVStorageKeyTableEntryHeader"):
        check_layout(chk, CREL, name)
    for name, val in (("SIGNATURE_STORAGE_HEADER", 0x01282014), ("FIRST_HEADER_OFFSET", 0), ("SECOND_HEADER_OFFSET", 0x1000),
                      ("SIGNATURE_REPLAY_LOG_HEADER", 0x01110003), ("SIGNATURE_OBJECT_TABLE_HEADER", 0x01110001),
                      ("OBJECT_TABLE_OFFSET", 0x2000), ("SIGNATURE_KEY_TABLE_HEADER", 2)):
        check_const(chk, CREL, name, val)
    lay = list(chk.prog.info(CREL).layouts.values())[0]
    for en, want, size in (("KeyDataType", KDT, 1), ("ObjectEntryType", OET, 1), ("KeyDataFlag", {"FileObjectPointer": 1}, 1)):
        e = lay.enums.get(en)
        chk.decide(e is not None and e.members == want and e.size == size, "K-CONST", f"enum:{en}", (CREL, f"<enum {en}>", 1),
                   f"{en} values (one byte)", expected=str(want), found=str(e.members if e else None), nontrivial=False)
    hyperv_file(chk)
    key_table(chk)
    entry(chk)
    file_object(chk)
    chk.require("K-LAYOUT", 7)
    chk.require("K-DISPATCH", 3)
    chk.require("K-FORMULA", 8)


def hyperv_file(chk: Check):
    R = chk.R
    hk = chk.prog.cls(REL, "HyperVFile").key
    init = chk.func(REL, "HyperVFile.__init__")
    FH = ("p", init.qual, 1)
    seeks = sorted(R.expr(init, s.args[0])[1] for s in calls_named(init, "seek") if S.is_const(R.expr(init, s.args[0])))
    chk.decide(seeks == [0, 0x1000], "K-CONST", "header-offsets", init.func, "the two file headers are read at 0 and 0x1000", found=str(seeks))
    hs = insts_in_func(chk, init, "HyperVStorageHeader")
    hdr = R.self_attr(hk, "header")
    ok = False
    if len(hs) == 2 and hdr[0] == "ite":
        s1, s2 = R.field(hs[0], "sequence_number"), R.field(hs[1], "sequence_number")
        tab = {}
        for a, b in ((5, 3), (3, 5), (0, 1), (65535, 7)):
            try:
                c = bool(S.ev(hdr[1], S.Valuation(1, assign={s1: a, s2: b})))
            except S.EvalError:
                c = None
            chosen = hdr[2] if c else hdr[3]
            tab[(a, b)] = 1 if chosen == hs[0] else 2 if chosen == hs[1] else 0
        ok = tab == {(5, 3): 1, (3, 5): 2, (0, 1): 2, (65535, 7): 1}
    chk.decide(ok, "K-DISPATCH", "header-by-sequence-number", init.func, "the header copy with the higher sequence number is active")
    _typestate(chk, init, "file")
    # first object table / replay log
    ok_ot = ok_rl = False
    otk = chk.prog.cls(REL, "HyperVStorageObjectTable").key
    rlk = chk.prog.cls(REL, "HyperVStorageReplayLog").key
    for n in _own_nodes(init.func):
        if isinstance(n, ast.Call):
            t = R.expr(init, n)
            if t[0] == "call" and t[1] == "new:" + otk and len(t[2]) == 2 and t[2][1] == S.C(0x2000):
                ok_ot = True
            if t[0] == "call" and t[1] == "new:" + rlk and len(t[2]) == 2 and find(t[2][1], lambda x: x[0] == "f" and x[1:3] == ("HyperVStorageHeader", 26)):
                ok_rl = True
    chk.decide(ok_ot, "K-CONST", "first-object-table-offset", init.func, "the first object table is at 0x2000")
    chk.decide(ok_rl, "K-PROV", "replay-log-offset", init.func, "the replay log is located by the active header's replay_log_offset")
    # object table walk
    floops = [l for l in init.loops if isinstance(l, ast.For)]
    inner = None
    for l in floops:
        if ast.unparse(l.iter).endswith(".entries") and any(isinstance(x, ast.Attribute) and x.attr == "allocated" for x in ast.walk(l)):
            inner = l
    if inner is None:
        chk.violated("K-DISPATCH", "object-entry-dispatch", init.func, "no walk over object table entries")
        return
    it = R.expr(init, inner.iter, init.cfg.node_of[inner], binds={"__exclude_loop__": inner})
    E = ("iter", it, None)
    from ..rulelib import field_map

    _, fm = field_map(chk, CREL, "HyperVStorageObjectTableEntry")
    alloc, typ = ("attr", E, fm["allocated"].name), ("attr", E, fm["type"].name)
    off, size = ("attr", E, fm["offset"].name), ("attr", E, fm["size"].name)
    table = {}
    cls_of = {}
    for n in ast.walk(inner):
        if isinstance(n, ast.Call):
            t = R.expr(init, n)
            if t[0] == "call" and t[1].startswith("new:"):
                cname = t[1].split("::")[-1]
                conds = conds_sym(chk, init, n)
                combos = [{"a": a, "t": S.EnumConst(v)} for a in (0, 1) for v in range(8)]
                reach = reach_table(conds, {"a": alloc, "t": typ}, combos)
                for c, hit in zip(combos, reach):
                    if hit:
                        table.setdefault((c["a"], int(c["t"])), set()).add(cname)
                cls_of[cname] = t
    # an unallocated slot is skipped, it does not end the walk: tables behind a hole are still loaded
    stops = []
    for n in ast.walk(inner):
        if isinstance(n, (ast.Break, ast.Return)):
            cs = conds_sym(chk, init, n)
            if any(S.contains(c, lambda x: x == alloc) for c, _p in cs):
                tab_ = reach_table(cs, {"a": alloc}, [{"a": 0}, {"a": 1}])
                if tab_[0]:
                    stops.append(n)
    chk.decide(not stops, "K-PATH", "unallocated-entry-does-not-end-the-walk", stops[0] if stops else inner,
               "an unallocated object-table slot is skipped and the walk goes on" if not stops else
               "the walk over an object table stops at the first unallocated slot: key tables, file objects and further object tables listed behind a hole are never loaded")
    want = {(1, 1): {"HyperVStorageObjectTable"}, (1, 2): {"HyperVStorageKeyTable"}, (1, 3): {"HyperVStorageFileObject"}, (1, 6): {"HyperVStorageReplayLog"}}
    chk.decide(table == want, "K-DISPATCH", "object-entry-dispatch", inner,
               "unallocated entries are skipped; type 1 -> object table, 2 -> key table, 3 -> file object, 6 -> replay log, others ignored",
               expected=str(want), found=str(table))
    args_ok = True
    for cname, want_args in (("HyperVStorageKeyTable", (off, size)), ("HyperVStorageFileObject", (off, size)), ("HyperVStorageObjectTable", (off,)), ("HyperVStorageReplayLog", (off,))):
        t = cls_of.get(cname)
        args_ok = args_ok and t is not None and tuple(t[2][1:]) == want_args
    chk.decide(args_ok, "K-PROV", "object-entry-arguments", inner, "objects are built from the entry's own (offset, size)")
    # file objects keyed by offset
    st = [n for n in ast.walk(inner) if isinstance(n, ast.Assign) and isinstance(n.targets[0], ast.Subscript) and "file_objects" in ast.unparse(n.targets[0])]
    chk.decide(bool(st) and R.expr(init, st[0].targets[0].slice, init.cfg.node_of[st[0]]) == off, "K-PROV", "file-objects-keyed-by-offset", st[0] if st else inner,
               "file objects are registered under their absolute offset")
    # key table registration and ordering
    sorts = [n for n in ast.walk(inner) if isinstance(n, ast.Call) and isinstance(n.func, ast.Attribute) and n.func.attr == "sort"]
    oks = False
    if sorts:
        kws = {k.arg: k.value for k in sorts[0].keywords}
        def by_sequence_number(k):
            """the sort key reads .sequence_number of its argument: a lambda, a named one-line function, or attrgetter"""
            if isinstance(k, ast.Lambda) and len(k.args.args) == 1:
                return isinstance(k.body, ast.Attribute) and k.body.attr == "sequence_number" and isinstance(k.body.value, ast.Name) and k.body.value.id == k.args.args[0].arg
            if isinstance(k, ast.Name):
                mi_ = chk.prog.info(REL)
                for fn in mi_.mod.tree.body:
                    if isinstance(fn, ast.FunctionDef) and fn.name == k.id and len(fn.args.args) == 1:
                        body = [x for x in fn.body if not (isinstance(x, ast.Expr) and isinstance(x.value, ast.Constant))]
                        return len(body) == 1 and isinstance(body[0], ast.Return) and by_sequence_number(
                            ast.Lambda(args=fn.args, body=body[0].value))
                return False
            if isinstance(k, ast.Call) and ast.unparse(k.func).endswith("attrgetter") and len(k.args) == 1:
                return isinstance(k.args[0], ast.Constant) and k.args[0].value == "sequence_number"
            return False
        oks = "reverse" in kws and isinstance(kws["reverse"], ast.Constant) and kws["reverse"].value is True and "key" in kws and by_sequence_number(kws["key"])
    chk.decide(oks, "K-DISPATCH", "key-tables-by-sequence-number", sorts[0] if sorts else inner,
               "key tables sharing an index are ordered by sequence number, highest first")
    # the key under which a table is registered is its own index: self.key_tables[kt.index] or .setdefault(kt.index, [])
    def _is_index_of_table(t):
        if t[0] == "f" and t[1] == "HyperVStorageKeyTable":
            from ..rulelib import field_map

            _st, fm = field_map(chk, CREL, "HyperVStorageKeyTable")
            return t[2] == fm["index"].offset
        return t[0] == "attr" and t[2] == "index" and t[1][0] == "call" and t[1][1].endswith("HyperVStorageKeyTable")

    idx_ok = False
    for n in ast.walk(inner):
        if isinstance(n, ast.Subscript) and "key_tables" in ast.unparse(n.value):
            idx_ok = idx_ok or _is_index_of_table(R.expr(init, n.slice, init.cfg.node_for(n)))
        if isinstance(n, ast.Call) and isinstance(n.func, ast.Attribute) and n.func.attr == "setdefault" and n.args and "key_tables" in ast.unparse(n.func.value):
            idx_ok = idx_ok or _is_index_of_table(R.expr(init, n.args[0], init.cfg.node_for(n)))
    chk.decide(idx_ok, "K-PROV", "key-tables-grouped-by-index", inner, "key tables are grouped under their table index")
    # linking
    links = [l for l in floops if l is not inner and any(isinstance(x, ast.Attribute) and x.attr == "children" for x in ast.walk(l))]
    okl = False
    if links:
        l = links[0]
        inner2 = [x for x in ast.walk(l) if isinstance(x, ast.For) and x is not l]
        tgt_loop = inner2[0] if inner2 else l
        itE = R.expr(init, tgt_loop.iter, init.cfg.node_of[tgt_loop], binds={"__exclude_loop__": tgt_loop})
        EE = ("iter", itE, None)
        # the entries linked are those of the first (highest sequence number) table of each index
        def first_of_index(b):
            """b is `<tables of an index>[0]`, directly or as a value of a dict {index: tables[0] for index, tables in key_tables.items()}"""
            if b[0] == "sub" and b[2] == S.C(0):
                return True
            if b[0] == "iter" and b[2] is None and b[1][0] == "call" and b[1][1] == ".values" and b[1][2]:
                d = b[1][2][0]
                return d[0] == "comp" and d[1] == "dict" and d[2][0] == "tuple" and len(d[2][1]) == 2 and first_of_index(d[2][1][1]) and not d[4]
            return False
        act = itE[0] == "attr" and itE[2] == "entries" and first_of_index(itE[1])
        par_t, type_t = ("attr", EE, "parent"), ("attr", EE, "type")
        roles = {}
        for st_ in ast.walk(tgt_loop):
            if isinstance(st_, ast.Assign) and isinstance(st_.targets[0], ast.Subscript):
                base0 = R.expr(init, st_.targets[0].value, init.cfg.node_of[st_])
                key = R.expr(init, st_.targets[0].slice, init.cfg.node_of[st_])
                val = R.expr(init, st_.value, init.cfg.node_of[st_])
                for extra, base in split_alternatives(base0):
                    conds_ = conds_sym(chk, init, st_) + [(c, p) for c, p in extra]
                    # reached for (parent absent / present) x (entry free / in use); a parent is an entry object (truthy)
                    tab_ = reach_table(conds_, {"p": par_t, "t": type_t},
                                       [{"p": None, "t": S.EnumConst(KDT["Node"])}, {"p": 1, "t": S.EnumConst(KDT["Node"])},
                                        {"p": None, "t": S.EnumConst(KDT["Free"])}, {"p": 1, "t": S.EnumConst(KDT["Free"])}])
                    where_ = "children" if (base[0] == "attr" and base[2] == "children" and base[1] == par_t) else "root" if base == R.self_attr(hk, "root") else "?"
                    roles[where_] = (key == ("attr", EE, "key"), val == EE, [bool(x) for x in tab_])
        okl = bool(act) and roles.get("children") == (True, True, [False, True, False, False]) and roles.get("root") == (True, True, [True, False, False, False]) \
            and set(roles) == {"children", "root"}
    chk.decide(okl, "K-PATH", "tree-linking", links[0] if links else init.func,
               "the active table ([0]) of each index is linked: Free entries skipped, entries with a parent become its children, others roots")


def key_table(chk: Check):
    R = chk.R
    kk = chk.prog.cls(REL, "HyperVStorageKeyTable").key
    ctx = chk.func(REL, "HyperVStorageKeyTable.__init__")
    OFF, SIZE = ("p", ctx.qual, 2), ("p", ctx.qual, 3)
    for s in calls_named(ctx, "seek"):
        chk.decide(R.expr(ctx, s.args[0]) == OFF, "K-FORMULA", "key-table-address", s, "the table is read at its object-table offset")
    for r_ in calls_named(ctx, "read"):
        chk.decide(R.expr(ctx, r_.args[0]) == SIZE, "K-FORMULA", "key-table-length", r_, "... with its object-table size")
    _typestate(chk, ctx, "key-table")
    loops = loops_of(ctx)
    if not loops:
        chk.violated("K-FORMULA", "entry-framing", ctx.func, "no loop over the entries")
        return
    loop = loops[0]
    car = loop_carried(chk, ctx, loop)
    en, ei = carried_with_entry(chk, car, S.C(10))
    if ei is None:
        chk.violated("K-FORMULA", "entry-framing", loop, "entries do not start right after the 10-byte table header")
        return
    EO = ei["phi"]
    ek = chk.prog.cls(REL, "HyperVStorageKeyTableEntry").key
    esize = R.self_attr(ek, "size")
    ok = all(nx[0] == "op" and nx[1] == "add" and EO in (nx[2], nx[3]) and find(nx, lambda x: x[0] == "f" and x[1:3] == ("HyperVStorageKeyTableEntryHeader", 2)) for _, nx in ei["next"])
    chk.decide(ok, "K-FORMULA", "entry-framing", loop, "the next entry starts entry.size bytes after the current one", found=str([S.show(nx)[-120:] for _, nx in ei["next"]]))
    news = [n for n in ast.walk(loop) if isinstance(n, ast.Call) and R.expr(ctx, n)[0] == "call" and R.expr(ctx, n)[1] == "new:" + ek]
    # an entry is parsed only while the running offset is inside the table (loop test or a leading `if offset >= size: break`)
    okb = False
    if news:
        cs = [(c, p) for c, p in conds_sym(chk, ctx, news[0], kinds=("if", "prior", "while")) if S.contains(c, lambda x: x == EO)]
        tab = reach_table(cs, {"o": EO, "s": SIZE}, [{"o": 10, "s": 100}, {"o": 99, "s": 100}, {"o": 100, "s": 100}, {"o": 101, "s": 100}, {"o": 10, "s": 10}])
        okb = [bool(x) for x in tab] == [True, True, False, False, False]
    chk.decide(okb, "K-FORMULA", "entry-walk-bound", loop, "the walk stays inside the table (an entry is parsed only at offset < size)")
    chk.decide(bool(news) and R.expr(ctx, news[0])[2][1] == EO, "K-FORMULA", "entry-at-running-offset", news[0] if news else loop, "each entry is parsed at the running offset")
    st = [n for n in ast.walk(loop) if isinstance(n, ast.Assign) and isinstance(n.targets[0], ast.Subscript) and "_lookup" in ast.unparse(n.targets[0])]
    okl = bool(st) and R.expr(ctx, st[0].targets[0].slice, ctx.cfg.node_of[st[0]]) == EO
    where_l = st[0] if st else loop
    if not st:
        # `_lookup = dict(pairs)` with (offset, entry) pairs collected in the loop
        lk = R.self_attr(kk, "_lookup")
        pairs = []
        for n in ast.walk(loop):
            if isinstance(n, ast.Call) and isinstance(n.func, ast.Attribute) and n.func.attr == "append" and len(n.args) == 1:
                t = R.expr(ctx, n.args[0], ctx.cfg.node_for(n))
                if t[0] == "tuple" and len(t[1]) == 2:
                    pairs.append((n, t))
        if lk[0] == "call" and lk[1] == "dict" and pairs:
            okl = all(t[1][0] == EO and t[1][1][0] == "call" and t[1][1][1] == "new:" + ek for _n, t in pairs)
            where_l = pairs[0][0]
    chk.decide(okl, "K-PROV", "lookup-keyed-by-entry-offset", where_l,
               "entries are registered under their offset inside the table (what parent_offset refers to)")


def entry(chk: Check):
    R = chk.R
    ek = chk.prog.cls(REL, "HyperVStorageKeyTableEntry").key
    ictx = chk.func(REL, "HyperVStorageKeyTableEntry.__init__")
    OFF = ("p", ictx.qual, 2)
    hdr = R.self_attr(ek, "header")
    H = lambda off: find(hdr, lambda x: False) or R.field(hdr, _fname(chk, off))  # noqa: E731
    tfield = R.field(hdr, _fname(chk, 0))
    flags, typ = R.self_attr(ek, "flags"), R.self_attr(ek, "type")
    chk.decide(S.equiv(flags, S.op("rshift", S.op("and", tfield, S.C(0xFF00)), S.C(8)), n=200,
                       domain=lambda leaf, rng: rng.randrange(0, 1 << 16) if leaf == tfield else None).equal is True, "K-FORMULA", "entry-flags", chk.func(REL, "HyperVStorageKeyTableEntry.flags").func,
               "flags = (type field & 0xFF00) >> 8", found=S.show(flags)[-80:])
    okt = typ[0] == "read" and typ[1] == "KeyDataType" and typ[3] == S.op("and", tfield, S.C(0xFF))
    chk.decide(okt, "K-FORMULA", "entry-type", chk.func(REL, "HyperVStorageKeyTableEntry.type").func, "type = KeyDataType(type field & 0xFF)", found=S.show(typ)[-80:])
    raw = R.self_attr(ek, "raw")
    size = R.self_attr(ek, "size")
    okr = raw[0] == "sub" and raw[2][0] == "slice" and S.equiv(raw[2][1], S.op("add", OFF, S.C(21)), n=10).equal is True and \
        S.equiv(raw[2][2], S.op("add", OFF, size), n=10).equal is True
    chk.decide(okr, "K-FORMULA", "entry-raw-window", chk.func(REL, "HyperVStorageKeyTableEntry.raw").func,
               "raw = table.raw[offset + sizeof(entry header) : offset + size]", found=S.show(raw[2])[:200] if raw[0] == "sub" else S.show(raw)[:100])
    doff = R.field(hdr, _fname(chk, 20))
    key = R.self_attr(ek, "key")
    okk = key[0] == "call" and key[1] == ".decode" and key[2][1:] == (S.C("utf-8"),) and bool(find(key, lambda x: x[0] == "slice" and x[1] == S.C(None)
                                                                                                    and S.equiv(x[2], S.op("sub", doff, S.C(1)), n=10).equal is True))
    chk.decide(okk, "K-FORMULA", "entry-key", chk.func(REL, "HyperVStorageKeyTableEntry.key").func, "key = raw[: data_offset - 1] decoded as UTF-8 (NUL terminator dropped)", found=S.show(key)[-160:])
    fop = R.self_attr(ek, "file_object_pointer")
    alts = S.alternatives(fop)
    okf = False
    for a in alts:
        if a[0] == "tuple" and len(a[1]) == 2:
            o_, s_ = a[1]
            up = find(a, lambda x: x[0] == "call" and x[1] == "ext:struct.unpack")
            okf = bool(up) and up[0][2][0] == S.C("<IQ") and o_ == ("sub", up[0], S.C(1)) and s_ == ("sub", up[0], S.C(0))
            if okf:
                # the 12 bytes unpacked are raw[data_offset : data_offset + 12], however the slice is spelled: compare on concrete bytes
                blob = bytes((i * 13 + 1) & 0xFF for i in range(96))
                for dv in (0, 1, 5, 20, 60):
                    val = S.Valuation(1, override={raw: blob, doff: dv})
                    try:
                        okf = okf and S.ev(up[0][2][1], val) == blob[dv:dv + 12]
                    except S.EvalError:
                        okf = False
    chk.decide(okf, "K-PROV", "file-object-pointer", chk.func(REL, "HyperVStorageKeyTableEntry.file_object_pointer").func,
               "pointer = struct '<IQ' of data[:12] = (size, offset), returned as (offset, size)", found=S.show(fop)[-200:])
    # parent
    par = R.self_attr(ek, "parent")
    pidx, poff = R.field(hdr, _fname(chk, 6)), R.field(hdr, _fname(chk, 8))
    alts = [a for a in S.alternatives(par) if a != S.C(None)]
    okp = len(alts) == 1 and alts[0][0] == "sub" and alts[0][2] == poff and bool(find(alts[0][1], lambda x: x[0] == "sub" and x[2] == S.C(0) and x[1][0] == "sub" and x[1][2] == pidx))
    chk.decide(okp, "K-PROV", "parent-link", chk.func(REL, "HyperVStorageKeyTableEntry.parent").func,
               "parent = key_tables[parent_table_idx][0]._lookup[parent_offset] (None for table index 0)", found=S.show(par)[-200:])
    # data
    dctx = chk.func(REL, "HyperVStorageKeyTableEntry.data")
    douts = func_outcomes(chk, dctx)
    isf = R.self_attr(ek, "is_file_object_pointer")
    # the pointer flag is bit 0 of the flags byte, whatever other flag bits are set
    flags_t = R.self_attr(ek, "flags")
    badf = []
    for fv in range(0, 256):
        for low in (0, 3, 6, 0xFF):
            # the flags are the high byte of the 16-bit type field: drive both through the field itself
            try:
                got = bool(S.ev(isf, S.Valuation(1, override={tfield: (fv << 8) | low, flags_t: fv})))
            except S.EvalError:
                got = None
            if got != bool(fv & 1):
                badf.append(f"flags {fv:#04x}: {got}, specified {bool(fv & 1)}")
                break
    chk.decide(not badf, "K-FORMULA", "file-object-pointer-flag", chk.func(REL, "HyperVStorageKeyTableEntry.is_file_object_pointer").func,
               "is_file_object_pointer = bit 0 of the flags (evaluated for all 256 flag bytes)" if not badf else "; ".join(badf[:3]))
    # which return serves which kind of entry: decided by evaluating the returns' path conditions with the flag forced
    def taken(flag):
        val = S.Valuation(1, override={isf: flag, tfield: (int(flag) << 8) | 3, flags_t: int(flag)})
        return [o for o in douts if o[0] == "return" and eval_conds(o[2], val)][:1]
    inline = taken(False)
    oki = bool(inline) and inline[-1][3][0] == "sub" and inline[-1][3][1] == raw and inline[-1][3][2] == ("slice", doff, S.C(None))
    chk.decide(oki, "K-FORMULA", "entry-data-inline", dctx.func, "inline data = raw[data_offset:]", found=S.show(inline[-1][3])[-120:] if inline else "none")
    viaf = taken(True)
    # the bytes come from `.read(..)` on the file object of this entry: the result of get_file_object(), or - when that look-up
    # was inlined or shares a helper - an element of the file's file_objects table
    def from_file_object(x):
        return x[0] == "call" and x[1] == ".read" and x[2] and bool(find(x[2][0], lambda y: (y[0] == "call" and y[1].endswith("get_file_object"))
                                                                   or (y[0] == "attr" and y[2] == "file_objects")))
    okv = bool(viaf) and bool(find(viaf[0][3], from_file_object))
    chk.decide(okv, "K-PROV", "entry-data-file-object", dctx.func, "pointer entries read `size` bytes from their file object")
    # value decoder
    vctx = chk.func(REL, "HyperVStorageKeyTableEntry.value")
    outs = func_outcomes(chk, vctx)
    bad = []
    for tname, tv in KDT.items():
        for fopv in (False, True):
            val = S.Valuation(1, override={typ: S.EnumConst(tv), isf: fopv, tfield: (int(fopv) << 8) | tv})
            hit = None
            for o in outs:
                if eval_conds(o[2], val):
                    hit = o
                    break
            kind = hit[0] if hit else "fallthrough"
            if tname in ("Int", "UInt", "Double", "Bool"):
                fmt = {"Int": "<q", "UInt": "<Q", "Double": "<d", "Bool": "<I"}[tname]
                n = struct.calcsize(fmt)
                def _fmt_is(x, fmt=fmt, val=val):
                    try:
                        return S.ev(x, val) == fmt  # the format may come out of a table indexed by the type
                    except S.EvalError:
                        return False

                def _is_n(y, n=n, val=val):
                    try:
                        return S.ev(y, val) == n
                    except S.EvalError:
                        return False

                res_t = _resolve_ites(hit[3], val) if kind == "return" else None  # the arms this type takes
                ok = kind == "return" and bool(find(res_t, lambda x: x[0] == "call" and x[1] == "ext:struct.unpack" and _fmt_is(x[2][0])
                                                    and bool(find(x[2][1], lambda y: y[0] == "slice" and y[1] == S.C(None) and _is_n(y[2])))))
                if tname == "Bool":
                    ok = ok and res_t[0] == "cmp" and res_t[1] == "!=" and res_t[3] == S.C(0)
                else:
                    ok = ok and res_t[0] == "sub" and res_t[2] == S.C(0)
                if not ok:
                    bad.append(f"{tname}: specified struct {fmt!r} of data[:{n}]" + (" != 0" if tname == "Bool" else "[0]"))
            elif tname in ("String", "Array"):
                ok = kind == "return"
                if ok:
                    t = select_branch(hit[3], val)  # `decode(..) if type == String else data`: the arm this type takes
                    if tname == "String":
                        ok = t[0] == "call" and t[1] == ".decode" and t[2][1:] == (S.C("utf-16-le"),)
                    else:
                        ok = not (t[0] == "call" and t[1] == ".decode")
                    # inline values carry a u32 length prefix; file objects are taken whole
                    pref = find(t, lambda x: x[0] == "call" and x[1] == "ext:struct.unpack" and x[2][0] == S.C("<I"))
                    # the data term is a conditional/join of (prefixed slice | whole); both must be present in the function
                    ok = ok and bool(pref)
                if not ok:
                    bad.append(f"{tname}: specified {'UTF-16-LE text' if tname == 'String' else 'bytes'} (u32 length prefix when inline)")
            else:
                if kind != "raise":
                    bad.append(f"{tname}: specified TypeError, found {kind}")
    chk.decide(not bad, "K-DISPATCH", "value-decoder-table", vctx.func,
               "Int <q/8, UInt <Q/8, Double <d/8, Bool <I/4 != 0, String UTF-16-LE, Array bytes; Free / Unknown / Node raise" if not bad else "; ".join(bad[:3]))
    # inline length prefix: only when not a file object pointer, slice [4 : 4 + len]
    pre = []
    for n in ast.walk(vctx.func):
        if isinstance(n, ast.Assign) and isinstance(n.value, ast.Subscript) and isinstance(n.value.slice, ast.Slice):
            t_ = R.expr(vctx, n.value, vctx.cfg.node_of[n])
            if t_[0] == "sub" and t_[2][0] == "slice" and t_[2][1] == S.C(4):
                pre.append((n, t_))
    okpre = False
    if pre:
        n0, t0 = pre[0]
        conds = conds_sym(chk, vctx, n0)
        # the flag is derived from the type field: set both, so that any spelling of the test follows
        tab = [bool(eval_conds([(c, p) for c, p in conds if S.contains(c, lambda x: x == tfield or x == isf)],
                               S.Valuation(1, override={isf: f_, tfield: (int(f_) << 8) | KDT["String"], typ: S.EnumConst(KDT["String"])}))) for f_ in (False, True)]
        up = find(t0[2][2], lambda x: x[0] == "call" and x[1] == "ext:struct.unpack" and x[2][0] == S.C("<I"))
        okpre = tab == [True, False] and bool(up) and S.equiv(t0[2][2], S.op("add", ("sub", up[0], S.C(0)), S.C(4)), n=10).equal is True
    pre = [x[0] for x in pre]
    chk.decide(okpre, "K-FORMULA", "inline-length-prefix", pre[0] if pre else vctx.func, "inline strings / arrays: data[4 : 4 + u32 length]; file objects are not prefixed")
    # as_dict
    actx = chk.func(REL, "HyperVStorageKeyTableEntry.as_dict")
    oka = False
    fl = [l for l in actx.loops if isinstance(l, ast.For)]
    # the (key, value) pairs of the result: stores inside a loop over the children, or the element of a returned dict
    # comprehension; the alternatives of a conditional value are split into their own path conditions and it is evaluated which
    # one is reached for a Node child and for a leaf child
    itc = None
    sites = []
    if fl:
        itc = R.expr(actx, fl[0].iter, actx.cfg.node_of[fl[0]], binds={"__exclude_loop__": fl[0]})
        for st_ in ast.walk(fl[0]):
            if isinstance(st_, ast.Assign) and isinstance(st_.targets[0], ast.Subscript):
                v = R.expr(actx, st_.value, actx.cfg.node_of[st_])
                k = R.expr(actx, st_.targets[0].slice, actx.cfg.node_of[st_])
                for extra, alt in split_alternatives(v):
                    sites.append((k, alt, conds_sym(chk, actx, st_) + list(extra)))
    else:
        for o in func_outcomes(chk, actx):
            if o[0] == "return" and o[3][0] == "comp" and o[3][1] == "dict" and o[3][2][0] == "tuple" and len(o[3][2][1]) == 2:
                itc = o[3][3]
                k, v = o[3][2][1]
                for extra, alt in split_alternatives(v):
                    sites.append((k, alt, [(c, True) for c in o[3][4]] + list(extra)))
    if itc is not None:
        okit = itc == S.call(".items", [R.self_attr(ek, "children")])
        CH = ("iter", itc, 1)
        TYPE = ("attr", CH, "type")
        oka = okit and bool(sites)
        for tname, tv in KDT.items():
            val = S.Valuation(1, override={TYPE: S.EnumConst(tv)})
            hit = [(k, alt) for k, alt, conds in sites if eval_conds([(c, p_) for c, p_ in conds if S.contains(c, lambda x: x == CH)], val)]
            want = S.call(".as_dict", [CH]) if tname == "Node" else ("attr", CH, "value")
            oka = oka and len(hit) == 1 and hit[0][1] == want and hit[0][0] == ("iter", itc, 0)
    chk.decide(oka, "K-PATH", "as-dict-recursion", actx.func, "nodes recurse into their children, leaves contribute their decoded value")


def _fname(chk: Check, offset):
    from ..rulelib import field_map

    st, fm = field_map(chk, CREL, "HyperVStorageKeyTableEntryHeader")
    for f in st.fields:
        if f.offset == offset:
            return f.name
    raise AnalysisError(f"no field at offset {offset} of the entry header")


def file_object(chk: Check):
    R = chk.R
    fk = chk.prog.cls(REL, "HyperVStorageFileObject").key
    ctx = chk.func(REL, "HyperVStorageFileObject.read")
    N = ("p", ctx.qual, 1)
    off, size = R.self_attr(fk, "offset"), R.self_attr(fk, "size")
    for s in calls_named(ctx, "seek"):
        chk.decide(R.expr(ctx, s.args[0]) == off, "K-FORMULA", "file-object-address", s, "a file object is read at its absolute offset")
    for r_ in calls_named(ctx, "read"):
        t = R.expr(ctx, r_.args[0])
        want = ("ite", S.cmp_("==", N, S.C(-1)), size, ("min", (N, size)))
        chk.decide(S.equiv(t, want, n=60, domain=lambda l, r: r.choice([-1, 0, 5, 1 << 20]) if l == N else r.randrange(0, 1 << 16)).equal is True,
                   "K-FORMULA", "file-object-length", r_, "read(n) returns min(n, size) bytes, everything for n = -1", found=S.show(t)[:160])


def _resolve_ites(t, val):
    """Replace every conditional inside t by the arm it takes under the valuation (where the condition can be evaluated)."""
    if not isinstance(t, tuple) or not t:
        return t
    if t[0] == "ite":
        try:
            return _resolve_ites(t[2] if S.ev(t[1], val) else t[3], val)
        except S.EvalError:
            return t
    if t[0] in ("c", "p", "f", "unk", "self", "phi"):
        return t
    return tuple(_resolve_ites(x, val) if isinstance(x, tuple) else x for x in t)
