from __future__ import annotations

import importlib

from ..loader import AnalysisError


def load(prop: str):
    try:
        return importlib.import_module(f"hvlint.rules.{prop}")
    except ModuleNotFoundError as e:
        raise AnalysisError(f"no rules for {prop}: {e}") from e
