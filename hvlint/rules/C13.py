"""C13 - lazy access: I/O proportional to the request, correct at multi-terabyte scale (structural clauses)."""
from __future__ import annotations

import ast

from .. import sym as S
from ..calls import iter_functions
from ..engine import HOLDS, UNDECIDED, VIOLATED, Check
from ..recon import _own_nodes
from ..rulelib import calls_named, check_layout, conds_sym, dead_reads
from ..spec.layouts import LAYOUTS, OWNERS

LEVEL = "other"
TECHNIQUE = ("static analysis: who-may-call rule for unbounded handle reads, call-graph closure of the constructors, "
             "memoisation-only access to table loaders, narrowing-operator scan on the backward slice of every seek argument, "
             "liveness of open-time reads, layout widths of offset-carrying fields")
EXPLANATION = (
    "Decides structural necessary conditions of lazy, wide-offset access: no disk module reads a handle without a length "
    "(except the text descriptor and DiskDescriptor.xml), no constructor reaches the data read path or loops over allocation "
    "units, every mapping-table loader is reached only through its memoisation (lru_cache rebinding / cached_property), every "
    "offset-carrying header / table field has the specified width (positional layouts), no 32-bit (or narrower) mask, modulo or "
    "ctypes narrowing lies on the backward slice of a seek argument outside a spec-confirmed allow-list - the slice is followed "
    "interprocedurally through resolved call sites (parameters -> callers' arguments) and through return / yield values of "
    "repository functions, data positions only (conditions contribute no bits) -, the buffered base class is initialised with "
    "its default alignment (adopted from C08), and no open-time read is dead. Does NOT measure bytes read and does not exercise multi-terabyte images."
)
ASSUMPTIONS = ["Python integers are unbounded, so a product of wide fields cannot overflow; only explicit narrowing operators can lose bits"]

DISK = ["disk/qcow2.py", "disk/vmdk.py", "disk/vhdx.py", "disk/vhd.py", "disk/vdi.py", "disk/hdd.py"]
STREAMS = [("disk/qcow2.py", "QCow2"), ("disk/vmdk.py", "VMDK"), ("disk/vmdk.py", "SparseDisk"), ("disk/vhdx.py", "VHDX"),
           ("disk/vhd.py", "VHD"), ("disk/vdi.py", "VDI"), ("disk/hdd.py", "HDS"), ("disk/hdd.py", "StorageStream")]
READ_PATH = {"_read", "read_sectors", "_yield_runs", "_iter_runs", "get_runs", "_lookup_grain", "_read_compressed",
             "_read_compressed_grain", "_iter_partial_runs", "read", "readinto", "peek", "readall"}
MEMOISED = [
    ("disk/qcow2.py", "QCow2", "l1_table", "cached_property"), ("disk/qcow2.py", "QCow2", "l2_table", "lru_cache"),
    ("disk/qcow2.py", "QCow2Snapshot", "l1_table", "cached_property"),
    ("disk/vmdk.py", "SparseDisk", "_lookup_grain_table", "lru_cache"),
    ("disk/vhdx.py", "BlockAllocationTable", "get", "lru_cache"), ("disk/vhd.py", "BlockAllocationTable", "get", "lru_cache"),
    ("disk/hdd.py", "HDS", "bat", "cached_property"),
]
# narrowing operators that the formats themselves mandate: (function qualname suffix, mask / kind) -> reason
NARROW_OK = {
    ("QCow2._read_compressed", 511): "sub-sector remainder of the compressed cluster's start (length computation, QEMU reference)",
    ("QCow2._read_extensions", 0xFFFFFFF8): "padding of a 32-bit extension length to 8 bytes",
    ("SparseDisk._lookup_grain_table", 0xFFFFFFFF): "SE-sparse directory entries carry a 32-bit table index in their low half (QEMU vmdk.c)",
    ("QCow2._yield_runs", "cluster-mask"): "offset & (cluster_size - 1): remainder, not a truncation",
}


def run(chk: Check):
    R = chk.R
    # ---- layouts: widths of every offset-carrying field -------------------------------------------------
    for rel in OWNERS["C13"]:
        for (r, name) in LAYOUTS:
            if r == rel:
                check_layout(chk, rel, name)
    # ---- unbounded reads ---------------------------------------------------------------------------------
    allowed = 0
    for rel in DISK:
        mi = chk.prog.info(rel)
        for n in ast.walk(mi.mod.tree):
            if not (isinstance(n, ast.Call) and isinstance(n.func, ast.Attribute)):
                continue
            a = n.func.attr
            unb = False
            if a in ("readall", "readlines"):
                unb = True
            elif a == "read":
                if not n.args and not n.keywords:
                    unb = True
                elif n.args and isinstance(n.args[0], ast.UnaryOp) and isinstance(n.args[0].op, ast.USub) and isinstance(n.args[0].operand, ast.Constant):
                    unb = True
                elif n.args and isinstance(n.args[0], ast.Constant) and n.args[0].value is None:
                    unb = True
            if not unb:
                continue
            from ..loader import enclosing_function, qualname

            f = enclosing_function(n)
            q = qualname(n)
            ok = False
            why = "a handle is read to its end: I/O grows with the file, not with the request"
            if rel == "disk/vmdk.py" and q == "VMDK.__init__" and f is not None:
                ctx = R.ctx_of(f)
                conds = conds_sym(chk, ctx, n)
                ok = any(S.contains(c, lambda x: x == S.C(b"# Di")) and p for c, p in conds)
                why = "the text descriptor (selected by the `# Di` magic) is read whole" if ok else why
            chk.decide(ok, "K-WHO", "no-unbounded-read", n, why)
            allowed += ok
    chk.holds("K-WHO", "unbounded-read-scan", ("disk/*", "<6 modules>", 0), f"scanned every .read()/.readall()/.readlines() of the disk modules; {allowed} allow-listed", nontrivial=False)
    # iteration over a handle
    for rel in DISK:
        mi = chk.prog.info(rel)
        for n in ast.walk(mi.mod.tree):
            if isinstance(n, ast.For) and isinstance(n.iter, (ast.Name, ast.Attribute)) and ast.unparse(n.iter).split(".")[-1] in ("fh", "handle", "fileobj"):
                chk.violated("K-WHO", "no-handle-iteration", n, "iterating over a file handle scans the whole file")
    # ---- constructors: metadata-only I/O ---------------------------------------------------------------
    for rel, cname in STREAMS:
        ci = chk.prog.cls(rel, cname)
        if "__init__" not in ci.methods:
            continue
        closure = _closure(chk, rel, f"{cname}.__init__")
        bad = sorted(q for q in closure if q.split(".")[-1].split("::")[-1] in READ_PATH and not q.endswith("__init__"))
        # reading through the stream's own read path at open time
        chk.decide(not bad, "K-PATH", f"open-is-metadata-only:{cname}", ci.methods["__init__"],
                   f"{len(closure)} functions reachable from the constructor, none on the data read path" if not bad
                   else f"the constructor reaches the data read path: {bad[:3]}")
        # loops bounded by the virtual size
        for q in sorted(closure | {f"{rel}::{cname}.__init__"}):
            r2, _, qq = q.partition("::")
            if not chk.prog.has_func(r2, qq):
                continue
            ctx = chk.func(r2, qq)
            for loop in ctx.loops:
                io = [x for x in ast.walk(loop) if isinstance(x, ast.Call) and isinstance(x.func, ast.Attribute) and x.func.attr in ("seek", "read")]
                if not io:
                    continue
                subj = loop.iter if isinstance(loop, ast.For) else loop.test
                t = R.expr(ctx, subj, ctx.cfg.node_of[loop])
                sizeish = S.contains(t, lambda x: isinstance(x, tuple) and x and x[0] == "f" and (
                    (x[1], x[2]) in {("QCowHeader", 24), ("VMDKSparseExtentHeader", 12), ("footer", 48), ("HeaderDescriptor", 368),
                                     ("pvd_header", 36), ("HeaderDescriptor", 384), ("dynamic_header", 28), ("QCowHeader", 36)}))
                chk.decide(not sizeish, "K-PATH", f"no-open-time-scan:{qq}", loop,
                           "open-time loop with I/O is bounded by a metadata count, not by the disk size" if not sizeish
                           else "an open-time loop performs I/O once per allocation unit of the disk", nontrivial=False)
    # ---- memoised table loaders -------------------------------------------------------------------------
    for rel, cname, attr, how in MEMOISED:
        ci = chk.prog.cls(rel, cname)
        if attr not in ci.methods:
            chk.add("K-PURE", f"memoised:{cname}.{attr}", (rel, cname, 0), "ANCHOR-VANISHED", f"{cname}.{attr} is gone")
            continue
        fn = ci.methods[attr]
        if how == "cached_property":
            ok = "cached_property" in ci.decorators(attr)
        else:
            ok = any(isinstance(v, ast.Call) and "lru_cache" in ast.unparse(v.func) and m.name == "__init__"
                     for (m, st, v) in ci.self_assigns.get(attr, [])) or any("lru_cache" in d or d == "cache" for d in ci.decorators(attr))
        chk.decide(ok, "K-PURE", f"memoised:{cname}.{attr}", fn,
                   f"the table loader is only reachable through {how}" if ok else f"the table loader is called unmemoised: every look-up re-reads the table")
    # ---- narrowing scan on seek arguments -----------------------------------------------------------------
    n_seek = 0
    slicer = _Slicer(chk)
    for rel in DISK:
        mi = chk.prog.info(rel)
        for mi_, ci, fn in iter_functions(chk.prog):
            if mi_ is not mi:
                continue
            ctx = R.ctx_of(fn)
            q = ctx.qual.split("::")[-1]
            for s in calls_named(ctx, "seek"):
                if not s.args:
                    continue
                n_seek += 1
                t = R.expr(ctx, s.args[0])
                probs = _narrowings(t, q)
                if not probs:
                    # interprocedural part of the backward slice: callers' arguments, callees' return / yield values
                    probs = [f"{p} [{' <- '.join(trail)}]" for p, trail in slicer.slice(t, q)]
                chk.decide(not probs, "K-WIDE", f"seek-slice-not-narrowed:{q}", s,
                           "no 32-bit (or narrower) mask / modulo / ctypes narrowing on the address computation" if not probs else probs[0],
                           found=S.show(t)[:200])
    chk.extra["seek_sites"] = n_seek
    # values that feed seeks through other functions: masks as constants
    for name, want in (("L1E_OFFSET_MASK", 0x00FFFFFFFFFFFE00), ("L2E_OFFSET_MASK", 0x00FFFFFFFFFFFE00), ("L2E_COMPRESSED_OFFSET_SIZE_MASK", (1 << 62) - 1)):
        from ..rulelib import check_const

        check_const(chk, "disk/c_qcow2.py", name, want, "offset mask keeps bits 9-55 / 0-61", kind="K-WIDE")
    # ---- liveness of open-time reads -----------------------------------------------------------------------
    for rel, cname in STREAMS + [("disk/vhdx.py", "RegionTable"), ("disk/vhdx.py", "MetadataTable"), ("disk/vhd.py", "DynamicDisk"),
                                ("disk/qcow2.py", "L2Table"), ("disk/qcow2.py", "QCow2Snapshot")]:
        ci = chk.prog.cls(rel, cname)
        if "__init__" not in ci.methods:
            continue
        ctx = chk.func(rel, f"{cname}.__init__")
        dr = dead_reads(chk, ctx)
        for n, why in dr:
            chk.violated("K-LIVE", "dead-read", n, why)
        if not dr:
            chk.holds("K-LIVE", f"no-dead-read:{cname}", ctx.func, "every value read at open time is used before it is overwritten", nontrivial=False)
    # request-proportional I/O: the buffered base class is initialised with its default alignment (shared with C08)
    chk.share("C08", lambda i: i.name.startswith("base-init:"), 6)
    chk.require("K-WIDE", 30)
    chk.require("K-PURE", 7)
    chk.require("K-PATH", 8)


def _allowed_operand(key, operand):
    q, c = key
    if q == "SparseDisk._lookup_grain_table":
        return operand[0] == "sub"  # the raw directory entry, nothing computed from it
    if q == "QCow2._read_extensions":
        return S.contains(operand, lambda x: isinstance(x, tuple) and x and x[0] == "f" and x[1] == "QCowExtension" and x[3] == 4)
    return True


def _data_walk(t):
    """Sub-terms on the data path of a value: conditions (the test of a conditional, comparisons, boolean connectives and
    `not`) select between values but contribute no bits, so a flag test like `features & 16` there is not a narrowing."""
    yield t
    if not (isinstance(t, tuple) and t):
        return
    if t[0] in ("cmp", "bool", "not"):
        return
    kids = list(S.children(t))
    if t[0] == "ite":
        kids = kids[1:]
    for c in kids:
        yield from _data_walk(c)


def _narrowings(t, q):
    probs = []
    for x in _data_walk(t):
        if not (isinstance(x, tuple) and x):
            continue
        if x[0] == "op" and x[1] in ("and", "mod"):
            for a, b in ((x[2], x[3]), (x[3], x[2])):
                if S.is_const(b) and isinstance(b[1], int) and not isinstance(b[1], bool):
                    c = b[1]
                    width = c.bit_length() if x[1] == "and" else (c - 1).bit_length()
                    if x[1] == "and" and c < 0:
                        continue  # ~mask: keeps the high bits
                    if width <= 32:
                        # small remainders (sector / cluster remainders) are not truncations of an address when the other
                        # operand is added back elsewhere; decide by allow-list
                        key = (q, c)
                        if key in NARROW_OK and _allowed_operand(key, a):
                            continue
                        if (x[1] == "mod" and c < (1 << 24)) or (x[1] == "and" and (c & (c + 1)) == 0 and c < (1 << 24)):
                            # x % small / x & (2^k - 1) with k < 24: a remainder within a unit, never a file offset on its own
                            continue
                        probs.append(f"`{S.show(x)[:120]}`: the value is cut to {width} bits before it reaches the seek "
                                     "(an offset beyond 4 GiB would wrap)")
        if x[0] == "call" and x[1] in ("ext:ctypes.c_uint32", "ext:ctypes.c_int32", "ext:ctypes.c_uint16", "ext:ctypes.c_int16", "ext:ctypes.c_uint8"):
            probs.append(f"`{S.show(x)[:100]}`: ctypes narrowing on the address computation")
        if x[0] == "call" and x[1] == "ext:struct.pack":
            probs.append(f"`{S.show(x)[:100]}`: struct.pack on the address computation")
    return probs


def _closure(chk: Check, rel, qual):
    """Repository functions reachable from rel::qual through resolved calls (constructors resolve to __init__)."""
    R = chk.R
    seen = set()
    stack = [f"{rel}::{qual}"]
    while stack:
        q = stack.pop()
        r2, _, qq = q.partition("::")
        if not chk.prog.has_func(r2, qq):
            continue
        ctx = chk.func(r2, qq)
        for n in _own_nodes(ctx.func):
            callee = None
            if isinstance(n, ast.Call):
                t = R.expr(ctx, n)
                if t[0] == "call":
                    nm = t[1]
                    if nm.startswith("new:"):
                        callee = nm[4:] + ".__init__"
                    elif "::" in nm and not nm.startswith("ext:"):
                        callee = nm
                    elif nm.startswith(".") and t[2]:
                        for alt in S.alternatives(t[2][0]):
                            key = alt[1] if alt[0] == "self" else alt[1][4:] if alt[0] == "call" and alt[1].startswith("new:") else None
                            if key:
                                ci2 = R._class_by_key(key)
                                fm = chk.prog.find_method(ci2, nm[1:]) if ci2 is not None else None
                                if fm is not None:
                                    c2 = f"{fm[0].key}.{nm[1:]}"
                                    if c2 not in seen:
                                        seen.add(c2)
                                        stack.append(c2)
                elif t[0] == "inst" and isinstance(t[2], tuple) and t[2] and t[2][0] == "call" and "::" in t[2][1]:
                    callee = t[2][1]
                # explicit self.method(...) calls that were inlined still count as reached
                if isinstance(n.func, ast.Attribute) and isinstance(n.func.value, ast.Name) and ctx.ci is not None and ctx.cfg.params and n.func.value.id == ctx.cfg.params[0]:
                    fm = chk.prog.find_method(ctx.ci, n.func.attr)
                    if fm is not None:
                        callee = f"{fm[0].key}.{n.func.attr}"
            elif isinstance(n, ast.Subscript) and isinstance(n.ctx, ast.Load):
                # obj[key] may run a __getitem__ of the package; whatever survives inlining shows up as a call inside the term
                try:
                    t = R.expr(ctx, n)
                except Exception:
                    t = None
                if t is not None:
                    for x in S.walk(t):
                        if isinstance(x, tuple) and x and x[0] == "call" and "::" in str(x[1]) and not str(x[1]).startswith(("ext:", "new:")):
                            if x[1] not in seen:
                                seen.add(x[1])
                                stack.append(x[1])
            elif isinstance(n, ast.Attribute) and isinstance(n.value, ast.Name) and ctx.ci is not None and ctx.cfg.params and n.value.id == ctx.cfg.params[0]:
                # property access
                for c in chk.prog.mro(ctx.ci):
                    if n.attr in c.methods and c.is_property(n.attr):
                        callee = f"{c.key}.{n.attr}"
            if callee and callee not in seen:
                seen.add(callee)
                stack.append(callee)
    return seen


# receiver-less method names too generic to be matched by name when the receiver's class is unknown
_GENERIC = {"get", "read", "seek", "tell", "open", "close", "append", "extend", "join", "items", "keys", "values", "pop",
            "setdefault", "update", "format", "decode", "encode", "ljust", "rjust", "strip", "split", "find", "index",
            "count", "copy", "debug", "info", "warning", "error", "exception", "startswith", "endswith", "lower", "upper"}


class _Slicer:
    """Interprocedural continuation of a backward slice over reconstructed terms:
    a parameter leaf continues in the argument terms of every resolved call site of its function, a call / iteration term of a
    repository function continues in that function's return and yield values.  Narrowing operators are reported with the
    function they occur in (the allow-list is per function) and the trail that connects them to the seek."""

    DEPTH = 5

    def __init__(self, chk: Check):
        self.chk = chk
        self.R = chk.R
        self.feeds = None
        self.values = {}
        self.sites = 0

    def _index(self):
        chk, R = self.chk, self.R
        self.feeds = {}
        by_name = {}
        funcs = []
        for mi, ci, fn in iter_functions(chk.prog):
            if mi.mod.relpath not in DISK:
                continue
            ctx = R.ctx_of(fn)
            funcs.append(ctx)
            if ci is not None:
                by_name.setdefault((mi.mod.relpath, fn.name), []).append(ctx.qual)
        for ctx in funcs:
            rel = ctx.qual.partition("::")[0]
            for n in _own_nodes(ctx.func):
                if not isinstance(n, ast.Call):
                    continue
                try:
                    t = R.expr(ctx, n)
                except Exception:
                    continue
                if t[0] != "call":
                    continue
                nm, args = t[1], t[2]
                kws = t[3] if len(t) > 3 and t[3] else ()
                targets = []
                if nm.startswith("new:"):
                    targets = [(nm[4:] + ".__init__", 1)]
                elif nm.startswith("ext:") or nm.startswith("?"):
                    continue
                elif "::" in nm:
                    targets = [(nm, 0)]
                elif nm.startswith(".") and nm[1:] not in _GENERIC:
                    targets = [(q, 0) for q in by_name.get((rel, nm[1:]), [])]
                for callee, shift in targets:
                    r2, _, qq = callee.partition("::")
                    if not chk.prog.has_func(r2, qq):
                        continue
                    cctx = chk.func(r2, qq)
                    names = [a.arg for a in cctx.func.args.posonlyargs + cctx.func.args.args]
                    self.sites += 1
                    slot = self.feeds.setdefault(callee, {})
                    for i, a in enumerate(args):
                        slot.setdefault(i + shift, []).append((ctx.qual, a))
                    for kw in kws:
                        if isinstance(kw, tuple) and len(kw) == 2 and kw[0] in names:
                            slot.setdefault(names.index(kw[0]), []).append((ctx.qual, kw[1]))

    def _values(self, callee):
        """Return / yield value terms of a repository function."""
        if callee in self.values:
            return self.values[callee]
        out = []
        r2, _, qq = callee.partition("::")
        if self.chk.prog.has_func(r2, qq):
            ctx = self.chk.func(r2, qq)
            for n in _own_nodes(ctx.func):
                v = None
                if isinstance(n, ast.Return) and n.value is not None:
                    v, at = n.value, n
                elif isinstance(n, ast.Yield) and n.value is not None:
                    v, at = n.value, n
                if v is None:
                    continue
                try:
                    out.append(self.R.expr(ctx, v, ctx.cfg.node_for(at)))
                except Exception:
                    continue
        self.values[callee] = out
        return out

    def slice(self, t, q, depth=None, seen=None, trail=()):
        if self.feeds is None:
            self._index()
        depth = self.DEPTH if depth is None else depth
        seen = set() if seen is None else seen
        out = []
        if trail:
            out += [(p, trail) for p in _narrowings(t, q)]
        if depth == 0:
            return out
        for x in _data_walk(t):
            if not (isinstance(x, tuple) and x):
                continue
            if x[0] == "p" and isinstance(x[1], str) and "::" in x[1]:
                key = ("p", x[1], x[2])
                if key in seen:
                    continue
                seen.add(key)
                for caller, term in self.feeds.get(x[1], {}).get(x[2], []):
                    cq = caller.split("::")[-1]
                    out += self.slice(term, cq, depth - 1, seen, trail + (f"argument {x[2]} of {x[1].split('::')[-1]} in {cq}",))
            elif x[0] == "call" and isinstance(x[1], str) and "::" in x[1] and not x[1].startswith(("ext:", "new:", "?")):
                key = ("v", x[1])
                if key in seen:
                    continue
                seen.add(key)
                for term in self._values(x[1]):
                    cq = x[1].split("::")[-1]
                    out += self.slice(term, cq, depth - 1, seen, trail + (f"value of {cq}",))
        return out
