"""C19 - XML descriptors are parsed without entity expansion or external fetches.

Decided completely (universal over every import statement and every call site of the package):
 R1 K-WHO   no runtime import of an XML parser other than defusedxml; no dynamic import.
 R2 K-PROV  every call to a function with an XML-parsing name resolves to defusedxml and does not
            switch the protections off (forbid_entities / forbid_external = False, custom parser=).
 R3 K-PATH  each of the four XML entry points parses through defusedxml and its element tree
            attribute is assigned from that parse only.
 R4         trusted-base cross-check: installed defusedxml declares the protective defaults.
"""
from __future__ import annotations

import ast
import sys
from pathlib import Path

from ..calls import Resolver, const_kw, dotted, in_annotation, in_type_checking_block, iter_calls
from ..engine import HOLDS, UNDECIDED, VIOLATED, Check, World
from ..loader import AnalysisError, enclosing_function, qualname

LEVEL = "proof"
EXPLANATION = (
    "Whole-package who-may-call / provenance analysis: all import statements and all call sites are "
    "enumerated from the current source; XML parsing is only reachable through defusedxml.ElementTree with "
    "its protective defaults. Decides the structural property (which parser, which flags) for every code "
    "path; the behaviour of defusedxml itself on hostile documents is trusted (its defaults are cross-checked "
    "from its source text)."
)
ASSUMPTIONS = [
    "defusedxml.ElementTree.fromstring with default arguments rejects entity declarations (trusted dependency)",
    "no code object is created dynamically (exec/eval/__import__/importlib are themselves reported)",
]
TRUSTED_BASE = ["CPython ast", "defusedxml 0.7.x semantics", "import-table based callee resolution (hvlint.calls)"]

UNSAFE_XML_ROOTS = ("xml", "lxml", "xmltodict", "bs4", "html5lib", "genshi", "expat", "pyexpat")
SAFE_PREFIX = ("defusedxml.ElementTree", "defusedxml.cElementTree", "defusedxml.minidom", "defusedxml.sax",
               "defusedxml.pulldom", "defusedxml.expatreader", "defusedxml.expatbuilder")
SINKS = {"fromstring", "fromstringlist", "parse", "XML", "XMLID", "iterparse", "parseString", "XMLParser",
         "XMLPullParser", "make_parser", "TreeBuilder", "ParserCreate", "expatreader"}
# parameter order of the hardened entry points (defusedxml 0.7): (module, function) -> names
_FORBID = ["forbid_dtd", "forbid_entities", "forbid_external"]
_DEFUSED_SIGNATURES = {
    ("*", "fromstring"): ["text"] + _FORBID, ("*", "XML"): ["text"] + _FORBID,
    ("ElementTree", "parse"): ["source", "parser"] + _FORBID, ("cElementTree", "parse"): ["source", "parser"] + _FORBID,
    ("*", "iterparse"): ["source", "events", "parser"] + _FORBID,
    ("minidom", "parse"): ["file", "parser", "bufsize"] + _FORBID, ("minidom", "parseString"): ["string", "parser"] + _FORBID,
    ("pulldom", "parse"): ["stream_or_string", "parser", "bufsize"] + _FORBID, ("pulldom", "parseString"): ["string", "parser"] + _FORBID,
    ("sax", "parse"): ["source", "handler", "errorHandler"] + _FORBID, ("sax", "parseString"): ["string", "handler", "errorHandler"] + _FORBID,
    ("expatbuilder", "parse"): ["file", "namespaces"] + _FORBID, ("expatbuilder", "parseString"): ["string", "namespaces"] + _FORBID,
}
DYNAMIC = {"__import__", "importlib.import_module", "importlib.__import__", "exec", "eval", "compile",
           "imp.load_source", "runpy.run_path", "runpy.run_module"}

ENTRY_POINTS = [
    ("descriptor/ovf.py", "OVF", "__init__"),
    ("descriptor/vbox.py", "VBox", "__init__"),
    ("descriptor/pvs.py", "PVS", "__init__"),
    ("disk/hdd.py", "Descriptor", "__init__"),
]


def scan_imports(world: World):
    out = []
    for rel, mi in sorted(world.prog.infos.items()):
        for n in ast.walk(mi.mod.tree):
            mods = []
            if isinstance(n, ast.Import):
                mods = [(al.name, al.asname or al.name.split(".")[0], None) for al in n.names]
            elif isinstance(n, ast.ImportFrom) and n.level == 0:
                mods = [(n.module or "", al.asname or al.name, al.name) for al in n.names]
            for modname, local, orig in mods:
                root = modname.split(".")[0]
                full = modname + ("." + orig if orig else "")
                if root == "importlib" or full.startswith("importlib"):
                    out.append(("K-WHO", f"dynamic-import:{full}", n, VIOLATED, f"dynamic import machinery imported: {full}"))
                    continue
                if root not in UNSAFE_XML_ROOTS:
                    continue
                if in_type_checking_block(n):
                    # names may only be used in annotations
                    bad = None
                    for u in ast.walk(mi.mod.tree):
                        if isinstance(u, ast.Name) and u.id == local and isinstance(u.ctx, ast.Load):
                            if not in_annotation(u):
                                bad = u
                                break
                    if bad is not None:
                        out.append(("K-WHO", f"typing-only-import-used:{full}", bad, VIOLATED,
                                    f"{local} imported under TYPE_CHECKING from {modname} but used at run time"))
                    else:
                        out.append(("K-WHO", f"typing-only-import:{full}", n, HOLDS,
                                    "import is inside `if TYPE_CHECKING:` and the name occurs only in annotations"))
                else:
                    out.append(("K-WHO", f"runtime-xml-import:{full}", n, VIOLATED,
                                f"run-time import of a non-hardened XML parser: {full}"))
    return out


def scan_sinks(world: World):
    out = []
    res = Resolver(world.prog)
    for mi, call in iter_calls(world.prog):
        kind, name = res.resolve(mi, call.func)
        last = name.split(".")[-1].split("::")[-1]
        if kind in ("external", "builtin", "unknown", "local") and (name in DYNAMIC or (kind == "builtin" and name in ("exec", "eval", "__import__", "compile"))):
            out.append(("K-WHO", f"dynamic-code:{name}", call, VIOLATED, f"dynamic import / code execution: {name}"))
            continue
        if last not in SINKS:
            continue
        if kind in ("repo", "repo-class"):
            continue  # a function of this package that happens to be called parse() etc.
        if kind == "external":
            if name.startswith(SAFE_PREFIX):
                bad = []
                # positional arguments (also those unpacked from a constant tuple) land in the callee's parameters by position:
                # the defusedxml entry points do not agree on where `parser` and the forbid_* switches sit
                params = _DEFUSED_SIGNATURES.get((name.rsplit(".", 1)[0].split(".")[-1], last)) or _DEFUSED_SIGNATURES.get(("*", last))
                bound = {}
                pos = []
                opaque_star = False
                for a in call.args:
                    if isinstance(a, ast.Starred):
                        try:
                            seq = world.prog.fold(a.value, mi)
                            pos.extend(("const", v) for v in seq)
                        except Exception:
                            opaque_star = True
                    else:
                        try:
                            pos.append(("const", world.prog.fold(a, mi)))
                        except Exception:
                            pos.append(("expr", a))
                if opaque_star:
                    bad.append("*args forwarded")
                elif len(pos) > 1:
                    if params is None:
                        bad.append(f"{len(pos)} positional arguments to an entry point whose parameter order is not known to the checker")
                    else:
                        for pname, pv in zip(params, pos):
                            bound[pname] = pv
                        if len(pos) > len(params):
                            bad.append("more positional arguments than parameters")
                for kw in ("forbid_entities", "forbid_external"):
                    v = const_kw(call, kw)
                    if v is not None:
                        try:
                            bound[kw] = ("const", world.prog.fold(v, mi))
                        except Exception:
                            bound[kw] = ("expr", v)
                    if kw in bound and not (bound[kw][0] == "const" and bound[kw][1] is True):
                        bad.append(f"{kw}={bound[kw][1] if bound[kw][0] == 'const' else ast.unparse(bound[kw][1])}")
                if const_kw(call, "parser") is not None or ("parser" in bound and not (bound["parser"][0] == "const" and bound["parser"][1] is None)):
                    pv = bound.get("parser")
                    bad.append("custom parser=" + (repr(pv[1]) if pv and pv[0] == "const" else ""))
                if any(k.arg is None for k in call.keywords):
                    bad.append("**kwargs forwarded")
                if bad:
                    out.append(("K-PROV", f"xml-sink-flags:{name}", call, VIOLATED, "protection switched off: " + ", ".join(bad)))
                else:
                    out.append(("K-PROV", f"xml-sink:{name}", call, HOLDS, "resolves to defusedxml with protective defaults"))
            else:
                root = name.split(".")[0]
                if root in UNSAFE_XML_ROOTS or root == "defusedxml":
                    out.append(("K-PROV", f"xml-sink:{name}", call, VIOLATED, f"XML parsed by {name}, not by a hardened defusedxml entry point"))
                # other externals with a sink-like name (e.g. argparse.ArgumentParser.parse_args is not in SINKS)
                elif root in ("json", "ast", "email", "configparser", "urllib", "datetime", "uuid", "argparse", "plistlib"):
                    continue
                else:
                    out.append(("K-PROV", f"xml-sink?:{name}", call, UNDECIDED, f"call to {name}: cannot tell whether it parses XML"))
            continue
        # method on a receiver that is not a module/class: decide by the receiver's provenance
        recv = call.func.value if isinstance(call.func, ast.Attribute) else None
        rtxt = ast.unparse(recv) if recv is not None else ""
        if last == "parse" and recv is not None:
            # cls.parse(...) / Some.parse(...) handled above when resolvable; `cls` inside a classmethod:
            f = enclosing_function(call)
            if isinstance(recv, ast.Name) and f is not None and f.args.args and recv.id == f.args.args[0].arg:
                continue
        # provenance of the receiver through def-use reconstruction
        mods = _receiver_modules(world, call)
        if mods is not None:
            roots = {m.split(".")[0] for m in mods}
            if roots & set(UNSAFE_XML_ROOTS):
                out.append(("K-PROV", f"xml-sink:.{last}", call, VIOLATED,
                            f"`{rtxt}.{last}(...)`: receiver derives from {sorted(mods)}"))
                continue
            if roots and not (roots & {"defusedxml"}):
                continue  # receiver is an object of a non-XML module (e.g. array.array.fromstring)
        out.append(("K-PROV", f"xml-sink?:.{last}", call, UNDECIDED,
                    f"call `{rtxt}.{last}(...)` has an XML-parsing name and an unresolved receiver"))
    return out


def _receiver_modules(world: World, call: ast.Call):
    """External modules the receiver object of a method call derives from (None if unknown)."""
    from .. import sym as S

    f = enclosing_function(call)
    if f is None or not isinstance(call.func, ast.Attribute):
        return None
    try:
        ctx = world.R.ctx_of(f)
        t = world.R.expr(ctx, call.func.value)
    except Exception:
        return None
    mods = {x[1][4:] for x in S.walk(t) if isinstance(x, tuple) and x and x[0] in ("mod", "call") and str(x[1]).startswith("ext:")}
    if S.contains(t, lambda x: isinstance(x, tuple) and x and x[0] in ("unk", "p")):
        return mods or None
    return mods or None


def check_entry_points(chk: Check):
    res = Resolver(chk.prog)
    for rel, cname, meth in ENTRY_POINTS:
        ci = chk.prog.cls(rel, cname)
        if meth not in ci.methods:
            raise AnalysisError(f"ANCHOR-VANISHED function {rel}::{cname}.{meth}")
        fn = ci.methods[meth]
        parses = []
        for n in ast.walk(fn):
            if isinstance(n, ast.Call):
                kind, name = res.resolve(ci.mod, n.func)
                if kind == "external" and name.startswith(SAFE_PREFIX) and name.split(".")[-1] in SINKS:
                    parses.append(n)
        if not parses:
            chk.violated("K-PATH", f"entry-point-parses-hardened:{cname}", fn,
                         f"{cname}.{meth} no longer parses its document through defusedxml")
            continue
        # the attribute holding the tree is assigned only from that parse
        tree_attrs = set()
        for attr, assigns in ci.self_assigns.items():
            for (m, stmt, v) in assigns:
                if any(v is p or p in list(ast.walk(v)) for p in parses):
                    tree_attrs.add(attr)
        ok = True
        for attr in tree_attrs:
            for (m, stmt, v) in ci.self_assigns[attr]:
                if not any(p in list(ast.walk(v)) for p in parses):
                    ok = False
                    chk.violated("K-PATH", f"tree-attribute-reassigned:{cname}.{attr}", stmt,
                                 f"self.{attr} is also assigned from something other than the defusedxml parse")
        if ok:
            chk.holds("K-PATH", f"entry-point-parses-hardened:{cname}", fn,
                      f"{len(parses)} defusedxml parse call(s); tree attribute(s) {sorted(tree_attrs)} assigned only from it")


def check_defusedxml_defaults(chk: Check):
    path = None
    for p in sys.path:
        cand = Path(p) / "defusedxml" / "ElementTree.py"
        if cand.is_file():
            path = cand
            break
    if path is None:
        chk.note("defusedxml source not found on sys.path; trusted-base cross-check skipped")
        return
    tree = ast.parse(path.read_text())
    found = False
    for n in ast.walk(tree):
        if isinstance(n, ast.FunctionDef) and n.name == "fromstring":
            names = [a.arg for a in n.args.args]
            defaults = dict(zip(names[len(names) - len(n.args.defaults):], n.args.defaults))
            ok = all(isinstance(defaults.get(k), ast.Constant) and defaults[k].value is True
                     for k in ("forbid_entities", "forbid_external"))
            chk.add("K-TRUSTED", "defusedxml-defaults", ("<site-packages>/defusedxml/ElementTree.py", "fromstring", n.lineno),
                    HOLDS if ok else VIOLATED,
                    "installed defusedxml.ElementTree.fromstring declares forbid_entities=True, forbid_external=True"
                    if ok else "installed defusedxml no longer defaults to forbid_entities/forbid_external = True",
                    nontrivial=False)
            found = True
    if not found:
        chk.note("defusedxml.ElementTree.fromstring not found in its source; cross-check skipped")


def run(chk: Check):
    for kind, name, node, verdict, detail in scan_imports(chk.world) + scan_sinks(chk.world):
        chk.add(kind, name, node, verdict, detail)
    check_entry_points(chk)
    check_defusedxml_defaults(chk)
    chk.require("K-PROV", 4)
    chk.require("K-PATH", 4)
    chk.require("K-WHO", 4)
    # liveness of the zero-expected rules: the fixture package must be flagged
    from ..fixtures import fixture_world

    fw = fixture_world()
    fx = scan_imports(fw) + scan_sinks(fw)
    need = {"runtime-xml-import": False, "xml-sink:xml.etree": False, "xml-sink-flags": False, "dynamic": False}
    for kind, name, node, verdict, detail in fx:
        if verdict == VIOLATED:
            for k in need:
                if name.startswith(k):
                    need[k] = True
    for k, hit in need.items():
        chk.add("LIVENESS", f"fixture:{k}", ("fixtures/c19_bad.py", "<fixture>", 0), HOLDS if hit else UNDECIDED,
                "rule fires on the planted violation" if hit else "rule did NOT fire on the planted violation",
                nontrivial=False)
