"""Symbolic expression terms (the checker's IR), their display, and equality decision.

Terms are nested tuples.  Equality of two terms is decided first syntactically and then by
randomised identity testing over the integers (polynomial identity testing extended with
floor-division, modulo, bit operations, min/max and uninterpreted functions).  Only these
terms are evaluated - never any code of the analysed repository.
"""
from __future__ import annotations

import hashlib
import random

# ---------------------------------------------------------------------------------------
# constructors


class EnumConst(int):
    """Integer constant that remembers the enum member it came from."""

    def __new__(cls, value, enum="", member=""):
        o = int.__new__(cls, value)
        o.enum = enum
        o.member = member
        return o

    def __repr__(self):
        return f"{self.enum}.{self.member}={int(self)}"


def C(v):
    return ("c", v)


def is_const(t):
    return isinstance(t, tuple) and len(t) == 2 and t[0] == "c"


_BIN = {
    "add": lambda a, b: a + b,
    "sub": lambda a, b: a - b,
    "mul": lambda a, b: a * b,
    "floordiv": lambda a, b: a // b,
    "mod": lambda a, b: a % b,
    "lshift": lambda a, b: _shl(a, b),
    "rshift": lambda a, b: _shr(a, b),
    "and": lambda a, b: a & b,
    "or": lambda a, b: a | b,
    "xor": lambda a, b: a ^ b,
    "pow": lambda a, b: _pow(a, b),
    "div": lambda a, b: a / b,
}


class EvalError(Exception):
    pass


def _shl(a, b):
    if not isinstance(b, int) or b < 0 or b > 200:
        raise EvalError("shift out of range")
    return a << b


def _shr(a, b):
    if not isinstance(b, int) or b < 0:
        raise EvalError("shift out of range")
    if b > 4096:
        b = 4096
    return a >> b


def _pow(a, b):
    if not isinstance(b, int) or b < 0 or b > 200 or abs(a) > 1 << 64:
        raise EvalError("pow out of range")
    return a**b


_AC = {"add", "mul", "and", "or", "xor"}


def _flatten(name, t, out):
    if isinstance(t, tuple) and t and t[0] == "op" and t[1] == name:
        _flatten(name, t[2], out)
        _flatten(name, t[3], out)
    else:
        out.append(t)


def op(name, a, b):
    if is_const(a) and is_const(b):
        try:
            return C(_BIN[name](a[1], b[1]))
        except Exception:
            pass
    if name in _AC and not (is_const(a) and isinstance(a[1], (bytes, str))) and not (is_const(b) and isinstance(b[1], (bytes, str))):
        # canonical order for associative-commutative integer operators: flatten, fold constants, sort
        items = []
        _flatten(name, a, items)
        _flatten(name, b, items)
        consts = [x for x in items if is_const(x) and isinstance(x[1], int) and not isinstance(x[1], bool)]
        rest = [x for x in items if not (is_const(x) and isinstance(x[1], int) and not isinstance(x[1], bool))]
        if any(is_const(x) and isinstance(x[1], (bytes, str)) for x in rest):
            return ("op", name, a, b)
        if len(consts) > 1:
            acc = consts[0][1]
            for c in consts[1:]:
                acc = _BIN[name](acc, c[1])
            consts = [C(acc)]
        rest.sort(key=repr)
        items = rest + consts
        t = items[0]
        for x in items[1:]:
            t = ("op", name, t, x)
        return t
    return ("op", name, a, b)


def cmp_(o, a, b):
    return ("cmp", o, a, b)


def call(name, args, kw=None):
    return ("call", name, tuple(args), tuple(sorted((kw or {}).items())))


def unk(text):
    return ("unk", str(text))


# ---------------------------------------------------------------------------------------
# display

_OPSYM = {"add": "+", "sub": "-", "mul": "*", "floordiv": "//", "mod": "%", "lshift": "<<", "rshift": ">>",
          "and": "&", "or": "|", "xor": "^", "pow": "**", "div": "/"}


def show(t, names=None) -> str:
    """Human-readable rendering. `names` may map leaf terms to friendly names."""
    if names and t in names:
        return names[t]
    if not isinstance(t, tuple) or not t:
        return repr(t)
    k = t[0]
    if k == "c":
        v = t[1]
        if isinstance(v, EnumConst):
            return v.member or str(int(v))
        if isinstance(v, bool) or v is None:
            return repr(v)
        if isinstance(v, int) and abs(v) > 4096:
            return hex(v)
        return repr(v)
    if k == "p":
        return f"arg{t[2]}<{t[1].split('::')[-1]}>"
    if k == "f":
        _, st, off, size, endian, bitoff, bitw, signed, src = t
        b = f"[{bitoff}:{bitoff + bitw}]" if bitoff is not None else ""
        return f"{show(src, names)}.{st}@{off}:{'i' if signed else 'u'}{size * 8}{'be' if endian == '>' else 'le'}{b}"
    if k == "op":
        return f"({show(t[2], names)} {_OPSYM[t[1]]} {show(t[3], names)})"
    if k == "neg":
        return f"-{show(t[1], names)}"
    if k == "inv":
        return f"~{show(t[1], names)}"
    if k == "not":
        return f"not {show(t[1], names)}"
    if k == "cmp":
        return f"({show(t[2], names)} {t[1]} {show(t[3], names)})"
    if k == "bool":
        return "(" + f" {t[1]} ".join(show(x, names) for x in t[2]) + ")"
    if k == "ite":
        return f"({show(t[2], names)} if {show(t[1], names)} else {show(t[3], names)})"
    if k in ("min", "max"):
        return f"{k}(" + ", ".join(show(x, names) for x in t[1]) + ")"
    if k == "call":
        kws = "".join(f", {a}={show(v, names)}" for a, v in t[3])
        return f"{t[1]}(" + ", ".join(show(x, names) for x in t[2]) + kws + ")"
    if k == "attr":
        return f"{show(t[1], names)}.{t[2]}"
    if k == "sub":
        return f"{show(t[1], names)}[{show(t[2], names)}]"
    if k == "slice":
        step = f":{show(t[3], names)}" if len(t) > 3 else ""
        return f"{show(t[1], names) if t[1] != C(None) else ''}:{show(t[2], names) if t[2] != C(None) else ''}{step}"
    if k == "tuple":
        return "(" + ", ".join(show(x, names) for x in t[1]) + ")"
    if k == "list":
        return "[" + ", ".join(show(x, names) for x in t[1]) + "]"
    if k == "join":
        return "JOIN{" + " | ".join(show(x, names) for x in t[1]) + "}"
    if k == "phi":
        return f"PHI:{t[4] if len(t) > 4 else ''}<{show(t[3], names)}>"
    if k == "iter":
        return f"ITER({show(t[1], names)})" + ("" if t[2] is None else f"[{t[2]}]")
    if k == "comp":
        return f"{t[1]}<{show(t[2], names)} for ITER({show(t[3], names)})" + "".join(f" if {show(c, names)}" for c in t[4]) + ">"
    if k == "self":
        return f"self<{t[1]}>"
    if k == "inst":
        return f"{t[1]}<{show(t[2], names)}>" if t[2] is not None else t[1]
    if k == "read":
        site = f"#{t[4][2]}" if len(t) > 4 and t[4] else ""
        tn = t[1] if isinstance(t[1], str) else show(t[1], names)
        return f"READ{site}({tn}{'' if t[2] == C(1) else '[' + show(t[2], names) + ']'} from {show(t[3], names)})"
    if k == "member":
        return f"{show(t[1], names)}+{t[2]}"
    if k == "arrtype":
        return f"{t[1]}[{show(t[2], names)}]"
    if k == "site":
        return f"site:{t[1]}#{t[2]}"
    if k == "type":
        return f"type:{t[1]}"
    if k == "func":
        return f"func:{t[1]}"
    if k == "cls":
        return f"class:{t[1]}"
    if k == "mod":
        return f"module:{t[1]}"
    if k == "unk":
        return f"?{t[1]}"
    return repr(t)


# ---------------------------------------------------------------------------------------
# traversal


def children(t):
    if not isinstance(t, tuple) or not t:
        return
    k = t[0]
    if k in ("c", "p", "unk", "type", "func", "cls", "mod", "self", "site"):
        return
    if k == "f":
        if t[8] is not None:
            yield t[8]
        return
    if k == "member":
        yield t[1]
        return
    if k == "arrtype":
        yield t[2]
        return
    if k == "op":
        yield t[2]
        yield t[3]
    elif k in ("neg", "inv", "not"):
        yield t[1]
    elif k == "cmp":
        yield t[2]
        yield t[3]
    elif k == "bool":
        yield from t[2]
    elif k == "ite":
        yield t[1]
        yield t[2]
        yield t[3]
    elif k in ("min", "max", "tuple", "list", "join"):
        yield from t[1]
    elif k == "call":
        yield from t[2]
        for _, v in t[3]:
            yield v
    elif k == "attr":
        yield t[1]
    elif k == "sub":
        yield t[1]
        yield t[2]
    elif k == "slice":
        yield t[1]
        yield t[2]
        if len(t) > 3:
            yield t[3]
    elif k == "phi":
        yield t[3]
    elif k == "iter":
        yield t[1]
    elif k == "comp":
        yield t[2]
        yield t[3]
        yield from t[4]
    elif k == "inst":
        if t[2] is not None:
            yield t[2]
    elif k == "read":
        if isinstance(t[1], tuple):
            yield t[1]
        yield t[2]
        yield t[3]


def walk(t):
    yield t
    for c in children(t):
        yield from walk(c)


def contains(t, pred) -> bool:
    return any(pred(x) for x in walk(t))


def alternatives(t):
    """Flatten JOIN / conditional terms into their alternative values."""
    if t[0] == "join":
        out = []
        for a in t[1]:
            out += alternatives(a)
        return out
    if t[0] == "ite":
        return alternatives(t[2]) + alternatives(t[3])
    return [t]


def opaque_parts(t):
    """Sub-terms the reconstruction could not interpret: unknown values and calls of something that is not a known function
    (a callable fetched from a data structure, the result of another call).  A term with such parts cannot be shown to
    DIFFER from a specification - only not shown equal."""
    out = []
    for x in walk(t):
        if not (isinstance(x, tuple) and x):
            continue
        if x[0] == "unk" and str(x[1]).startswith(("comp:", "modlevel:", "classattr:", "cyclic", "depth", "with:", "mutated:", "attr-entry", "dict", "set",
                                                   "NamedExpr", "Await", "Starred", "GeneratorExp", "ListComp", "DictComp", "SetComp", "Match")):
            out.append(x)
        elif x[0] == "call" and isinstance(x[1], str):
            nm = x[1]
            known = nm.startswith(("ext:", ".", "new:", "super", "construct:", "?global:")) or "::" in nm or nm.isidentifier() or nm == "*"
            if not known:
                out.append(x)
    return out


def leaves(t):
    """Leaf atoms whose value a valuation must supply."""
    out = []
    seen = set()
    for x in walk(t):
        if isinstance(x, tuple) and x and x[0] in ("p", "f", "phi", "unk", "self", "inst") and x not in seen:
            seen.add(x)
            out.append(x)
    return out


def subst(t, mapping):
    """Replace sub-terms according to mapping (term -> term), bottom-up."""
    if t in mapping:
        return mapping[t]
    if not isinstance(t, tuple) or not t:
        return t
    k = t[0]
    r = lambda x: subst(x, mapping)  # noqa: E731
    if k in ("c", "p", "unk", "type", "func", "cls", "mod", "self", "site"):
        return t
    if k == "f":
        return t[:8] + (r(t[8]) if t[8] is not None else None,)
    if k == "member":
        return ("member", r(t[1]), t[2])
    if k == "arrtype":
        return ("arrtype", t[1], r(t[2]))
    if k == "op":
        return op(t[1], r(t[2]), r(t[3]))
    if k in ("neg", "inv", "not"):
        return (k, r(t[1]))
    if k == "cmp":
        return ("cmp", t[1], r(t[2]), r(t[3]))
    if k == "bool":
        return ("bool", t[1], tuple(r(x) for x in t[2]))
    if k == "ite":
        return ("ite", r(t[1]), r(t[2]), r(t[3]))
    if k in ("min", "max", "tuple", "list", "join"):
        return (k, tuple(r(x) for x in t[1]))
    if k == "call":
        return ("call", t[1], tuple(r(x) for x in t[2]), tuple((a, r(v)) for a, v in t[3]))
    if k == "attr":
        return ("attr", r(t[1]), t[2])
    if k == "sub":
        return ("sub", r(t[1]), r(t[2]))
    if k == "slice":
        return ("slice",) + tuple(r(x) for x in t[1:])
    if k == "phi":
        return ("phi", t[1], t[2], r(t[3])) + tuple(t[4:])
    if k == "iter":
        return ("iter", r(t[1]), t[2])
    if k == "comp":
        return ("comp", t[1], r(t[2]), r(t[3]), tuple(r(c) for c in t[4]))
    if k == "inst":
        return ("inst", t[1], r(t[2]) if t[2] is not None else None) + tuple(t[3:])
    if k == "read":
        return ("read", r(t[1]) if isinstance(t[1], tuple) else t[1], r(t[2]), r(t[3])) + tuple(t[4:])
    return t


# ---------------------------------------------------------------------------------------
# evaluation of terms under a valuation of the leaves


def _h(*parts) -> int:
    s = repr(parts).encode()
    return int.from_bytes(hashlib.blake2b(s, digest_size=6).digest(), "big")


class Valuation:
    """Assigns integers to leaf atoms; uninterpreted terms get a value that is a deterministic
    function of (symbol, evaluated arguments), so equal arguments give equal results."""

    def __init__(self, seed: int, assign=None, domain=None, override=None, fields=None, call_values=None):
        self.seed = seed
        self.override = dict(override or {})  # forces the value of arbitrary (also non-leaf) terms
        self.fields = dict(fields or {})  # (struct, byte offset) -> value, for every instance of the struct
        self.call_values = call_values or getattr(domain, "call_values", None)  # callee name -> f(hash) -> value
        self.assign = dict(assign or {})
        self.domain = domain  # callable(leaf, rng) -> int | None
        self.rng = random.Random(seed)
        self.salt = None  # {element term E: j}: this valuation speaks about the j-th *other* element of E's collection (see _aggregate)
        self.call_models = None  # callee name -> python function of the evaluated arguments (a rule's abstract model)
        self.pool = None  # boundary phase: the constants the compared terms test against (see equiv)

    def leaf(self, t):
        if self.salt:
            for E, j in self.salt.items():
                if contains(t, lambda y: y == E):
                    key = ("salted", j, t)
                    if key not in self.assign:
                        rng = random.Random(_h(self.seed, "salt", j, t))
                        v = self.domain(t, rng) if self.domain is not None else None
                        self.assign[key] = default_domain(t, rng) if v is None else v
                    return self.assign[key]
        if t in self.assign:
            return self.assign[t]
        if self.fields and t[0] == "f":
            if (t[1], t[2], t[5]) in self.fields:
                return self.fields[(t[1], t[2], t[5])]
            if (t[1], t[2]) in self.fields:
                return self.fields[(t[1], t[2])]
        v = None
        if self.domain is not None:
            v = self.domain(t, random.Random(_h(self.seed, t)))
        if v is None:
            if self.pool and _h(self.seed, "pool?", t) % 5 < 2:
                v = self.pool[_h(self.seed, "pool", t) % len(self.pool)]
            else:
                v = default_domain(t, random.Random(_h(self.seed, t)))
        self.assign[t] = v
        return v

    def shaped(self, h):
        """The value of an uninterpreted application with hash `h`: in the boundary phase half of them are drawn from the
        pool (still a function of the symbol and the evaluated arguments, so equal applications stay equal)."""
        if self.pool and _h(self.seed, "shape?", h) & 1:
            return self.pool[_h(self.seed, "shape", h) % len(self.pool)]
        return h


def default_domain(t, rng: random.Random) -> int:
    k = t[0]
    width = 48
    signed = False
    if k == "f":
        width = (t[6] if t[6] is not None else t[3] * 8)
        signed = t[7]
    mode = rng.random()
    if mode < 0.10:
        v = rng.choice([0, 1, 2, 3])
    elif mode < 0.35:
        v = rng.randrange(0, 64)
    elif mode < 0.55:
        v = 1 << rng.randrange(0, min(width, 40))
    elif mode < 0.75:
        v = rng.randrange(0, 1 << min(width, 20))
    else:
        v = rng.randrange(0, 1 << min(width, 62))
    v &= (1 << width) - 1
    if signed and v >= 1 << (width - 1):
        v -= 1 << width
    return v


def ev(t, val: Valuation):
    """Evaluate term t. Raises EvalError when the valuation is outside the operators' domain."""
    if val.override and t in val.override and not (val.salt and any(contains(t, lambda y, E=E: y == E) for E in val.salt)):
        return val.override[t]
    k = t[0]
    if k == "c":
        return t[1]
    if k in ("p", "f", "phi", "self", "inst", "unk"):
        return val.leaf(t)
    if k == "op":
        a, b = ev(t[2], val), ev(t[3], val)
        try:
            return _BIN[t[1]](a, b)
        except EvalError:
            raise
        except ZeroDivisionError:
            raise EvalError("division by zero") from None
        except Exception:
            return _h("op", t[1], _key(a), _key(b))
    if k == "neg":
        a = ev(t[1], val)
        try:
            return -a
        except Exception:
            return _h("neg", _key(a))
    if k == "inv":
        a = ev(t[1], val)
        try:
            return ~a
        except Exception:
            return _h("inv", _key(a))
    if k == "not":
        return not ev(t[1], val)
    if k == "cmp":
        a, b = ev(t[2], val), ev(t[3], val)
        o = t[1]
        try:
            if o == "==":
                return a == b
            if o == "!=":
                return a != b
            if o == "<":
                return a < b
            if o == "<=":
                return a <= b
            if o == ">":
                return a > b
            if o == ">=":
                return a >= b
            if o == "in":
                return a in b
            if o == "notin":
                return a not in b
            if o == "is":
                return a is b or (a is None) == (b is None) and a == b
            if o == "isnot":
                return not (a is b or (a is None) == (b is None) and a == b)
        except Exception:
            return bool(_h("cmp", o, _key(a), _key(b)) & 1)
    if k == "bool":
        if t[1] == "and":
            r = True
            for x in t[2]:
                r = ev(x, val)
                if not r:
                    return r
            return r
        r = False
        for x in t[2]:
            r = ev(x, val)
            if r:
                return r
        return r
    if k == "ite":
        return ev(t[2], val) if ev(t[1], val) else ev(t[3], val)
    if k in ("min", "max"):
        vals = [ev(x, val) for x in t[1]]
        try:
            return min(vals) if k == "min" else max(vals)
        except Exception:
            return _h(k, tuple(_key(v) for v in vals))
    if k in ("tuple", "list"):
        return tuple(ev(x, val) for x in t[1])
    if k == "join":
        vals = [ev(x, val) for x in t[1]]
        if all(_key(v) == _key(vals[0]) for v in vals[1:]):
            return vals[0]
        return _h("join", tuple(sorted(repr(_key(v)) for v in vals)))
    if k == "call" and t[1] in _AGGREGATES and len(t[2]) == 1 and t[2][0][0] == "comp" and len(t[2][0]) >= 5:
        return _aggregate(t, val)
    if k == "call":
        cm = val.call_models.get(t[1]) if val.call_models else None
        if cm is not None:
            # a rule's abstract model of a callee (e.g. "find_shot(g) is the record of snapshot g"): an interpreted symbol
            return cm(*[ev(x, val) for x in t[2]], **{a: ev(v, val) for a, v in t[3]})
        if t[1] in _MODELS:
            try:
                return _MODELS[t[1]](*[ev(x, val) for x in t[2]])
            except EvalError:
                raise
            except Exception:
                pass
        args = tuple(_key(ev(x, val)) for x in t[2])
        kws = tuple((a, _key(ev(v, val))) for a, v in t[3])
        h = _h("call", t[1], args, kws)
        shaper = val.call_values.get(t[1]) if val.call_values else None
        if shaper is not None:
            return shaper(h)  # still a function of the evaluated arguments, but drawn from a chosen range
        return val.shaped(h)
    if k == "attr":
        b = ev(t[1], val)
        if isinstance(b, _CInt) and t[2] == "value":
            return b.value
        if isinstance(b, _PurePath) and t[2] in ("parent", "name", "stem", "suffix", "parts"):
            return getattr(b, t[2])
        if isinstance(b, Rec):
            if t[2] in b.fields:
                return b.fields[t[2]]
            raise EvalError(f"record {b.tag} has no field {t[2]}")
        return _h("attr", _key(b), t[2])
    if k == "sub":
        b, i = ev(t[1], val), ev(t[2], val)
        if isinstance(b, dict):
            try:
                return b[i]
            except Exception:
                raise EvalError("key not in the model dictionary") from None
        if isinstance(b, (tuple, bytes, str)) and isinstance(i, tuple) and i and i[0] == "slice" and all(x is None or (isinstance(x, int) and not isinstance(x, bool)) for x in i[1:]):
            return b[slice(*i[1:])]
        if isinstance(b, (tuple, bytes, str)) and isinstance(i, int):
            try:
                return b[i]
            except Exception:
                # containers are filled by mutation the terms do not track: treat as an uninterpreted look-up
                return val.shaped(_h("sub", _key(b), _key(i)))
        return val.shaped(_h("sub", _key(b), _key(i)))
    if k == "slice":
        return ("slice",) + tuple(_key(ev(x, val)) for x in t[1:])
    if k == "iter":
        if val.salt and t in val.salt:
            return _h("iter", _key(ev(t[1], val)), t[2], "element", val.salt[t])
        return val.shaped(_h("iter", _key(ev(t[1], val)), t[2]))
    if k == "comp":
        # a comprehension as a whole is an uninterpreted function of its parts (element, iterable, filters)
        return _h("comp", t[1], _key(ev(t[3], val)), repr(t[2]), repr(t[4]))
    if k == "read":
        if isinstance(t[1], str) and t[1] in ENUM_TYPES and t[2] == C(1):
            v = ev(t[3], val)
            if isinstance(v, int):
                return v  # an enum / flag value constructed from an integer compares and combines like that integer
        return _h("read", repr(_key(ev(t[1], val))) if isinstance(t[1], tuple) else t[1], _key(ev(t[2], val)), _key(ev(t[3], val)), t[4:] and t[4])
    if k in ("type", "func", "cls", "mod"):
        return _h(k, t[1])
    if k == "site":
        return _h(k, t[1], t[2])
    if k == "member":
        return _h(k, _key(ev(t[1], val)), t[2])
    if k == "arrtype":
        return _h(k, repr(t[1]), _key(ev(t[2], val)))
    raise EvalError(f"cannot evaluate {k}")


_AGGREGATES = {"max": max, "min": min, "sum": sum, "any": any, "all": all}


def _aggregate(t, val: Valuation):
    """max / min / sum / any / all over a comprehension `elt(e) for e in ES if conds(e)`: ES is modelled as three elements - the
    one the valuation already speaks about (the element of a loop over the same collection, if any) and two others whose
    fields are drawn independently - so that `max(f(e) for e in ES) >= f(current e)` holds and unrelated bounds do not."""
    import copy as _copy
    comp = t[2][0]
    elt, it, conds = comp[2], comp[3], comp[4]
    E = ("iter", it, None)
    vals = []
    for j in range(3):
        if j == 0:
            vj = val
        else:
            vj = _copy.copy(val)
            vj.salt = dict(val.salt or {})
            vj.salt[E] = j
        if all(bool(ev(c, vj)) for c in conds):
            vals.append(ev(elt, vj))
    kws = dict(t[3])
    if not vals and t[1] in ("max", "min"):
        if "default" in kws:
            return ev(kws["default"], val)
        raise EvalError("aggregate of an empty sequence")
    try:
        return _AGGREGATES[t[1]](vals)
    except Exception:
        return _h("aggregate", t[1], tuple(_key(v) for v in vals))


class Rec:
    """An abstract object of a rule's model: named fields, identity by tag."""

    def __init__(self, tag, **fields):
        self.tag = tag
        self.fields = fields

    def __repr__(self):
        return f"<{self.tag}>"

    def __eq__(self, other):
        return isinstance(other, Rec) and other.tag == self.tag

    def __hash__(self):
        return hash(("Rec", self.tag))


class _CInt:
    def __init__(self, v, bits, signed):
        v &= (1 << bits) - 1
        if signed and v >= 1 << (bits - 1):
            v -= 1 << bits
        self.value = v

    def __repr__(self):
        return f"cint({self.value})"


ENUM_TYPES: set = set()  # names of cstruct enum / flag types seen by the reconstruction

_MODELS = {
    "ext:ctypes.c_int64": lambda x: _CInt(x, 64, True), "ext:ctypes.c_uint64": lambda x: _CInt(x, 64, False),
    "ext:ctypes.c_int32": lambda x: _CInt(x, 32, True), "ext:ctypes.c_uint32": lambda x: _CInt(x, 32, False),
    "ext:ctypes.c_int16": lambda x: _CInt(x, 16, True), "ext:ctypes.c_uint16": lambda x: _CInt(x, 16, False),
    "len": lambda x: len(x), "int": lambda x: int(x), "bool": lambda x: bool(x), "abs": lambda x: abs(x),
    # pure Python built-ins on integers
    "range": lambda *a: range(*[_int(x) for x in a]), ".bit_length": lambda x: _int(x).bit_length(),
    ".bit_count": lambda x: bin(_int(x)).count("1"), "pow": lambda *a: pow(*[_int(x) for x in a]),
    "hex": lambda x: hex(_int(x)), "bin": lambda x: bin(_int(x)),
    # pure string methods (receiver first); anything that is not a str / bytes falls back to the uninterpreted value
    ".removeprefix": lambda s, p: _txt(s).removeprefix(p), ".removesuffix": lambda s, p: _txt(s).removesuffix(p),
    ".startswith": lambda s, p, *a: _txt(s).startswith(p, *a), ".endswith": lambda s, p, *a: _txt(s).endswith(p, *a),
    ".split": lambda s, *a: tuple(_txt(s).split(*a)), ".rsplit": lambda s, *a: tuple(_txt(s).rsplit(*a)),
    ".partition": lambda s, p: tuple(_txt(s).partition(p)), ".rpartition": lambda s, p: tuple(_txt(s).rpartition(p)),
    ".lower": lambda s: _txt(s).lower(), ".upper": lambda s: _txt(s).upper(), ".casefold": lambda s: _txt(s).casefold(),
    ".strip": lambda s, *a: _txt(s).strip(*a), ".lstrip": lambda s, *a: _txt(s).lstrip(*a), ".rstrip": lambda s, *a: _txt(s).rstrip(*a),
    ".replace": lambda s, a, b, *c: _txt(s).replace(a, b, *c), ".find": lambda s, *a: _txt(s).find(*a),
    "ext:bisect.bisect_right": lambda a, x, *r: __import__("bisect").bisect_right(list(_seq(a)), x, *r),
    "ext:bisect.bisect_left": lambda a, x, *r: __import__("bisect").bisect_left(list(_seq(a)), x, *r),
    "ext:bisect.bisect": lambda a, x, *r: __import__("bisect").bisect_right(list(_seq(a)), x, *r),
    ".is_absolute": lambda p_: _path(p_).is_absolute(),
    ".joinpath": lambda p_, *a: _path(p_).joinpath(*a), ".with_name": lambda p_, n: _path(p_).with_name(n),
    ".with_suffix": lambda p_, n: _path(p_).with_suffix(n), "ext:pathlib.Path": lambda *a: _PurePath(*a),
    ".decode": lambda s, *a, **k: _buf(s).decode(*a, **k), ".encode": lambda s, *a, **k: _str(s).encode(*a, **k),
    ".index": lambda s, *a: _txt(s).index(*a), ".rfind": lambda s, *a: _txt(s).rfind(*a), ".count": lambda s, *a: _txt(s).count(*a),
    ".splitlines": lambda s, *a: tuple(_txt(s).splitlines(*a)), ".isdigit": lambda s: _txt(s).isdigit(), ".title": lambda s: _txt(s).title(),
    ".ljust": lambda s, *a: _txt(s).ljust(*a), ".rjust": lambda s, *a: _txt(s).rjust(*a), ".zfill": lambda s, *a: _txt(s).zfill(*a),
    # look-up in a constant dictionary
    ".get": lambda d, k, default=None: _dict(d).get(k, default),
    # struct on concrete buffers
    "ext:struct.unpack": lambda f, d: _struct.unpack(_txt(f), _buf(d)), "ext:struct.unpack_from": lambda f, d, o=0: _struct.unpack_from(_txt(f), _buf(d), _int(o)),
    "ext:struct.calcsize": lambda f: _struct.calcsize(_txt(f)), "ext:struct.Struct": lambda f: _StructObj(_txt(f)),
    ".unpack_from": lambda s_, d, o=0: _sobj(s_).st.unpack_from(_buf(d), _int(o)), ".unpack": lambda s_, d: _sobj(s_).st.unpack(_buf(d)),
    "ext:int.from_bytes": lambda d, order="big", **kw: int.from_bytes(_buf(d), order, **kw),
}

import struct as _struct  # noqa: E402


class _StructObj:
    def __init__(self, fmt):
        self.fmt = fmt
        self.st = _struct.Struct(fmt)

    def __repr__(self):
        return f"Struct({self.fmt!r})"


def _dict(x):
    if not isinstance(x, dict):
        raise TypeError("not a dict")
    return x


def _sobj(x):
    if not isinstance(x, _StructObj):
        raise TypeError("not a Struct")
    return x


def _buf(x):
    if not isinstance(x, (bytes, bytearray)):
        raise TypeError("not a buffer")
    return bytes(x)


from pathlib import PurePosixPath as _PurePath  # noqa: E402  (a value model of paths: no file system access)


def _path(x):
    if not isinstance(x, _PurePath):
        raise TypeError("not a path")
    return x


def _seq(x):
    if not isinstance(x, (tuple, list)):
        raise TypeError("not a sequence")
    return x


def _str(x):
    if not isinstance(x, str):
        raise TypeError("not a str")
    return x


def _txt(x):
    if not isinstance(x, (str, bytes)):
        raise TypeError("not text")
    return x


def _int(x):
    if isinstance(x, bool) or not isinstance(x, int):
        raise TypeError("not an int")
    return int(x)


def _key(v):
    if isinstance(v, EnumConst):
        return int(v)
    if isinstance(v, (int, str, bytes, bool, tuple)) or v is None:
        return v
    return repr(v)


# ---------------------------------------------------------------------------------------
# equality decision


class EqResult:
    def __init__(self, equal, method, witness=None, tried=0, skipped=0):
        self.equal = equal  # True / False / None (undecided)
        self.method = method
        self.witness = witness
        self.tried = tried
        self.skipped = skipped


def equiv(a, b, domain=None, n=160, seed=0, override=None, fields=None, assume=None) -> EqResult:
    """Decide a == b for all valuations (restricted to `domain`, with optional fixed overrides = a scenario).
    `assume`: [(condition term, polarity)] - the path condition of the program point the values are compared at; valuations
    that do not satisfy it are not points of the comparison."""
    if a == b:
        return EqResult(True, "syntactic")
    if assume:
        # equal everywhere implies equal on the path; only a difference needs the path condition to be looked at
        r0 = equiv(a, b, domain=domain, n=n, seed=seed, override=override, fields=fields)
        if r0.equal is not False:
            return r0
    tried = skipped = 0
    for i in range(n * (12 if assume else 4)):
        if tried >= n:
            break
        val = Valuation(seed * 100003 + i, domain=domain, override=override, fields=fields)
        try:
            if assume and not all(bool(ev(c, val)) == bool(p) for c, p in assume):
                skipped += 1
                continue
            va = ev(a, val)
            vb = ev(b, val)
        except EvalError:
            skipped += 1
            continue
        except RecursionError:
            return EqResult(None, "recursion")
        tried += 1
        if _key(va) != _key(vb):
            wit = {show(k): v for k, v in val.assign.items()}
            wit["__lhs"] = _key(va) if not isinstance(va, tuple) else repr(va)
            wit["__rhs"] = _key(vb) if not isinstance(vb, tuple) else repr(vb)
            return EqResult(False, "identity-testing", wit, tried, skipped)
    if tried < max(8, n // 8):
        return EqResult(None, "no-valuation-in-domain", None, tried, skipped)
    # boundary phase: random integers almost never hit the constants the terms themselves compare against (`entry == 0`,
    # `n < 2`); a further round draws leaves and uninterpreted look-ups from those constants and their neighbours
    pool = boundary_pool((a, b) + tuple(c for c, _ in (assume or ())))
    if pool:
        btried = 0
        for i in range(n * (12 if assume else 3)):
            if btried >= n:
                break
            val = Valuation(seed * 100003 + 7919 + i, domain=domain, override=override, fields=fields)
            val.pool = pool
            try:
                if assume and not all(bool(ev(c, val)) == bool(p) for c, p in assume):
                    continue
                va = ev(a, val)
                vb = ev(b, val)
            except EvalError:
                continue
            except RecursionError:
                break
            btried += 1
            if _key(va) != _key(vb):
                wit = {show(k): v for k, v in val.assign.items()}
                wit["__lhs"] = _key(va) if not isinstance(va, tuple) else repr(va)
                wit["__rhs"] = _key(vb) if not isinstance(vb, tuple) else repr(vb)
                return EqResult(False, "identity-testing:boundary", wit, tried + btried, skipped)
        tried += btried
    return EqResult(True, "identity-testing", None, tried, skipped)


def boundary_pool(terms) -> list:
    """Integer constants compared against in the terms, with their neighbours."""
    out = set()
    for t in terms:
        for x in walk(t):
            if isinstance(x, tuple) and x and x[0] == "cmp":
                for side in x[2:4]:
                    if isinstance(side, tuple) and side[0] == "c" and isinstance(side[1], int) and not isinstance(side[1], bool) and abs(side[1]) < 1 << 64:
                        out.update((side[1] - 1, side[1], side[1] + 1))
            elif isinstance(x, tuple) and x and x[0] == "ite":
                out.update((0, 1))  # truthiness tests
    out.discard(-1) if 0 in out and -2 not in out else None
    return sorted(out)
