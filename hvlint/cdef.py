"""Parser for the subset of the dissect.cstruct definition language used by the repository.

Produces a *layout model*: struct fields with absolute byte offset, width, count, signedness,
endianness and bit range; `#define` values; enum/flag members; typedef aliases.
The definition text is taken from the module source (a module-level string constant passed
to `cstruct(...).load(...)`); dissect.cstruct itself is never imported.
"""
from __future__ import annotations

import ast
import re
from dataclasses import dataclass, field

from .loader import AnalysisError, Module

BASE_TYPES = {
    # name: (size, signed, kind)
    "uint8": (1, False, "int"), "int8": (1, True, "int"),
    "uint16": (2, False, "int"), "int16": (2, True, "int"),
    "uint32": (4, False, "int"), "int32": (4, True, "int"),
    "uint64": (8, False, "int"), "int64": (8, True, "int"),
    "uint8_t": (1, False, "int"), "int8_t": (1, True, "int"),
    "uint16_t": (2, False, "int"), "int16_t": (2, True, "int"),
    "uint32_t": (4, False, "int"), "int32_t": (4, True, "int"),
    "uint64_t": (8, False, "int"), "int64_t": (8, True, "int"),
    "char": (1, False, "char"), "uchar": (1, False, "int"), "wchar": (2, False, "wchar"),
    "float": (4, True, "float"), "double": (8, True, "float"),
    "BYTE": (1, False, "int"), "WORD": (2, False, "int"), "DWORD": (4, False, "int"),
    "QWORD": (8, False, "int"), "ULONG": (4, False, "int"), "ULONGLONG": (8, False, "int"),
}


@dataclass
class Field:
    name: str
    offset: int | None  # absolute byte offset in the outermost struct (None after a dynamic array)
    size: int  # element size in bytes
    count: int | str | None  # None scalar, int fixed array, str dynamic array expression, "" null-terminated
    kind: str  # int / char / float / struct / enum / flag
    signed: bool
    endian: str
    typename: str
    bitoff: int | None = None
    bitwidth: int | None = None

    @property
    def total(self) -> int | None:
        if self.count is None:
            return self.size
        if isinstance(self.count, int):
            return self.size * self.count
        return None

    def pos(self) -> tuple:
        """Positional identity of the field (independent of its name)."""
        return (self.offset, self.size, self.count if not isinstance(self.count, str) else "dyn",
                self.kind if self.kind in ("char", "float") else "int", self.signed, self.endian,
                self.bitoff, self.bitwidth)


@dataclass
class Struct:
    name: str
    fields: list[Field] = field(default_factory=list)
    size: int | None = 0

    def get(self, name: str) -> Field | None:
        for f in self.fields:
            if f.name == name:
                return f
        return None


@dataclass
class Enum:
    name: str
    base: str
    size: int
    members: dict[str, int]
    is_flag: bool = False


class Layout:
    def __init__(self, endian: str, varname: str, defname: str):
        self.endian = endian  # "<" or ">"
        self.varname = varname  # e.g. c_qcow2
        self.defname = defname
        self.structs: dict[str, Struct] = {}
        self.defines: dict[str, object] = {}
        self.enums: dict[str, Enum] = {}
        self.typedefs: dict[str, str] = {}

    def type_info(self, tname: str):
        """-> (size, signed, kind, resolved name)"""
        seen = set()
        while tname in self.typedefs and tname not in seen:
            seen.add(tname)
            tname = self.typedefs[tname]
        if tname in BASE_TYPES:
            s, sg, k = BASE_TYPES[tname]
            return s, sg, k, tname
        if tname in self.enums:
            e = self.enums[tname]
            return e.size, False, "flag" if e.is_flag else "enum", tname
        if tname in self.structs:
            return self.structs[tname].size, False, "struct", tname
        raise AnalysisError(f"cdef: unknown type {tname!r} in {self.defname}")

    def sizeof(self, tname: str) -> int | None:
        return self.type_info(tname)[0]

    def has_type(self, tname: str) -> bool:
        try:
            self.type_info(tname)
            return True
        except AnalysisError:
            return False


_TOKEN = re.compile(
    r"""\s*(?:
      (?P<bytes>b"(?:[^"\\]|\\.)*")
    | (?P<str>"(?:[^"\\]|\\.)*")
    | (?P<chr>'(?:[^'\\]|\\.)*')
    | (?P<num>0[xX][0-9a-fA-F]+|\d+)(?:[uUlL]+)?
    | (?P<id>[A-Za-z_][A-Za-z_0-9]*)
    | (?P<op><<|>>|[{}\[\]();:,=+\-*/|&~^])
    )""",
    re.VERBOSE,
)


def _strip_comments(text: str) -> str:
    text = re.sub(r"/\*.*?\*/", lambda m: "\n" * m.group(0).count("\n"), text, flags=re.S)
    text = re.sub(r"//[^\n]*", "", text)
    return text


def _tokenize(text: str):
    pos = 0
    out = []
    n = len(text)
    while pos < n:
        m = _TOKEN.match(text, pos)
        if not m:
            if text[pos:].strip() == "":
                break
            raise AnalysisError(f"cdef: cannot tokenize at {text[pos:pos+30]!r}")
        pos = m.end()
        kind = m.lastgroup
        out.append((kind, m.group(kind)))
    return out


def _eval_define(expr: str, defines: dict):
    expr = expr.strip()
    if not expr:
        return None
    try:
        node = ast.parse(expr, mode="eval").body
    except SyntaxError:
        return ("unparsed", expr)
    return _fold(node, defines)


def _fold(node, defines):
    if isinstance(node, ast.Constant):
        if isinstance(node.value, str) and len(node.value) == 1:
            return ord(node.value)
        return node.value
    if isinstance(node, ast.Name):
        if node.id in defines:
            return defines[node.id]
        raise AnalysisError(f"cdef: unknown name {node.id} in #define")
    if isinstance(node, ast.UnaryOp):
        v = _fold(node.operand, defines)
        if isinstance(node.op, ast.USub):
            return -v
        if isinstance(node.op, ast.Invert):
            return ~v
        if isinstance(node.op, ast.UAdd):
            return +v
    if isinstance(node, ast.BinOp):
        a, b = _fold(node.left, defines), _fold(node.right, defines)
        ops = {ast.Add: lambda: a + b, ast.Sub: lambda: a - b, ast.Mult: lambda: a * b,
               ast.FloorDiv: lambda: a // b, ast.Div: lambda: a // b, ast.Mod: lambda: a % b,
               ast.LShift: lambda: a << b, ast.RShift: lambda: a >> b, ast.BitOr: lambda: a | b,
               ast.BitAnd: lambda: a & b, ast.BitXor: lambda: a ^ b}
        for k, f in ops.items():
            if isinstance(node.op, k):
                return f()
    raise AnalysisError(f"cdef: cannot fold #define expression {ast.dump(node)}")


class _Parser:
    def __init__(self, layout: Layout, text: str):
        self.l = layout
        self.text = text

    def parse(self):
        text = _strip_comments(self.text)
        # a char literal holding a real newline (the definition is a non-raw Python string)
        text = text.replace("'\n'", "'\\n'")
        # defines are line based
        body_lines = []
        for line in text.split("\n"):
            m = re.match(r"\s*#define\s+(\w+)\s*(.*)$", line)
            if m:
                name, expr = m.group(1), m.group(2)
                try:
                    self.l.defines[name] = _eval_define(expr, self.l.defines)
                except AnalysisError:
                    self.l.defines[name] = ("unparsed", expr.strip())
                body_lines.append("")
            elif re.match(r"\s*#", line):
                body_lines.append("")
            else:
                body_lines.append(line)
        self.toks = _tokenize("\n".join(body_lines))
        self.i = 0
        while self.i < len(self.toks):
            self._toplevel()

    # token helpers
    def peek(self, k=0):
        return self.toks[self.i + k] if self.i + k < len(self.toks) else (None, None)

    def next(self):
        t = self.peek()
        self.i += 1
        return t

    def expect(self, val):
        t = self.next()
        if t[1] != val:
            raise AnalysisError(f"cdef: expected {val!r}, got {t[1]!r} in {self.l.defname}")

    def _toplevel(self):
        kind, val = self.peek()
        if val == ";":
            self.next()
            return
        if val == "typedef":
            self.next()
            k2, v2 = self.peek()
            if v2 in ("struct", "union"):
                self.next()
                name = None
                if self.peek()[0] == "id":
                    name = self.next()[1]
                st = self._struct_body(name or "<anon>", v2 == "union")
                alias = self.next()[1]
                self.expect(";")
                st.name = alias
                self.l.structs[alias] = st
                if name:
                    self.l.structs[name] = st
            else:
                base = self.next()[1]
                alias = self.next()[1]
                if self.peek()[1] == "[":
                    # typedef of array: not used by the repository
                    raise AnalysisError("cdef: array typedef unsupported")
                self.expect(";")
                self.l.typedefs[alias] = base
            return
        if val in ("struct", "union"):
            self.next()
            name = self.next()[1]
            st = self._struct_body(name, val == "union")
            self.l.structs[name] = st
            if self.peek()[1] == ";":
                self.next()
            return
        if val in ("enum", "flag"):
            self.next()
            name = self.next()[1]
            base = "uint32"
            if self.peek()[1] == ":":
                self.next()
                base = self.next()[1]
            self.expect("{")
            members = {}
            nxt = 1 if val == "flag" else 0
            while self.peek()[1] != "}":
                mname = self.next()[1]
                if self.peek()[1] == "=":
                    self.next()
                    expr = []
                    while self.peek()[1] not in (",", "}"):
                        expr.append(self.next()[1])
                    v = _eval_define(" ".join(expr), {**self.l.defines, **members})
                else:
                    v = nxt
                members[mname] = v
                if val == "flag":
                    nxt = (v << 1) if v else 1
                else:
                    nxt = v + 1
                if self.peek()[1] == ",":
                    self.next()
            self.expect("}")
            if self.peek()[1] == ";":
                self.next()
            size = self.l.type_info(base)[0]
            self.l.enums[name] = Enum(name, base, size, members, val == "flag")
            return
        raise AnalysisError(f"cdef: unexpected token {val!r} at top level of {self.l.defname}")

    def _struct_body(self, name: str, is_union: bool, base_off: int | None = 0) -> Struct:
        st = Struct(name)
        self.expect("{")
        off = base_off  # running absolute offset
        max_end = base_off
        bit_unit = None  # (typename, unit_offset, bits_used)
        while self.peek()[1] != "}":
            kind, val = self.peek()
            if val in ("struct", "union") and self.peek(1)[1] == "{":
                self.next()
                start = base_off if is_union else off
                sub = self._struct_body("<anon>", val == "union", start)
                # optional member name
                mname = None
                if self.peek()[0] == "id":
                    mname = self.next()[1]
                self.expect(";")
                for f in sub.fields:
                    st.fields.append(f)
                end = None if sub.size is None or start is None else start + sub.size
                if is_union:
                    if end is not None and (max_end is None or end > max_end):
                        max_end = end
                else:
                    off = end
                bit_unit = None
                continue
            tname = self.next()[1]
            if tname in ("struct", "union"):
                tname = self.next()[1]
            fname = self.next()[1]
            count = None
            bitw = None
            if self.peek()[1] == "[":
                self.next()
                expr = []
                while self.peek()[1] != "]":
                    expr.append(self.next()[1])
                self.expect("]")
                es = " ".join(expr)
                if es == "":
                    count = ""
                else:
                    try:
                        count = int(_eval_define(es, self.l.defines))
                    except Exception:
                        count = es
            if self.peek()[1] == ":":
                self.next()
                bitw = int(self.next()[1], 0)
            self.expect(";")
            size, signed, k, rname = self.l.type_info(tname)
            start = base_off if is_union else off
            if bitw is not None:
                if bit_unit and bit_unit[0] == rname and bit_unit[2] + bitw <= size * 8:
                    uoff, used = bit_unit[1], bit_unit[2]
                else:
                    uoff, used = start, 0
                    if not is_union and off is not None:
                        off = off + size
                st.fields.append(Field(fname, uoff, size, None, k, signed, self.l.endian, rname, used, bitw))
                bit_unit = (rname, uoff, used + bitw)
                if is_union and uoff is not None:
                    max_end = max(max_end, uoff + size)
                continue
            bit_unit = None
            if k == "struct":
                sub = self.l.structs[rname]
                # nested struct: expose as one field plus dotted children
                st.fields.append(Field(fname, start, sub.size or 0, count, "struct", False, self.l.endian, rname))
            else:
                st.fields.append(Field(fname, start, size, count, k, signed, self.l.endian, rname))
            if isinstance(count, str):
                tot = None
            elif count is None:
                tot = size
            else:
                tot = (size or 0) * count
            if is_union:
                if tot is not None and start is not None:
                    max_end = max(max_end, start + tot)
            else:
                off = None if (tot is None or off is None) else off + tot
        self.expect("}")
        if is_union:
            st.size = None if max_end is None else max_end - (base_off or 0)
        else:
            st.size = None if off is None else off - (base_off or 0)
        return st


def find_layouts(mod: Module) -> dict[str, Layout]:
    """Find `X = cstruct(endian=...).load(DEFSTRING)` at module level; return {X: Layout}."""
    strings: dict[str, str] = {}
    out: dict[str, Layout] = {}
    for node in mod.tree.body:
        if isinstance(node, ast.Assign) and len(node.targets) == 1 and isinstance(node.targets[0], ast.Name):
            tgt = node.targets[0].id
            v = node.value
            if isinstance(v, ast.Constant) and isinstance(v.value, str):
                strings[tgt] = v.value
                continue
            # cstruct(...).load(NAME)
            if (isinstance(v, ast.Call) and isinstance(v.func, ast.Attribute) and v.func.attr == "load"
                    and isinstance(v.func.value, ast.Call)
                    and isinstance(v.func.value.func, ast.Name) and v.func.value.func.id == "cstruct"):
                endian = "<"
                for kw in v.func.value.keywords:
                    if kw.arg == "endian" and isinstance(kw.value, ast.Constant):
                        endian = kw.value.value
                if v.func.value.args and isinstance(v.func.value.args[0], ast.Constant):
                    endian = v.func.value.args[0].value
                if not v.args:
                    continue
                a = v.args[0]
                if isinstance(a, ast.Name) and a.id in strings:
                    text, defname = strings[a.id], a.id
                elif isinstance(a, ast.Constant) and isinstance(a.value, str):
                    text, defname = a.value, "<inline>"
                else:
                    raise AnalysisError(f"cdef: definition text for {tgt} in {mod.relpath} is not a literal")
                lay = Layout(endian, tgt, defname)
                _Parser(lay, text).parse()
                out[tgt] = lay
    return out
