"""Oracle: on-disk layouts written from the public format documents (see DESIGN.md section 4).

Each struct: endian, optional total size, and fields (spec_name, offset, width_bytes, kind[, bitoff, bitwidth]).
kind: 'u' unsigned int, 'i' signed int, 'b' byte string / char array (width = total bytes).
Only fields that carry meaning are listed; reserved/padding areas are not, so a repository struct may
name its padding as it likes.  Comparison with the repository is positional: names never matter.

Sources: QEMU docs/interop/qcow2.txt; VMware Virtual Disk Format 1.1 + QEMU block/vmdk.c; [MS-VHDX];
Microsoft VHD specification 1.0; VirtualBox VDICore.h; QEMU docs/interop/parallels.txt.
`FROZEN` structs have no public specification: the layout of the pinned tree is the reference.
"""

U, I, B = "u", "i", "b"

LAYOUTS = {
    # ------------------------------------------------------------------ QCOW2 (big endian)
    ("disk/c_qcow2.py", "QCowHeader"): dict(endian=">", size=112, fields=[
        ("magic", 0, 4, U), ("version", 4, 4, U), ("backing_file_offset", 8, 8, U), ("backing_file_size", 16, 4, U),
        ("cluster_bits", 20, 4, U), ("size", 24, 8, U), ("crypt_method", 32, 4, U), ("l1_size", 36, 4, U),
        ("l1_table_offset", 40, 8, U), ("refcount_table_offset", 48, 8, U), ("refcount_table_clusters", 56, 4, U),
        ("nb_snapshots", 60, 4, U), ("snapshots_offset", 64, 8, U), ("incompatible_features", 72, 8, U),
        ("compatible_features", 80, 8, U), ("autoclear_features", 88, 8, U), ("refcount_order", 96, 4, U),
        ("header_length", 100, 4, U), ("compression_type", 104, 1, U)]),
    ("disk/c_qcow2.py", "QCowExtension"): dict(endian=">", size=8, fields=[("magic", 0, 4, U), ("len", 4, 4, U)]),
    ("disk/c_qcow2.py", "QCowSnapshotHeader"): dict(endian=">", size=40, fields=[
        ("l1_table_offset", 0, 8, U), ("l1_size", 8, 4, U), ("id_str_size", 12, 2, U), ("name_size", 14, 2, U),
        ("date_sec", 16, 4, U), ("date_nsec", 20, 4, U), ("vm_clock_nsec", 24, 8, U), ("vm_state_size", 32, 4, U),
        ("extra_data_size", 36, 4, U)]),
    ("disk/c_qcow2.py", "QCowSnapshotExtraData"): dict(endian=">", size=24, fields=[
        ("vm_state_size_large", 0, 8, U), ("disk_size", 8, 8, U), ("icount", 16, 8, U)]),
    ("disk/c_qcow2.py", "Qcow2CryptoHeaderExtension"): dict(endian=">", size=16, fields=[
        ("offset", 0, 8, U), ("length", 8, 8, U)]),
    ("disk/c_qcow2.py", "Qcow2BitmapHeaderExt"): dict(endian=">", size=24, fields=[
        ("nb_bitmaps", 0, 4, U), ("bitmap_directory_size", 8, 8, U), ("bitmap_directory_offset", 16, 8, U)]),
    # ------------------------------------------------------------------ VMDK (little endian, packed)
    ("disk/c_vmdk.py", "VMDKSparseExtentHeader"): dict(endian="<", size=512, fields=[
        ("magic", 0, 4, B), ("version", 4, 4, U), ("flags", 8, 4, U), ("capacity", 12, 8, U), ("grain_size", 20, 8, U),
        ("descriptor_offset", 28, 8, U), ("descriptor_size", 36, 8, U), ("num_gtes_per_gt", 44, 4, U),
        ("rgd_offset", 48, 8, U), ("gd_offset", 56, 8, U), ("overhead", 64, 8, U), ("unclean_shutdown", 72, 1, U),
        ("compress_algorithm", 77, 2, U)]),
    ("disk/c_vmdk.py", "COWDSparseExtentHeader"): dict(endian="<", size=None, fields=[
        ("magic", 0, 4, B), ("version", 4, 4, U), ("flags", 8, 4, U), ("capacity", 12, 4, U), ("grain_size", 16, 4, U),
        ("gd_offset", 20, 4, U), ("num_gd_entries", 24, 4, U), ("next_free_sector", 28, 4, U)]),
    ("disk/c_vmdk.py", "VMDKSESparseConstHeader"): dict(endian="<", size=512, fields=[
        ("magic", 0, 8, U), ("version", 8, 8, U), ("capacity", 16, 8, U), ("grain_size", 24, 8, U),
        ("grain_table_size", 32, 8, U), ("flags", 40, 8, U), ("volatile_header_offset", 80, 8, U),
        ("volatile_header_size", 88, 8, U), ("journal_header_offset", 96, 8, U), ("journal_header_size", 104, 8, U),
        ("journal_offset", 112, 8, U), ("journal_size", 120, 8, U), ("grain_directory_offset", 128, 8, U),
        ("grain_directory_size", 136, 8, U), ("grain_tables_offset", 144, 8, U), ("grain_tables_size", 152, 8, U),
        ("free_bitmap_offset", 160, 8, U), ("free_bitmap_size", 168, 8, U), ("backmap_offset", 176, 8, U),
        ("backmap_size", 184, 8, U), ("grains_offset", 192, 8, U), ("grains_size", 200, 8, U)]),
    ("disk/c_vmdk.py", "SparseGrainLBAHeaderOnDisk"): dict(endian="<", size=12, fields=[
        ("lba", 0, 8, U), ("cmp_size", 8, 4, U)]),
    ("disk/c_vmdk.py", "SparseSpecialLBAHeaderOnDisk"): dict(endian="<", size=16, fields=[
        ("lba", 0, 8, U), ("cmp_size", 8, 4, U), ("type", 12, 4, U)]),
    # ------------------------------------------------------------------ VHDX (little endian)
    ("disk/c_vhdx.py", "file_identifier"): dict(endian="<", size=520, fields=[("signature", 0, 8, B), ("creator", 8, 512, B)]),
    ("disk/c_vhdx.py", "header"): dict(endian="<", size=None, fields=[
        ("signature", 0, 4, B), ("checksum", 4, 4, U), ("sequence_number", 8, 8, U), ("file_write_guid", 16, 16, B),
        ("data_write_guid", 32, 16, B), ("log_guid", 48, 16, B), ("log_version", 64, 2, U), ("version", 66, 2, U),
        ("log_length", 68, 4, U), ("log_offset", 72, 8, U)]),
    ("disk/c_vhdx.py", "region_table_header"): dict(endian="<", size=16, fields=[
        ("signature", 0, 4, B), ("checksum", 4, 4, U), ("entry_count", 8, 4, U)]),
    ("disk/c_vhdx.py", "region_table_entry"): dict(endian="<", size=32, fields=[
        ("guid", 0, 16, B), ("file_offset", 16, 8, U), ("length", 24, 4, U), ("required", 28, 4, U)]),
    ("disk/c_vhdx.py", "bat_entry"): dict(endian="<", size=8, fields=[
        ("state", 0, 8, U, 0, 3), ("file_offset_mb", 0, 8, U, 20, 44)]),
    ("disk/c_vhdx.py", "metadata_table_header"): dict(endian="<", size=32, fields=[
        ("signature", 0, 8, B), ("entry_count", 10, 2, U)]),
    ("disk/c_vhdx.py", "metadata_table_entry"): dict(endian="<", size=32, fields=[
        ("item_id", 0, 16, B), ("offset", 16, 4, U), ("length", 20, 4, U), ("is_user", 24, 4, U, 0, 1),
        ("is_virtual_disk", 24, 4, U, 1, 1), ("is_required", 24, 4, U, 2, 1)]),
    ("disk/c_vhdx.py", "file_parameters"): dict(endian="<", size=8, fields=[
        ("block_size", 0, 4, U), ("leave_block_allocated", 4, 4, U, 0, 1), ("has_parent", 4, 4, U, 1, 1)]),
    ("disk/c_vhdx.py", "virtual_disk_id"): dict(endian="<", size=16, fields=[("virtual_disk_id", 0, 16, B)]),
    ("disk/c_vhdx.py", "parent_locator_header"): dict(endian="<", size=20, fields=[
        ("locator_type", 0, 16, B), ("key_value_count", 18, 2, U)]),
    ("disk/c_vhdx.py", "parent_locator_entry"): dict(endian="<", size=12, fields=[
        ("key_offset", 0, 4, U), ("value_offset", 4, 4, U), ("key_length", 8, 2, U), ("value_length", 10, 2, U)]),
    # ------------------------------------------------------------------ VHD (big endian)
    ("disk/c_vhd.py", "footer"): dict(endian=">", size=(511, 512), fields=[
        ("cookie", 0, 8, B), ("features", 8, 4, U), ("version", 12, 4, U), ("data_offset", 16, 8, U),
        ("timestamp", 24, 4, U), ("creator_application", 28, 4, U), ("creator_version", 32, 4, U),
        ("creator_host_os", 36, 4, U), ("original_size", 40, 8, U), ("current_size", 48, 8, U),
        ("disk_geometry", 56, 4, U), ("disk_type", 60, 4, U), ("checksum", 64, 4, U), ("unique_id", 68, 16, B),
        ("saved_state", 84, 1, B)]),
    ("disk/c_vhd.py", "dynamic_header"): dict(endian=">", size=1024, fields=[
        ("cookie", 0, 8, B), ("data_offset", 8, 8, U), ("table_offset", 16, 8, U), ("header_version", 24, 4, U),
        ("max_table_entries", 28, 4, U), ("block_size", 32, 4, U), ("checksum", 36, 4, U),
        ("parent_unique_id", 40, 16, B), ("parent_timestamp", 56, 4, U), ("parent_unicode_name", 64, 512, B)]),
    ("disk/c_vhd.py", "parent_locator"): dict(endian=">", size=24, fields=[
        ("platform_code", 0, 4, U), ("platform_data_space", 4, 4, U), ("platform_data_length", 8, 4, U),
        ("platform_data_offset", 16, 8, U)]),
    # ------------------------------------------------------------------ VDI (little endian)
    ("disk/c_vdi.py", "HeaderDescriptor"): dict(endian="<", size=456, fields=[
        ("file_info", 0, 64, B), ("signature", 64, 4, U), ("version", 68, 4, U), ("header_size", 72, 4, U),
        ("image_type", 76, 4, U), ("image_flags", 80, 4, U), ("description", 84, 256, B), ("offset_blocks", 340, 4, U),
        ("offset_data", 344, 4, U), ("cylinders", 348, 4, U), ("heads", 352, 4, U), ("sectors", 356, 4, U),
        ("sector_size", 360, 4, U), ("disk_size", 368, 8, U), ("block_size", 376, 4, U), ("block_extra", 380, 4, U),
        ("blocks_in_hdd", 384, 4, U), ("blocks_allocated", 388, 4, U), ("uuid_create", 392, 16, B),
        ("uuid_modify", 408, 16, B), ("uuid_linkage", 424, 16, B), ("uuid_parent", 440, 16, B)]),
    # ------------------------------------------------------------------ Parallels (little endian)
    ("disk/c_hdd.py", "pvd_header"): dict(endian="<", size=64, fields=[
        ("signature", 0, 16, B), ("version", 16, 4, U), ("heads", 20, 4, U), ("cylinders", 24, 4, U),
        ("tracks", 28, 4, U), ("bat_entries", 32, 4, U), ("nb_sectors_v1", 36, 4, U), ("nb_sectors_v2", 36, 8, U),
        ("inuse", 44, 4, U), ("data_off", 48, 4, U), ("flags", 52, 4, U), ("ext_off", 56, 8, U)]),
    # ------------------------------------------------------------------ FROZEN (no public specification)
    ("descriptor/c_hyperv.py", "HyperVStorageHeader"): dict(endian="<", size=46, frozen=True, fields=[
        ("signature", 0, 4, U), ("checksum", 4, 4, U), ("sequence_number", 8, 2, U), ("version", 10, 4, U),
        ("alignment", 22, 4, U), ("replay_log_offset", 26, 8, U), ("replay_log_size", 34, 8, U), ("header_size", 42, 4, U)]),
    ("descriptor/c_hyperv.py", "HyperVStorageReplayLog"): dict(endian="<", size=34, frozen=True, fields=[
        ("signature", 0, 4, U), ("checksum", 4, 4, U), ("num_entries", 8, 4, U), ("max_entries", 13, 4, U)]),
    ("descriptor/c_hyperv.py", "HyperVStorageReplayLogEntry"): dict(endian="<", size=28, frozen=True, fields=[
        ("offset", 0, 8, U), ("size", 8, 4, U), ("checksum", 20, 4, U), ("data_checksum", 24, 4, U)]),
    ("descriptor/c_hyperv.py", "HyperVStorageObjectTable"): dict(endian="<", size=8, frozen=True, fields=[
        ("signature", 0, 4, U), ("num_entries", 4, 4, U)]),
    ("descriptor/c_hyperv.py", "HyperVStorageObjectTableEntry"): dict(endian="<", size=18, frozen=True, fields=[
        ("type", 0, 1, U), ("checksum", 1, 4, U), ("offset", 5, 8, U), ("size", 13, 4, U), ("allocated", 17, 1, U)]),
    ("descriptor/c_hyperv.py", "HyperVStorageKeyTable"): dict(endian="<", size=10, frozen=True, fields=[
        ("signature", 0, 2, U), ("index", 2, 2, U), ("sequence_number", 4, 2, U), ("checksum", 6, 4, U)]),
    ("descriptor/c_hyperv.py", "HyperVStorageKeyTableEntryHeader"): dict(endian="<", size=21, frozen=True, fields=[
        ("type", 0, 2, U), ("size", 2, 4, U), ("parent_table_idx", 6, 2, U), ("parent_offset", 8, 4, U),
        ("checksum", 12, 4, U), ("insertion_sequence", 16, 4, U), ("data_offset", 20, 1, U)]),
    ("util/envelope.py", "EnvelopeFileHeader"): dict(endian="<", size=512, frozen=True, fields=[
        ("magic", 0, 21, B), ("size", 504, 4, U), ("version", 508, 4, U)]),
    ("util/envelope.py", "DataTransformAeadFooter"): dict(endian="<", size=4096, frozen=True, fields=[
        ("magic", 0, 23, B), ("data", 32, 4056, B), ("size", 4088, 4, U), ("version", 4092, 4, U)]),
    ("util/envelope.py", "DataTransformCryptoFooter"): dict(endian="<", size=512, frozen=True, fields=[
        ("magic", 0, 25, B), ("padding", 504, 4, U), ("version", 508, 4, U)]),
}

# which property uses which layout (for K-LAYOUT instance ownership)
OWNERS = {
    "C01": ["disk/c_qcow2.py"], "C02": ["disk/c_vmdk.py"], "C03": ["disk/c_vhdx.py"], "C04": ["disk/c_vhd.py"],
    "C05": ["disk/c_vdi.py"], "C06": ["disk/c_hdd.py"], "C17": ["descriptor/c_hyperv.py"], "C16": ["util/envelope.py"],
    "C13": ["disk/c_qcow2.py", "disk/c_vmdk.py", "disk/c_vhdx.py", "disk/c_vhd.py", "disk/c_vdi.py", "disk/c_hdd.py"],
    "C14": ["disk/c_qcow2.py", "disk/c_vmdk.py", "disk/c_vhdx.py", "disk/c_vhd.py", "disk/c_vdi.py", "disk/c_hdd.py"],
}
