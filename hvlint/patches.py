"""Apply a unified diff (as written by `git diff`) to source texts in memory.

Used by the self-test to analyse the kept independent changes (seeded/<id>/patch.diff, seeded/twins/<id>/patch.diff) as
in-memory overrides of the current tree: nothing is written anywhere and no repository code runs.
"""
from __future__ import annotations

import re
from pathlib import Path

PKG_PREFIX = "dissect/hypervisor/"


class PatchError(Exception):
    pass


def parse(diff_text: str):
    """-> {path: [hunk]} with hunk = (old_start, [(tag, line)]), tag in ' ', '-', '+' (lines without the newline)."""
    files = {}
    cur = None
    hunk = None
    for raw in diff_text.splitlines():
        if raw.startswith("diff --git"):
            cur, hunk = None, None
            continue
        if raw.startswith("+++ "):
            p = raw[4:].strip()
            if p == "/dev/null":
                cur = None
                continue
            if p.startswith("b/"):
                p = p[2:]
            cur = p
            files.setdefault(cur, [])
            hunk = None
            continue
        if raw.startswith("--- ") or raw.startswith("index ") or raw.startswith("new file") or raw.startswith("deleted file") or raw.startswith("similarity") or raw.startswith("rename"):
            continue
        m = re.match(r"@@ -(\d+)(?:,(\d+))? \+(\d+)(?:,(\d+))? @@", raw)
        if m and cur is not None:
            hunk = (int(m.group(1)), [])
            files[cur].append(hunk)
            continue
        if hunk is not None and cur is not None:
            if raw.startswith("\\"):
                continue  # "\ No newline at end of file"
            tag = raw[:1] if raw else " "
            if tag not in " -+":
                continue
            hunk[1].append((tag, raw[1:]))
    return files


def apply_to_text(src: str, hunks) -> str:
    lines = src.split("\n")
    out = []
    pos = 0  # index into lines (0-based)
    for start, body in hunks:
        old = [l for t, l in body if t in " -"]
        # locate the hunk: at its stated position, else search nearby (the tree may have moved by a few lines)
        want = start - 1 if old else start
        cand = None
        for delta in sorted(range(-400, 401), key=abs):
            i = want + delta
            if i < pos or i + len(old) > len(lines):
                continue
            if lines[i:i + len(old)] == old:
                cand = i
                break
        if cand is None:
            raise PatchError(f"hunk at line {start} does not apply")
        out.extend(lines[pos:cand])
        for t, l in body:
            if t in " +":
                out.append(l)
        pos = cand + len(old)
    out.extend(lines[pos:])
    return "\n".join(out)


def overrides_from_patch(patch_path: str | Path, repo_root: str | Path) -> dict[str, str]:
    """relpath (inside dissect/hypervisor) -> patched source text, for every package file the patch touches."""
    files = parse(Path(patch_path).read_text())
    out = {}
    for path, hunks in files.items():
        if not path.startswith(PKG_PREFIX) or not path.endswith(".py"):
            continue
        rel = path[len(PKG_PREFIX):]
        fp = Path(repo_root) / path
        src = fp.read_text() if fp.exists() else ""
        out[rel] = apply_to_text(src, hunks)
    return out
