"""Liveness fixtures: a tiny fake package with planted violations, analysed (never imported) on every run
so that a rule whose expected count on the real tree is zero cannot pass vacuously."""
from __future__ import annotations

from pathlib import Path

_W = None


def fixture_world():
    global _W
    if _W is None:
        from .engine import World

        _W = World(str(Path(__file__).resolve().parent.parent / "fixtures"))
    return _W
