"""Load and parse the repository's package.  Nothing is imported or executed."""
from __future__ import annotations

import ast
import hashlib
import os
from pathlib import Path

PKG = "dissect/hypervisor"


class AnalysisError(Exception):
    """The analyser cannot do its job (anchor vanished, unparsable file, internal limit)."""


class Module:
    def __init__(self, relpath: str, path: str, source: str):
        self.relpath = relpath  # e.g. "disk/qcow2.py"
        self.path = path  # absolute path (or "<memory>")
        self.source = source
        self.sha256 = hashlib.sha256(source.encode()).hexdigest()
        self.dotted = "dissect.hypervisor." + relpath[:-3].replace("/", ".")
        if self.dotted.endswith(".__init__"):
            self.dotted = self.dotted[: -len(".__init__")]
        try:
            self.tree = ast.parse(source, filename=path)
        except SyntaxError as e:  # pragma: no cover
            raise AnalysisError(f"cannot parse {relpath}: {e}") from e
        # private helpers that no property names as an anchor are transparent: inline them into their callers
        from .inline import flatten_joined_sublists, normalise_memo_tables, normalise_byte_accumulators, fold_list_building, unroll_constant_loops, final_loop_returns, split_parallel_assignments, expand_table_lookups, inline_helpers, normalise_loops, normalise_match, strip_logging, unroll_table_searches

        self.stripped_log_statements = strip_logging(self.tree)
        self.split_assignments = split_parallel_assignments(self.tree) + final_loop_returns(self.tree)
        self.byte_accumulators = normalise_byte_accumulators(self.tree)
        self.memo_tables = normalise_memo_tables(self.tree)
        self.normalised_matches = normalise_match(self.tree)
        self.expanded_lookups = expand_table_lookups(self.tree)
        self.unrolled_early = unroll_table_searches(self.tree)  # helpers that search a literal table become loop-free
        self.inlined_calls = inline_helpers(self.tree, relpath=relpath)
        self.normalised_loops = normalise_loops(self.tree) + unroll_table_searches(self.tree)
        self.unrolled_constant_loops = unroll_constant_loops(self.tree)
        self.folded_lists = fold_list_building(self.tree)
        self.flattened_sublists = flatten_joined_sublists(self.tree)
        for parent in ast.walk(self.tree):
            for child in ast.iter_child_nodes(parent):
                child._parent = parent  # type: ignore[attr-defined]
        self.tree._parent = None  # type: ignore[attr-defined]
        for node in ast.walk(self.tree):
            node._module = self  # type: ignore[attr-defined]

    def segment(self, node: ast.AST) -> str:
        try:
            return ast.get_source_segment(self.source, node) or ast.unparse(node)
        except Exception:
            return ast.unparse(node)


class Repo:
    """All modules under dissect/hypervisor of the tree at `root`.

    `overrides` maps relpath -> source text and is used by the self-test to analyse an
    in-memory edited copy of a module without writing anything to disk.
    """

    def __init__(self, root: str | None = None, overrides: dict[str, str] | None = None):
        self.root = root or os.environ.get("HVLINT_REPO", "/repo")
        self.pkgdir = Path(self.root) / PKG
        if not self.pkgdir.is_dir():
            raise AnalysisError(f"package directory missing: {self.pkgdir}")
        self.modules: dict[str, Module] = {}
        overrides = overrides or {}
        for p in sorted(self.pkgdir.rglob("*.py")):
            rel = p.relative_to(self.pkgdir).as_posix()
            src = overrides.get(rel)
            if src is None:
                src = p.read_text(encoding="utf-8")
            self.modules[rel] = Module(rel, str(p), src)
        for rel, src in overrides.items():
            if rel not in self.modules:
                self.modules[rel] = Module(rel, "<memory>", src)
        self._cache: dict = {}

    def module(self, relpath: str) -> Module:
        try:
            return self.modules[relpath]
        except KeyError:
            raise AnalysisError(f"ANCHOR-VANISHED module {relpath}") from None

    def by_dotted(self, dotted: str) -> Module | None:
        for m in self.modules.values():
            if m.dotted == dotted:
                return m
        return None

    def digests(self, relpaths=None) -> dict[str, str]:
        return {r: m.sha256[:16] for r, m in sorted(self.modules.items()) if relpaths is None or r in relpaths}


def parent(node):
    return getattr(node, "_parent", None)


def ancestors(node):
    n = parent(node)
    while n is not None:
        yield n
        n = parent(n)


def enclosing_function(node):
    for a in ancestors(node):
        if isinstance(a, (ast.FunctionDef, ast.AsyncFunctionDef, ast.Lambda)):
            return a
    return None


def enclosing_class(node):
    for a in ancestors(node):
        if isinstance(a, ast.ClassDef):
            return a
    return None


def qualname(node) -> str:
    parts = []
    n = node
    while n is not None:
        if isinstance(n, (ast.FunctionDef, ast.AsyncFunctionDef, ast.ClassDef)):
            parts.append(n.name)
        n = parent(n)
    return ".".join(reversed(parts)) or "<module>"
