"""Call-site enumeration and callee resolution (syntactic + import table + symtab)."""
from __future__ import annotations

import ast

from .loader import enclosing_function, parent, qualname
from .program import ModuleInfo, Program


def dotted(node: ast.AST) -> str | None:
    parts = []
    while isinstance(node, ast.Attribute):
        parts.append(node.attr)
        node = node.value
    if isinstance(node, ast.Name):
        parts.append(node.id)
        return ".".join(reversed(parts))
    return None


def _local_names(func) -> set[str]:
    """Names bound inside a function (params, assignments, loop targets...)."""
    out = set()
    if func is None:
        return out
    a = func.args
    for x in list(a.posonlyargs) + list(a.args) + list(a.kwonlyargs):
        out.add(x.arg)
    if a.vararg:
        out.add(a.vararg.arg)
    if a.kwarg:
        out.add(a.kwarg.arg)
    for n in ast.walk(func):
        if isinstance(n, ast.Name) and isinstance(n.ctx, ast.Store):
            out.add(n.id)
        elif isinstance(n, ast.ExceptHandler) and n.name:
            out.add(n.name)
    return out


class Resolver:
    def __init__(self, prog: Program):
        self.prog = prog
        self._locals: dict = {}

    def locals_of(self, func):
        if func not in self._locals:
            self._locals[func] = _local_names(func)
        return self._locals[func]

    def resolve(self, mi: ModuleInfo, node: ast.AST) -> tuple[str, str]:
        """Resolve the callee expression `node` (call.func).

        -> (kind, name): ('external', 'defusedxml.ElementTree.fromstring'),
                         ('repo', 'disk/vmdk.py::DiskDescriptor.parse'),
                         ('builtin', 'open'), ('method', 'read')  [receiver not a module/class],
                         ('unknown', text)
        """
        d = dotted(node)
        func = enclosing_function(node)
        if d is None:
            if isinstance(node, ast.Attribute):
                return ("method", node.attr)
            return ("unknown", ast.unparse(node)[:60])
        parts = d.split(".")
        root = parts[0]
        if func is not None and root in self.locals_of(func):
            # a local variable shadows module-level names
            if len(parts) == 1:
                return ("local", root)
            return ("method", parts[-1])
        r = self.prog.resolve_name(root, mi)
        if r is None:
            import builtins

            if len(parts) == 1 and hasattr(builtins, root):
                return ("builtin", root)
            if len(parts) == 1:
                return ("unknown", root)
            return ("method", parts[-1])
        kind = r[0]
        if kind == "external":
            return ("external", ".".join([r[1]] + parts[1:]))
        if kind == "module":
            tgt: ModuleInfo = r[1]
            if len(parts) == 1:
                return ("repo-module", tgt.mod.relpath)
            sub = self.prog.resolve_name(parts[1], tgt)
            if sub and sub[0] == "func":
                return ("repo", f"{sub[1].mod.relpath}::{sub[2].name}")
            if sub and sub[0] == "class":
                if len(parts) == 2:
                    return ("repo-class", sub[1].key)
                return ("repo", f"{sub[1].key}.{parts[2]}")
            if sub and sub[0] == "external":
                return ("external", ".".join([sub[1]] + parts[2:]))
            return ("unknown", d)
        if kind == "func":
            return ("repo", f"{r[1].mod.relpath}::{r[2].name}")
        if kind == "class":
            if len(parts) == 1:
                return ("repo-class", r[1].key)
            fm = self.prog.find_method(r[1], parts[1])
            if fm:
                return ("repo", f"{fm[0].key}.{parts[1]}")
            return ("method", parts[-1])
        if kind == "layout":
            return ("cstruct", d)
        if kind == "assign":
            # module-level alias e.g. QCow2ClusterType = c_qcow2.QCow2ClusterType, log = logging.getLogger()
            if len(parts) == 1:
                return ("alias", root)
            return ("method", parts[-1])
        return ("unknown", d)


def iter_functions(prog: Program):
    for rel, mi in sorted(prog.infos.items()):
        for f in mi.functions.values():
            yield mi, None, f
        for ci in mi.classes.values():
            for m in ci.methods.values():
                yield mi, ci, m


def iter_calls(prog: Program):
    """Every call expression of the package: (ModuleInfo, call node)."""
    for rel, mi in sorted(prog.infos.items()):
        for n in ast.walk(mi.mod.tree):
            if isinstance(n, ast.Call):
                yield mi, n


def in_type_checking_block(node: ast.AST) -> bool:
    n = parent(node)
    child = node
    while n is not None:
        if isinstance(n, ast.If) and child in n.body:
            t = ast.unparse(n.test)
            if t in ("TYPE_CHECKING", "typing.TYPE_CHECKING"):
                return True
        child = n
        n = parent(n)
    return False


def in_annotation(node: ast.AST) -> bool:
    n = node
    while n is not None:
        p = parent(n)
        if p is None:
            return False
        if isinstance(p, ast.arg) and p.annotation is n:
            return True
        if isinstance(p, ast.AnnAssign) and p.annotation is n:
            return True
        if isinstance(p, (ast.FunctionDef, ast.AsyncFunctionDef)) and p.returns is n:
            return True
        n = p
    return False


def const_kw(call: ast.Call, name: str):
    for kw in call.keywords:
        if kw.arg == name:
            return kw.value
    return None


def where(node):
    return node
