"""Facts from regular-expression literals using the regex *parser* (re._parser), never the matcher."""
from __future__ import annotations

import re

try:  # Python >= 3.11
    import re._parser as sre_parse  # type: ignore
    import re._constants as sre_c  # type: ignore
except ImportError:  # pragma: no cover
    import sre_constants as sre_c  # type: ignore
    import sre_parse  # type: ignore


def parse(pattern: str, flags: int = 0):
    return sre_parse.parse(pattern, flags)


def group_alternatives(pattern: str, flags: int, group: str):
    """Literal alternatives of a named group `(?P<group>A|B|C)`; None if the group is not a plain alternation."""
    p = parse(pattern, flags)
    gidx = p.state.groupdict.get(group)
    if gidx is None:
        return None

    def find(seq):
        for op, av in seq:
            if op == sre_c.SUBPATTERN:
                g, _, _, sub = av
                if g == gidx:
                    return sub
                r = find(sub)
                if r is not None:
                    return r
            elif op == sre_c.BRANCH:
                for alt in av[1]:
                    r = find(alt)
                    if r is not None:
                        return r
            elif op in (sre_c.MAX_REPEAT, sre_c.MIN_REPEAT):
                r = find(av[2])
                if r is not None:
                    return r
        return None

    sub = find(p)
    if sub is None:
        return None
    return _literals(sub)


def _literals(seq):
    """All literal strings a sub-pattern made of literals and branches can match."""
    outs = [""]
    for op, av in seq:
        if op == sre_c.LITERAL:
            outs = [o + chr(av) for o in outs]
        elif op == sre_c.BRANCH:
            alts = []
            for alt in av[1]:
                r = _literals(alt)
                if r is None:
                    return None
                alts += r
            outs = [o + a for o in outs for a in alts]
        elif op == sre_c.SUBPATTERN:
            r = _literals(av[3])
            if r is None:
                return None
            outs = [o + a for o in outs for a in r]
        else:
            return None
    return outs


def group_names(pattern: str, flags: int):
    return dict(parse(pattern, flags).state.groupdict)


def anchored(pattern: str, flags: int):
    p = parse(pattern, flags)
    items = list(p)
    return bool(items) and items[0][0] == sre_c.AT and items[-1][0] == sre_c.AT


def group_shape(pattern: str, flags: int, group: str):
    """Shape of a named group as a list of items: ('lit', 'x'), ('greedy'|'lazy', min, max, inner shape), ('any',),
    ('cat', name), ('in', ...) - enough to tell a greedy quoted string from a lazy one."""
    p = parse(pattern, flags)
    gidx = p.state.groupdict.get(group)
    if gidx is None:
        return None

    def find(seq):
        for op, av in seq:
            if op == sre_c.SUBPATTERN:
                g, _, _, sub = av
                if g == gidx:
                    return sub
                r = find(sub)
                if r is not None:
                    return r
            elif op == sre_c.BRANCH:
                for alt in av[1]:
                    r = find(alt)
                    if r is not None:
                        return r
            elif op in (sre_c.MAX_REPEAT, sre_c.MIN_REPEAT):
                r = find(av[2])
                if r is not None:
                    return r
        return None

    def shape(seq):
        out = []
        for op, av in seq:
            if op == sre_c.LITERAL:
                out.append(("lit", chr(av)))
            elif op == sre_c.ANY:
                out.append(("any",))
            elif op in (sre_c.MAX_REPEAT, sre_c.MIN_REPEAT):
                mx = "inf" if av[1] == sre_c.MAXREPEAT else av[1]
                out.append(("greedy" if op == sre_c.MAX_REPEAT else "lazy", av[0], mx, tuple(shape(av[2]))))
            elif op == sre_c.IN:
                out.append(("in", tuple(str(x) for x in av)))
            elif op == sre_c.SUBPATTERN:
                out.append(("group", tuple(shape(av[3]))))
            elif op == sre_c.BRANCH:
                out.append(("branch", tuple(tuple(shape(a)) for a in av[1])))
            else:
                out.append((str(op), str(av)))
        return out

    sub = find(p)
    return None if sub is None else shape(sub)
