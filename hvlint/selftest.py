"""Checker self-test (mutants / twins). Filled in by hvlint/mutants.py; see DESIGN.md section 7."""
from __future__ import annotations


def run_selftest(props=None, jobs=16, root=None, evidence_prop=None) -> int:
    try:
        from .mutants import run
    except ModuleNotFoundError:
        print("selftest: no mutant catalogue yet")
        return 0
    return run(props, jobs=jobs, root=root, evidence_prop=evidence_prop)
