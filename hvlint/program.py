"""Symbol tables and constant folding over the whole package."""
from __future__ import annotations

import ast
import struct as _struct
import uuid as _uuid

from . import cdef
from .loader import AnalysisError, Module, Repo
from .sym import EnumConst


class NotConst(Exception):
    pass


class CType:
    """Reference to a type of a cstruct layout (struct, enum, base type, typedef)."""

    def __init__(self, layout_key, name, layout):
        self.layout_key = layout_key
        self.name = name
        self.layout = layout

    def __eq__(self, o):
        return isinstance(o, CType) and (self.layout_key, self.name) == (o.layout_key, o.name)

    def __hash__(self):
        return hash((self.layout_key, self.name))

    def __repr__(self):
        return f"ctype:{self.layout_key[1]}.{self.name}"

    @property
    def is_struct(self):
        return self.name in self.layout.structs

    @property
    def is_enum(self):
        return self.name in self.layout.enums

    def sizeof(self):
        return self.layout.sizeof(self.name)


class LayoutRef:
    def __init__(self, key, layout):
        self.key = key
        self.layout = layout

    def __repr__(self):
        return f"layout:{self.key[1]}"

    def __eq__(self, o):
        return isinstance(o, LayoutRef) and self.key == o.key

    def __hash__(self):
        return hash(self.key)


class ClassInfo:
    def __init__(self, node: ast.ClassDef, modinfo: "ModuleInfo"):
        self.node = node
        self.name = node.name
        self.mod = modinfo
        self.bases = [ast.unparse(b) for b in node.bases]
        self.methods: dict[str, ast.FunctionDef] = {}
        self.class_assigns: dict[str, list[ast.AST]] = {}
        self.self_assigns: dict[str, list[tuple[ast.FunctionDef, ast.stmt, ast.AST]]] = {}
        self.annotations: dict[str, ast.AST] = {}
        for s in node.body:
            if isinstance(s, (ast.FunctionDef, ast.AsyncFunctionDef)):
                self.methods[s.name] = s
            elif isinstance(s, ast.Assign):
                for t in s.targets:
                    if isinstance(t, ast.Name):
                        self.class_assigns.setdefault(t.id, []).append(s.value)
            elif isinstance(s, ast.AnnAssign) and isinstance(s.target, ast.Name):
                self.annotations[s.target.id] = s.annotation
                if s.value is not None:
                    self.class_assigns.setdefault(s.target.id, []).append(s.value)
        for m in self.methods.values():
            selfname = m.args.args[0].arg if m.args.args else None
            if not selfname:
                continue
            for n in ast.walk(m):
                tv = []
                if isinstance(n, ast.Assign):
                    tv = [(t, n.value) for t in n.targets]
                elif isinstance(n, ast.AnnAssign) and n.value is not None:
                    tv = [(n.target, n.value)]
                elif isinstance(n, ast.AugAssign):
                    tv = [(n.target, n)]
                for t, v in tv:
                    for tt in (t.elts if isinstance(t, (ast.Tuple, ast.List)) else [t]):
                        if (isinstance(tt, ast.Attribute) and isinstance(tt.value, ast.Name)
                                and tt.value.id == selfname):
                            self.self_assigns.setdefault(tt.attr, []).append((m, n, v))

    def decorators(self, name) -> set[str]:
        m = self.methods.get(name)
        if not m:
            return set()
        return {ast.unparse(d).split("(")[0].split(".")[-1] for d in m.decorator_list}

    def is_property(self, name) -> bool:
        return bool(self.decorators(name) & {"property", "cached_property"})

    @property
    def key(self):
        return f"{self.mod.mod.relpath}::{self.name}"


class ModuleInfo:
    def __init__(self, mod: Module):
        self.mod = mod
        self.functions: dict[str, ast.FunctionDef] = {}
        self.classes: dict[str, ClassInfo] = {}
        self.assigns: dict[str, list[ast.AST]] = {}
        self.imports: dict[str, tuple[str, str | None]] = {}
        self.layouts = cdef.find_layouts(mod)
        self._walk_body(mod.tree.body)

    def _walk_body(self, body):
        for s in body:
            if isinstance(s, (ast.FunctionDef, ast.AsyncFunctionDef)):
                self.functions[s.name] = s
            elif isinstance(s, ast.ClassDef):
                self.classes[s.name] = ClassInfo(s, self)
            elif isinstance(s, ast.Assign):
                for t in s.targets:
                    if isinstance(t, ast.Name):
                        self.assigns.setdefault(t.id, []).append(s.value)
            elif isinstance(s, ast.AnnAssign) and isinstance(s.target, ast.Name) and s.value is not None:
                self.assigns.setdefault(s.target.id, []).append(s.value)
            elif isinstance(s, ast.Import):
                for al in s.names:
                    if al.asname:
                        self.imports[al.asname] = (al.name, None)
                    else:
                        self.imports[al.name.split(".")[0]] = (al.name.split(".")[0], None)
            elif isinstance(s, ast.ImportFrom):
                base = s.module or ""
                if s.level:
                    pk = self.mod.dotted.split(".")
                    pk = pk[: len(pk) - s.level]
                    base = ".".join(pk + ([s.module] if s.module else []))
                for al in s.names:
                    self.imports[al.asname or al.name] = (base, al.name)
            elif isinstance(s, (ast.If, ast.Try)):
                # TYPE_CHECKING blocks and optional imports
                for blk in (getattr(s, "body", []), getattr(s, "orelse", []), getattr(s, "finalbody", [])):
                    self._walk_body(blk)
                for h in getattr(s, "handlers", []):
                    self._walk_body(h.body)


_EXTERNAL_CONSTS = {
    ("io", "SEEK_SET"): 0, ("io", "SEEK_CUR"): 1, ("io", "SEEK_END"): 2,
    ("os", "SEEK_SET"): 0, ("os", "SEEK_CUR"): 1, ("os", "SEEK_END"): 2,
}


class Program:
    def __init__(self, repo: Repo):
        self.repo = repo
        self.infos: dict[str, ModuleInfo] = {rel: ModuleInfo(m) for rel, m in repo.modules.items()}
        self.by_dotted = {i.mod.dotted: i for i in self.infos.values()}
        self._fold_cache: dict = {}
        self._folding: set = set()

    # -- lookups ----------------------------------------------------------------------
    def info(self, relpath) -> ModuleInfo:
        try:
            return self.infos[relpath]
        except KeyError:
            raise AnalysisError(f"ANCHOR-VANISHED module {relpath}") from None

    def cls(self, relpath, name) -> ClassInfo:
        mi = self.info(relpath)
        if name not in mi.classes:
            raise AnalysisError(f"ANCHOR-VANISHED class {relpath}::{name}")
        return mi.classes[name]

    def func(self, relpath, qual) -> ast.FunctionDef:
        mi = self.info(relpath)
        if "." in qual:
            c, m = qual.split(".", 1)
            ci = self.cls(relpath, c)
            if m not in ci.methods:
                raise AnalysisError(f"ANCHOR-VANISHED function {relpath}::{qual}")
            return ci.methods[m]
        if qual not in mi.functions:
            raise AnalysisError(f"ANCHOR-VANISHED function {relpath}::{qual}")
        return mi.functions[qual]

    def has_func(self, relpath, qual) -> bool:
        try:
            self.func(relpath, qual)
            return True
        except AnalysisError:
            return False

    def find_class(self, name: str, near: ModuleInfo | None = None) -> ClassInfo | None:
        if near is not None:
            r = self.resolve_name(name, near)
            if r and r[0] == "class":
                return r[1]
        for mi in self.infos.values():
            if name in mi.classes:
                return mi.classes[name]
        return None

    def mro(self, ci: ClassInfo):
        out = [ci]
        seen = {ci.key}
        i = 0
        while i < len(out):
            for b in out[i].bases:
                bn = b.split(".")[-1]
                r = self.resolve_name(bn, out[i].mod)
                if r and r[0] == "class" and r[1].key not in seen:
                    seen.add(r[1].key)
                    out.append(r[1])
            i += 1
        return out

    def find_method(self, ci: ClassInfo, name: str):
        for c in self.mro(ci):
            if name in c.methods:
                return c, c.methods[name]
        return None

    def external_bases(self, ci: ClassInfo) -> list[str]:
        out = []
        for c in self.mro(ci):
            for b in c.bases:
                bn = b.split(".")[-1]
                r = self.resolve_name(bn, c.mod)
                if not (r and r[0] == "class"):
                    out.append(b)
        return out

    def resolve_name(self, name: str, mi: ModuleInfo, _depth=0):
        """-> ('class', ClassInfo) | ('func', ModuleInfo, FunctionDef) | ('layout', LayoutRef) |
        ('module', dotted) | ('external', dotted) | ('assign', ModuleInfo, [exprs]) | None"""
        if _depth > 8:
            return None
        if name in mi.classes:
            return ("class", mi.classes[name])
        if name in mi.functions:
            return ("func", mi, mi.functions[name])
        if name in mi.layouts:
            return ("layout", LayoutRef((mi.mod.relpath, name), mi.layouts[name]))
        if name in mi.assigns:
            return ("assign", mi, mi.assigns[name])
        if name in mi.imports:
            dotted, orig = mi.imports[name]
            if orig is None:
                tgt = self.by_dotted.get(dotted)
                if tgt:
                    return ("module", tgt)
                return ("external", dotted)
            src = self.by_dotted.get(dotted)
            if src is not None:
                return self.resolve_name(orig, src, _depth + 1)
            sub = self.by_dotted.get(dotted + "." + orig)
            if sub is not None:
                return ("module", sub)
            return ("external", dotted + "." + orig)
        return None

    # -- constant folding -------------------------------------------------------------
    def fold(self, node: ast.AST, mi: ModuleInfo, ci: ClassInfo | None = None):
        """Fold an expression to a Python value, or raise NotConst."""
        if isinstance(node, ast.Constant):
            return node.value
        if isinstance(node, ast.Name):
            return self._fold_name(node.id, mi, ci)
        if isinstance(node, ast.Attribute):
            # self.X / cls.X class constant
            if isinstance(node.value, ast.Name) and node.value.id in ("self", "cls") and ci is not None:
                for c in self.mro(ci):
                    if node.attr in c.class_assigns and len(c.class_assigns[node.attr]) == 1:
                        return self.fold_class_level(c.class_assigns[node.attr][0], c)
                raise NotConst(ast.unparse(node))
            if isinstance(node.value, ast.Name) and (node.value.id, node.attr) in _EXTERNAL_CONSTS:
                r = self.resolve_name(node.value.id, mi)
                if r and r[0] == "external":
                    return _EXTERNAL_CONSTS[(node.value.id, node.attr)]
            base = self.fold(node.value, mi, ci)
            return self._fold_attr(base, node.attr, node)
        if isinstance(node, ast.JoinedStr):
            parts = []
            for v in node.values:
                if isinstance(v, ast.Constant):
                    parts.append(str(v.value))
                elif isinstance(v, ast.FormattedValue):
                    val = self.fold(v.value, mi, ci)
                    if v.conversion == 114:
                        val = repr(val)
                    elif v.conversion == 115:
                        val = str(val)
                    elif v.conversion == 97:
                        val = ascii(val)
                    spec = ""
                    if v.format_spec is not None:
                        spec = self.fold(v.format_spec, mi, ci)
                    try:
                        parts.append(format(val, spec))
                    except Exception:
                        raise NotConst(ast.unparse(node)) from None
                else:
                    raise NotConst(ast.unparse(node))
            return "".join(parts)
        if isinstance(node, ast.UnaryOp):
            v = self.fold(node.operand, mi, ci)
            try:
                if isinstance(node.op, ast.USub):
                    return -v
                if isinstance(node.op, ast.Invert):
                    return ~v
                if isinstance(node.op, ast.Not):
                    return not v
                if isinstance(node.op, ast.UAdd):
                    return +v
            except Exception:
                raise NotConst(ast.unparse(node)) from None
        if isinstance(node, ast.BinOp):
            a, b = self.fold(node.left, mi, ci), self.fold(node.right, mi, ci)
            try:
                return _binop(node.op, a, b)
            except NotConst:
                raise
            except Exception:
                raise NotConst(ast.unparse(node)) from None
        if isinstance(node, (ast.Tuple, ast.List)):
            return tuple(self.fold(e, mi, ci) for e in node.elts)
        if isinstance(node, ast.Set):
            return frozenset(self.fold(e, mi, ci) for e in node.elts)
        if isinstance(node, ast.Dict):
            out = {}
            for k, v in zip(node.keys, node.values):
                if k is None:
                    raise NotConst("dict unpack")
                out[self.fold(k, mi, ci)] = self._fold_or_ref(v, mi, ci)
            return FrozenDict(out)
        if isinstance(node, ast.Call):
            return self._fold_call(node, mi, ci)
        if isinstance(node, ast.Subscript):
            base = self.fold(node.value, mi, ci)
            if isinstance(base, CType):
                raise NotConst("array type")
            idx = self.fold(node.slice, mi, ci)
            try:
                return base[idx]
            except Exception:
                raise NotConst(ast.unparse(node)) from None
        if isinstance(node, ast.BoolOp):
            vals = [self.fold(v, mi, ci) for v in node.values]
            r = vals[0]
            for v in vals[1:]:
                r = (r and v) if isinstance(node.op, ast.And) else (r or v)
            return r
        raise NotConst(ast.unparse(node))

    def _fold_or_ref(self, v, mi, ci):
        try:
            return self.fold(v, mi, ci)
        except NotConst:
            if isinstance(v, ast.Name):
                r = self.resolve_name(v.id, mi)
                if r and r[0] == "class":
                    return ("classref", r[1].key)
                if r and r[0] == "func":
                    return ("funcref", r[1].mod.relpath + "::" + r[2].name)
            return ("expr", ast.unparse(v))

    def fold_class_level(self, node, c):
        """Fold the value of a class-body assignment: bare names see the class's own (earlier) attributes first."""
        stack = self.__dict__.setdefault("_class_scope", [])
        stack.append(c)
        try:
            return self.fold(node, c.mod, c)
        finally:
            stack.pop()

    def _fold_name(self, name, mi, ci=None):
        stack = self.__dict__.get("_class_scope")
        if stack and name in stack[-1].class_assigns and len(stack[-1].class_assigns[name]) == 1:
            ckey = ("class-level", stack[-1].key, name)
            if ckey in self._folding:
                raise NotConst(f"cyclic {name}")
            self._folding.add(ckey)
            try:
                return self.fold(stack[-1].class_assigns[name][0], stack[-1].mod, stack[-1])
            finally:
                self._folding.discard(ckey)
        key = (mi.mod.relpath, name)
        if key in self._fold_cache:
            v = self._fold_cache[key]
            if isinstance(v, NotConst):
                raise v
            return v
        if key in self._folding:
            raise NotConst(f"cyclic {name}")
        if name in ("True", "False", "None"):
            return {"True": True, "False": False, "None": None}[name]
        self._folding.add(key)
        try:
            r = self.resolve_name(name, mi)
            if r is None:
                raise NotConst(name)
            if r[0] == "assign":
                if len(r[2]) != 1:
                    raise NotConst(f"{name} assigned {len(r[2])} times")
                v = self.fold(r[2][0], r[1])
            elif r[0] == "layout":
                v = r[1]
            else:
                raise NotConst(name)
            self._fold_cache[key] = v
            return v
        except NotConst as e:
            self._fold_cache[key] = e
            raise
        finally:
            self._folding.discard(key)

    def _fold_attr(self, base, attr, node):
        if isinstance(base, LayoutRef):
            lay = base.layout
            if attr in lay.defines:
                v = lay.defines[attr]
                if isinstance(v, tuple) and v and v[0] == "unparsed":
                    raise NotConst(f"define {attr}")
                return v
            if lay.has_type(attr):
                return CType(base.key, attr, lay)
            raise NotConst(f"{base}.{attr}")
        if isinstance(base, CType):
            if base.is_enum:
                e = base.layout.enums[base.name]
                if attr in e.members:
                    return EnumConst(e.members[attr], base.name, attr)
            raise NotConst(f"{base}.{attr}")
        if isinstance(base, _uuid.UUID) and attr in ("bytes", "bytes_le", "hex", "int"):
            return getattr(base, attr)
        if isinstance(base, EnumConst) and attr == "value":
            return int(base)
        if isinstance(base, EnumConst) and attr == "name" and getattr(base, "member", None):
            return base.member
        raise NotConst(ast.unparse(node))

    def _fold_call(self, node: ast.Call, mi, ci):
        fn = node.func
        fname = ast.unparse(fn)
        args = node.args
        if isinstance(fn, ast.Attribute) and fn.attr == "format" and not any(isinstance(a, ast.Starred) for a in args):
            # "<template>".format(consts, name=const, **CONST_DICT) on a constant template
            tmpl = self.fold(fn.value, mi, ci)
            if isinstance(tmpl, str):
                pos = [self.fold(a, mi, ci) for a in args]
                kw = {}
                for k in node.keywords:
                    v = self.fold(k.value, mi, ci)
                    if k.arg is None:
                        if not isinstance(v, dict):
                            raise NotConst(fname)
                        kw.update(v)
                    else:
                        kw[k.arg] = v
                try:
                    return tmpl.format(*pos, **kw)
                except Exception:
                    raise NotConst(fname) from None
        if node.keywords and fname not in ("UUID", "uuid.UUID"):
            raise NotConst(fname)
        if fname in ("UUID", "uuid.UUID"):
            if args:
                v = self.fold(args[0], mi, ci)
                return _uuid.UUID(v)
            for kw in node.keywords:
                v = self.fold(kw.value, mi, ci)
                return _uuid.UUID(**{kw.arg: v})
        if fname == "struct.pack":
            vals = [self.fold(a, mi, ci) for a in args]
            try:
                return _struct.pack(*vals)
            except Exception:
                raise NotConst(fname) from None
        if fname == "struct.calcsize":
            return _struct.calcsize(self.fold(args[0], mi, ci))
        if fname == "len" and len(args) == 1:
            v = self.fold(args[0], mi, ci)
            if isinstance(v, CType):
                s = v.sizeof()
                if s is None:
                    raise NotConst("dynamic size")
                return s
            try:
                return len(v)
            except Exception:
                raise NotConst(fname) from None
        if fname in ("int", "bool", "bytes", "str", "tuple", "frozenset", "abs", "min", "max") and args:
            vals = [self.fold(a, mi, ci) for a in args]
            try:
                return {"int": int, "bool": bool, "bytes": bytes, "str": str, "tuple": tuple,
                        "frozenset": frozenset, "abs": abs, "min": min, "max": max}[fname](*vals)
            except Exception:
                raise NotConst(fname) from None
        if isinstance(fn, ast.Attribute) and fn.attr == "dumps" and len(args) == 1:
            base = self.fold(fn.value, mi, ci)
            if isinstance(base, CType) and base.name in cdef.BASE_TYPES or isinstance(base, CType) and base.name in base.layout.typedefs:
                size, signed, kind, _ = base.layout.type_info(base.name)
                v = self.fold(args[0], mi, ci)
                if kind == "int":
                    return int(v).to_bytes(size, "big" if base.layout.endian == ">" else "little", signed=signed)
        if isinstance(fn, ast.Attribute) and fn.attr == "fromhex" and ast.unparse(fn.value) == "bytes":
            return bytes.fromhex(self.fold(args[0], mi, ci))
        raise NotConst(fname)


class FrozenDict(dict):
    def __hash__(self):
        return hash(tuple(sorted((repr(k), repr(v)) for k, v in self.items())))


def _binop(o, a, b):
    if isinstance(o, ast.Add):
        return a + b
    if isinstance(o, ast.Sub):
        return a - b
    if isinstance(o, ast.Mult):
        return a * b
    if isinstance(o, ast.FloorDiv):
        return a // b
    if isinstance(o, ast.Div):
        return a / b
    if isinstance(o, ast.Mod):
        if isinstance(a, (str, bytes)):
            raise NotConst("format")
        return a % b
    if isinstance(o, ast.LShift):
        if b > 4096:
            raise NotConst("shift")
        return a << b
    if isinstance(o, ast.RShift):
        return a >> b
    if isinstance(o, ast.BitOr):
        return a | b
    if isinstance(o, ast.BitAnd):
        return a & b
    if isinstance(o, ast.BitXor):
        return a ^ b
    if isinstance(o, ast.Pow):
        if abs(b) > 512:
            raise NotConst("pow")
        return a**b
    raise NotConst("op")
