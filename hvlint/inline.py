"""Transparent private helpers: an AST pre-pass that inlines small private functions into their callers.

The properties name the functions they are anchored in.  Any *other* private helper (leading underscore, not named in a
property anchor) is not an analysis unit of its own: whether a few lines live in `_read` or in a helper `_read_block` called
from `_read` does not change behaviour, so it must not change a verdict.  Such helpers are inlined into the statements that
call them before anything else looks at the tree:

    x = self._h(a, b)        ->     __hv1_p = a; __hv1_q = b; <body of _h with `return e` turned into `__hv1_ret = e`>; x = __hv1_ret

`return` elimination is structural (continuation duplication): `if c: return A` followed by `rest` becomes
`if c: ret = A  else: rest'`.  A helper is eligible only when this is exact: no return inside a loop / try / with, no
generator, no recursion, no *args / **kwargs, no decorator.  Locals and parameters of the helper are renamed apart.
The helper's own definition stays in the module.  Nothing here executes repository code.
"""
from __future__ import annotations

import ast
import copy
import json
import re
from pathlib import Path

_PREFIX = "__hv"
MAX_PASSES = 3
MAX_BODY_STMTS = 60


class _NotEligible(Exception):
    pass


_ANCHOR_CACHE = {}


def anchored_names(relpath=None) -> frozenset:
    """Identifiers that occur in the anchors of the given properties (these functions stay analysis units).  A mechanism's
    `where` names its file ("dissect/hypervisor/disk/hdd.py: HDS._iter_runs"): such names are anchors in that file only, so
    that a private helper of another module that happens to share the name stays transparent."""
    if not _ANCHOR_CACHE:
        p = Path(__file__).resolve().parent.parent / "properties.jsonl"
        glob, per_file = set(), {}
        try:
            for line in p.read_text().splitlines():
                if not line.strip():
                    continue
                a = json.loads(line).get("anchors", {})
                for m in a.get("mechanism", []):
                    where = m.get("where", "")
                    glob.update(re.findall(r"[A-Za-z_][A-Za-z0-9_]*", m.get("name", "")))
                    for part in re.split(r";", where):
                        mm = re.match(r"\s*((?:[\w/]*?\w+\.py)(?:\s*/\s*[\w/]*?\w+\.py)*)\s*:(.*)$", part, re.S)
                        if mm:
                            for fname in re.findall(r"\w+\.py", mm.group(1)):
                                per_file.setdefault(fname, set()).update(re.findall(r"[A-Za-z_][A-Za-z0-9_]*", mm.group(2)))
                        else:
                            glob.update(re.findall(r"[A-Za-z_][A-Za-z0-9_]*", part))
                rest = {k: v for k, v in a.items() if k != "mechanism"}
                glob.update(re.findall(r"[A-Za-z_][A-Za-z0-9_]*", json.dumps(rest)))
        except OSError:
            pass
        _ANCHOR_CACHE["glob"] = frozenset(glob)
        _ANCHOR_CACHE["per_file"] = {k: frozenset(v) for k, v in per_file.items()}
    if relpath is None:
        return _ANCHOR_CACHE["glob"] | frozenset(x for v in _ANCHOR_CACHE["per_file"].values() for x in v)
    return _ANCHOR_CACHE["glob"] | _ANCHOR_CACHE["per_file"].get(relpath.rsplit("/", 1)[-1], frozenset())


def _has(node, types) -> bool:
    for n in ast.walk(node):
        if isinstance(n, types):
            return True
    return False


def _has_return(node) -> bool:
    for n in _walk_own(node):
        if isinstance(n, ast.Return):
            return True
    return False


def _walk_own(node):
    """ast.walk that does not enter nested function / class / lambda scopes."""
    stack = [node]
    first = True
    while stack:
        n = stack.pop()
        if not first and isinstance(n, (ast.FunctionDef, ast.AsyncFunctionDef, ast.ClassDef, ast.Lambda)):
            continue
        first = False
        yield n
        stack.extend(ast.iter_child_nodes(n))


def _eligible(fn: ast.FunctionDef, anchored, local=False) -> bool:
    if not local:
        if not fn.name.startswith("_") or (fn.name.startswith("__") and fn.name.endswith("__")):
            return False
        if fn.name in anchored:
            return False
    if fn.decorator_list:
        return False
    a = fn.args
    if a.vararg or a.kwarg or a.kwonlyargs:
        return False
    n_stmts = 0
    for n in _walk_own(fn):
        if n is fn:
            continue
        if isinstance(n, (ast.Yield, ast.YieldFrom, ast.Await, ast.Global, ast.Nonlocal, ast.FunctionDef, ast.AsyncFunctionDef, ast.ClassDef)):
            return False
        if isinstance(n, (ast.While, ast.For, ast.Try, ast.With, ast.AsyncFor, ast.AsyncWith, ast.Match)) and _has_return(n):
            return False
        if isinstance(n, ast.stmt):
            n_stmts += 1
        if isinstance(n, ast.Call):
            f = n.func
            if (isinstance(f, ast.Name) and f.id == fn.name) or (isinstance(f, ast.Attribute) and f.attr == fn.name):
                return False  # recursion
    return 0 < n_stmts <= MAX_BODY_STMTS


def _eligible_generator(fn: ast.FunctionDef, anchored, local=False):
    """A private generator whose yields sit directly in one loop that ends the body (or at top level), without
    try / with around them: `for x in self._gen(..): BODY` is then that loop with `x = <yielded>; BODY` in place of the yield."""
    if fn.decorator_list:
        return None
    if not local and (not fn.name.startswith("_") or (fn.name.startswith("__") and fn.name.endswith("__")) or fn.name in anchored):
        return None
    a = fn.args
    if a.vararg or a.kwarg or a.kwonlyargs:
        return None
    body = _strip_doc(fn.body)
    if not body:
        return None
    for n in _walk_own(fn):
        if isinstance(n, (ast.YieldFrom, ast.Await, ast.Global, ast.Nonlocal, ast.Try, ast.With, ast.Lambda)) or (
                n is not fn and isinstance(n, (ast.FunctionDef, ast.AsyncFunctionDef, ast.ClassDef))):
            return None
        if isinstance(n, ast.Call):
            f = n.func
            if (isinstance(f, ast.Name) and f.id == fn.name) or (isinstance(f, ast.Attribute) and f.attr == fn.name):
                return None
    ys = [n for n in _walk_own(fn) if isinstance(n, ast.Yield)]
    if not ys:
        return None
    last = body[-1]
    loop = last if isinstance(last, (ast.While, ast.For)) and not last.orelse else None
    # yields and returns must be expression statements / returns directly governed by `loop` (not by a nested loop), or, without a loop, at top level
    region = loop if loop is not None else fn
    for st in body[:-1] if loop is not None else []:
        if any(isinstance(x, (ast.Yield, ast.Return)) for x in _walk_own(st)):
            return None
    for x in _walk_loop_own(region) if loop is not None else _walk_own(fn):
        pass
    own = list(_walk_loop_own(loop)) if loop is not None else [x for x in _walk_own(fn) if x is not fn]
    seen_y = [x for x in own if isinstance(x, ast.Yield)]
    if len(seen_y) != len(ys):
        return None  # a yield inside a nested loop
    rets = [x for x in _walk_own(fn) if isinstance(x, ast.Return)]
    if any(r not in own for r in rets) or any(r.value is not None for r in rets):
        return None
    if loop is None and rets:
        return None
    # every yield is a statement of its own
    for y in ys:
        pass
    return loop if loop is not None else True


def _continue_free(stmts):
    """`stmts` (a loop body) with statement-level `continue`s expressed as if / else nesting, or None if a `continue` sits
    somewhere this does not reach (inside try / with / nested else chains that also fall through)."""
    out = []
    for i, st in enumerate(stmts):
        if isinstance(st, ast.Continue):
            return out
        if isinstance(st, ast.If) and any(isinstance(x, ast.Continue) for x in _walk_loop_own(st)):
            rest = stmts[i + 1:]
            body_leaves = bool(st.body) and isinstance(st.body[-1], ast.Continue)
            else_leaves = bool(st.orelse) and isinstance(st.orelse[-1], ast.Continue)
            if body_leaves and not any(isinstance(x, ast.Continue) for s_ in st.body[:-1] + st.orelse for x in _walk_loop_own(s_)):
                tail = _continue_free(list(st.orelse) + rest)
                if tail is None:
                    return None
                new = ast.copy_location(ast.If(test=st.test, body=st.body[:-1] or [ast.copy_location(ast.Pass(), st)], orelse=tail), st)
                return out + [new]
            if else_leaves and not any(isinstance(x, ast.Continue) for s_ in st.orelse[:-1] + st.body for x in _walk_loop_own(s_)):
                tail = _continue_free(list(st.body) + rest)
                if tail is None:
                    return None
                new = ast.copy_location(ast.If(test=st.test, body=tail or [ast.copy_location(ast.Pass(), st)], orelse=st.orelse[:-1]), st)
                return out + [new]
            return None
        if any(isinstance(x, ast.Continue) for x in _walk_loop_own(st)):
            return None
        out.append(st)
    return out


def _strip_doc(body):
    if body and isinstance(body[0], ast.Expr) and isinstance(body[0].value, ast.Constant) and isinstance(body[0].value.value, str):
        return body[1:]
    return body


def _elim(stmts, cont, ret, loc):
    """Statements equivalent to `stmts; cont` in which every `return e` is `ret = e` (and nothing follows it)."""
    if not stmts:
        if cont:
            return _elim(cont, [], ret, loc)
        return [_assign(ret, ast.Constant(value=None), loc)]
    st, rest = stmts[0], stmts[1:]
    if isinstance(st, ast.Return):
        return [_assign(ret, st.value if st.value is not None else ast.Constant(value=None), st)]
    if isinstance(st, ast.Raise):
        return [st]
    if isinstance(st, ast.If) and _has_return(st):
        follow = rest + cont
        new = ast.If(test=st.test, body=_elim(st.body, follow, ret, loc), orelse=_elim(st.orelse, copy.deepcopy(follow), ret, loc))
        return [ast.copy_location(new, st)]
    if _has_return(st):
        raise _NotEligible()
    return [st] + _elim(rest, cont, ret, loc)


def _assign(name, value, loc):
    n = ast.Assign(targets=[ast.Name(id=name, ctx=ast.Store())], value=value, lineno=getattr(loc, "lineno", 1), col_offset=getattr(loc, "col_offset", 0))
    return ast.copy_location(n, loc)


class _Rename(ast.NodeTransformer):
    def __init__(self, mapping, selfname=None, receiver=None):
        self.mapping = mapping
        self.selfname = selfname
        self.receiver = receiver

    def visit_Name(self, node):
        if self.selfname is not None and node.id == self.selfname and self.receiver is not None:
            return ast.copy_location(copy.deepcopy(self.receiver), node)
        if node.id in self.mapping:
            return ast.copy_location(ast.Name(id=self.mapping[node.id], ctx=node.ctx), node)
        return node

    def visit_Lambda(self, node):
        return node

    def visit_FunctionDef(self, node):
        return node


class _Inliner:
    def __init__(self, tree, anchored):
        self.tree = tree
        self.anchored = anchored
        self.counter = 0
        self.mod_funcs = {}
        self.class_funcs = {}
        self.class_bases = {}
        for n in tree.body:
            if isinstance(n, ast.FunctionDef):
                self.mod_funcs[n.name] = n
            elif isinstance(n, ast.ClassDef):
                self.class_funcs[n.name] = {m.name: m for m in n.body if isinstance(m, ast.FunctionDef)}
                self.class_bases[n.name] = [b.id for b in n.bases if isinstance(b, ast.Name)]
        self.done = 0
        self.local_funcs = {}

    # -- resolution ------------------------------------------------------------------------
    def _lookup_method(self, cls, name, seen=()):
        if cls is None or cls in seen:
            return None
        fs = self.class_funcs.get(cls)
        if fs is None:
            return None
        if name in fs:
            return fs[name]
        for b in self.class_bases.get(cls, []):
            r = self._lookup_method(b, name, seen + (cls,))
            if r is not None:
                return r
        return None

    def _target(self, call: ast.Call, cls, selfname):
        """-> (FunctionDef, receiver expr | None) for an eligible helper call."""
        f = call.func
        if any(isinstance(a, ast.Starred) for a in call.args) or any(k.arg is None for k in call.keywords):
            return None
        if isinstance(f, ast.Name) and f.id in self.local_funcs:
            fn = self.local_funcs[f.id]
            return (fn, None) if _eligible(fn, self.anchored, local=True) else None
        if isinstance(f, ast.Name) and f.id in self.mod_funcs:
            fn = self.mod_funcs[f.id]
            return (fn, None) if _eligible(fn, self.anchored) else None
        if isinstance(f, ast.Attribute) and isinstance(f.value, ast.Name) and selfname is not None and f.value.id == selfname and cls is not None:
            fn = self._lookup_method(cls, f.attr)
            if fn is not None and _eligible(fn, self.anchored) and fn.args.args:
                return (fn, f.value)
        return None

    def _scan_locals(self, owner):
        """Closures defined (once) inside `owner` and never re-bound: name -> FunctionDef."""
        self.local_funcs = {}
        defs = {}
        for n in _walk_own_deep(owner):
            if isinstance(n, ast.FunctionDef) and n is not owner:
                defs.setdefault(n.name, []).append(n)
        stores = {}
        for n in ast.walk(owner):
            if isinstance(n, ast.Name) and isinstance(n.ctx, ast.Store):
                stores[n.id] = stores.get(n.id, 0) + 1
        for nm, ds in defs.items():
            if len(ds) == 1 and not stores.get(nm):
                self.local_funcs[nm] = ds[0]

    def _drop_unused_locals(self, owner):
        """Remove closures that are no longer referenced (every call was inlined)."""
        for nm, fn in list(self.local_funcs.items()):
            used = any(isinstance(n, ast.Name) and n.id == nm and isinstance(n.ctx, ast.Load) for n in ast.walk(owner) if n is not fn and not _inside(n, fn))
            if used:
                continue
            for holder in ast.walk(owner):
                for fld in ("body", "orelse", "finalbody"):
                    blk = getattr(holder, fld, None)
                    if isinstance(blk, list) and fn in blk:
                        blk.remove(fn)
                        if not blk:
                            blk.append(ast.copy_location(ast.Pass(), fn))

    # -- rewriting -------------------------------------------------------------------------
    def run(self):
        for _ in range(MAX_PASSES):
            before = self.done
            for n in self.tree.body:
                if isinstance(n, ast.FunctionDef):
                    self._scan_locals(n)
                    n.body = self._block(n.body, None, None, n)
                    self._drop_unused_locals(n)
                elif isinstance(n, ast.ClassDef):
                    for m in n.body:
                        if isinstance(m, ast.FunctionDef):
                            sn = m.args.args[0].arg if m.args.args and not any(
                                isinstance(d, ast.Name) and d.id == "staticmethod" for d in m.decorator_list) else None
                            self._scan_locals(m)
                            m.body = self._block(m.body, n.name, sn, m)
                            self._drop_unused_locals(m)
            self.local_funcs = {}
            if self.done == before:
                break
        if self.done:
            self._drop_inlined_helpers()
        return self.done

    def _drop_inlined_helpers(self):
        """A transparent private helper whose every use was inlined is no analysis unit any more: remove its definition, so that
        rules that scan all functions see its statements once - in the caller - and not a second time on their own."""
        def eligible_defs():
            for n in self.tree.body:
                if isinstance(n, ast.FunctionDef) and (_eligible(n, self.anchored) or _eligible_generator(n, self.anchored) is not None):
                    yield self.tree.body, n
                elif isinstance(n, ast.ClassDef):
                    for m in n.body:
                        if isinstance(m, ast.FunctionDef) and (_eligible(m, self.anchored) or _eligible_generator(m, self.anchored) is not None):
                            yield n.body, m
        for _ in range(3):
            removed = False
            for holder, fn in list(eligible_defs()):
                used = False
                for x in ast.walk(self.tree):
                    if _inside_def(x, fn):
                        continue
                    if (isinstance(x, ast.Name) and x.id == fn.name) or (isinstance(x, ast.Attribute) and x.attr == fn.name) or \
                            (isinstance(x, ast.Constant) and isinstance(x.value, str) and x.value == fn.name):
                        used = True
                        break
                if not used and fn in holder:
                    holder.remove(fn)
                    if not holder:
                        holder.append(ast.copy_location(ast.Pass(), fn))
                    removed = True
            if not removed:
                break

    def _block(self, stmts, cls, selfname, owner):
        out = []
        for st in stmts:
            out.extend(self._stmt(st, cls, selfname, owner))
        return out

    def _stmt(self, st, cls, selfname, owner):
        # recurse into compound statements first
        for field in ("body", "orelse", "finalbody"):
            blk = getattr(st, field, None)
            if isinstance(blk, list) and blk and isinstance(blk[0], ast.stmt):
                setattr(st, field, self._block(blk, cls, selfname, owner))
        if isinstance(st, ast.Try):
            for h in st.handlers:
                h.body = self._block(h.body, cls, selfname, owner)
        if isinstance(st, (ast.FunctionDef, ast.AsyncFunctionDef, ast.ClassDef)):
            return [st]
        if isinstance(st, ast.For) and not st.orelse and isinstance(st.iter, ast.Call):
            rep = self._inline_generator(st, cls, selfname, owner)
            if rep is not None:
                return rep
        # `x = A if c else B` with a helper call inside A or B: the same statement as `if c: x = A` / `else: x = B`
        if isinstance(st, (ast.Assign, ast.Return)) and isinstance(st.value, ast.IfExp) and (
                self._has_target(st.value.body, cls, selfname, owner) or self._has_target(st.value.orelse, cls, selfname, owner)):
            a, b = copy.copy(st), copy.copy(st)
            a.value, b.value = st.value.body, st.value.orelse
            if isinstance(st, ast.Assign):
                b.targets = copy.deepcopy(st.targets)
            new = ast.copy_location(ast.If(test=st.value.test, body=[a], orelse=[b]), st)
            return self._stmt(new, cls, selfname, owner)
        # `acc.append(A if c else B)` with a helper call inside A or B: `if c: acc.append(A)` / `else: acc.append(B)`
        if (isinstance(st, ast.Expr) and isinstance(st.value, ast.Call) and len(st.value.args) == 1 and not st.value.keywords
                and isinstance(st.value.args[0], ast.IfExp) and isinstance(st.value.func, ast.Attribute) and _call_free(st.value.func.value)
                and (self._has_target(st.value.args[0].body, cls, selfname, owner) or self._has_target(st.value.args[0].orelse, cls, selfname, owner))):
            cond = st.value.args[0]
            a, b = copy.deepcopy(st), copy.deepcopy(st)
            a.value.args, b.value.args = [cond.body], [copy.deepcopy(cond.orelse)]
            new = ast.copy_location(ast.If(test=cond.test, body=[a], orelse=[b]), st)
            return self._stmt(new, cls, selfname, owner)
        # `if A and B(helper(..)): X [else: Y]`: the helper call sits behind a short circuit; as nested ifs it is the test of its own
        # statement (Y is repeated, so only small else blocks)
        if (isinstance(st, ast.If) and isinstance(st.test, ast.BoolOp) and isinstance(st.test.op, ast.And) and len(st.test.values) >= 2
                and not self._has_target(st.test.values[0], cls, selfname, owner)
                and any(self._has_target(v, cls, selfname, owner) for v in st.test.values[1:])
                and sum(1 for s_ in st.orelse for _ in ast.walk(s_)) <= 40):
            rest = st.test.values[1:]
            inner_test = rest[0] if len(rest) == 1 else ast.copy_location(ast.BoolOp(op=ast.And(), values=rest), st.test)
            inner = ast.copy_location(ast.If(test=inner_test, body=st.body, orelse=copy.deepcopy(st.orelse)), st)
            outer = ast.copy_location(ast.If(test=st.test.values[0], body=[inner], orelse=st.orelse), st)
            ast.fix_missing_locations(outer)
            return self._stmt(outer, cls, selfname, owner)
        # expressions evaluated exactly once, before the statement's own effect
        if isinstance(st, (ast.Assign, ast.AnnAssign, ast.AugAssign, ast.Return, ast.Expr)):
            holder, field = st, "value"
        elif isinstance(st, ast.If):
            holder, field = st, "test"
        elif isinstance(st, ast.For):
            holder, field = st, "iter"  # the iterable is evaluated once, before the first round
        else:
            return [st]
        expr = getattr(holder, field)
        if expr is None:
            return [st]
        pre = []
        new_expr = self._expr(expr, cls, selfname, owner, pre)
        if pre:
            setattr(holder, field, new_expr)
            return pre + [st]
        return [st]

    def _expr(self, e, cls, selfname, owner, pre):
        """Replace eligible helper calls in strictly-evaluated positions of expression e; append hoisted statements to pre."""
        if isinstance(e, ast.Call) and len(e.args) == 1 and not e.keywords and isinstance(e.args[0], ast.Call) and self._is_gen_call(e.args[0], cls, selfname, owner):
            f = e.func
            consumer = (isinstance(f, ast.Name) and f.id in ("list", "tuple", "dict", "set", "sorted", "sum", "any", "all", "max", "min")) or \
                (isinstance(f, ast.Attribute) and f.attr in ("join", "extend", "update"))
            if consumer:
                # consumer(gen(..)): collect what the generator yields in a list first (same order, same laziness towards the
                # outside: the consumer would have drained it anyway), then the for loop over the generator is inlined
                self.counter += 1
                tag = f"{_PREFIX}{self.counter}_"
                acc, item = tag + "acc", tag + "item"
                init = _assign(acc, ast.List(elts=[], ctx=ast.Load()), e)
                app = ast.Expr(value=ast.Call(func=ast.Attribute(value=ast.Name(id=acc, ctx=ast.Load()), attr="append", ctx=ast.Load()),
                                              args=[ast.Name(id=item, ctx=ast.Load())], keywords=[]))
                loop = ast.For(target=ast.Name(id=item, ctx=ast.Store()), iter=e.args[0], body=[app], orelse=[])
                for s_ in (init, loop):
                    ast.copy_location(s_, e)
                    ast.fix_missing_locations(s_)
                pre.append(init)
                pre.extend(self._stmt(loop, cls, selfname, owner))
                e.args = [ast.copy_location(ast.Name(id=acc, ctx=ast.Load()), e)]
                if isinstance(f, ast.Attribute):
                    f.value = self._expr(f.value, cls, selfname, owner, pre)
                return e
        if isinstance(e, ast.Call):
            # a generator expression consumed whole by join / list / tuple / sum is a list comprehension
            if (len(e.args) == 1 and not e.keywords and isinstance(e.args[0], ast.GeneratorExp)
                    and ((isinstance(e.func, ast.Attribute) and e.func.attr == "join")
                         or (isinstance(e.func, ast.Name) and e.func.id in ("list", "tuple", "sum", "sorted", "bytes", "bytearray")))):
                g = e.args[0]
                self._unstar(g, cls, selfname)
                if len(g.generators) == 1 and not g.generators[0].is_async and self._has_target(g.elt, cls, selfname, owner):
                    e.args[0] = ast.copy_location(ast.ListComp(elt=g.elt, generators=g.generators), g)
            # arguments first (left to right)
            if isinstance(e.func, ast.Attribute):
                e.func.value = self._expr(e.func.value, cls, selfname, owner, pre)
            e.args = [self._expr(a, cls, selfname, owner, pre) for a in e.args]
            for k in e.keywords:
                k.value = self._expr(k.value, cls, selfname, owner, pre)
            tgt = self._target(e, cls, selfname)
            if tgt is not None and tgt[0] is not owner:
                rep = self._inline_call(e, tgt[0], tgt[1], pre)
                if rep is not None:
                    return rep
            return e
        if isinstance(e, ast.ListComp):
            self._unstar(e, cls, selfname)
        if (isinstance(e, ast.ListComp) and len(e.generators) == 1 and not e.generators[0].is_async and not e.generators[0].ifs
                and isinstance(e.generators[0].iter, (ast.Tuple, ast.List)) and 0 < len(e.generators[0].iter.elts) <= 8
                and isinstance(e.generators[0].target, ast.Name) and self._has_target(e.elt, cls, selfname, owner)):
            # [f(x) for x in (A, B)]  ->  [f(A), f(B)]   (then the helper calls are inlined one after the other)
            name = e.generators[0].target.id
            elts = []
            for row in e.generators[0].iter.elts:
                class Sub(ast.NodeTransformer):
                    def visit_Name(self_, n):
                        if n.id == name and isinstance(n.ctx, ast.Load):
                            return ast.copy_location(copy.deepcopy(row), n)
                        return n
                elts.append(Sub().visit(copy.deepcopy(e.elt)))
            new = ast.copy_location(ast.List(elts=elts, ctx=ast.Load()), e)
            ast.fix_missing_locations(new)
            return self._expr(new, cls, selfname, owner, pre)
        if isinstance(e, ast.ListComp) and len(e.generators) == 1 and not e.generators[0].is_async and self._has_target(e.elt, cls, selfname, owner):
            # [E(helper(..)) for v in IT if c]  ->  acc = []; for v in IT: if c: acc.append(E(..))   (then the helper is inlined in the loop body)
            gen = e.generators[0]
            self.counter += 1
            tag = f"{_PREFIX}{self.counter}_"
            acc = tag + "acc"
            names = {x.id for x in ast.walk(gen.target) if isinstance(x, ast.Name)}
            rn = _Rename({n: tag + n for n in names})
            target = rn.visit(copy.deepcopy(gen.target))
            elt = rn.visit(copy.deepcopy(e.elt))
            ifs = [rn.visit(copy.deepcopy(c)) for c in gen.ifs]
            it = self._expr(gen.iter, cls, selfname, owner, pre)
            app = ast.Expr(value=ast.Call(func=ast.Attribute(value=ast.Name(id=acc, ctx=ast.Load()), attr="append", ctx=ast.Load()), args=[elt], keywords=[]))
            body = [app]
            for c in reversed(ifs):
                body = [ast.If(test=c, body=body, orelse=[])]
            loop = ast.For(target=target, iter=it, body=body, orelse=[])
            init = _assign(acc, ast.List(elts=[], ctx=ast.Load()), e)
            for s_ in (init, loop):
                ast.copy_location(s_, e)
                ast.fix_missing_locations(s_)
            loop.body = self._block(loop.body, cls, selfname, owner)
            pre.extend([init, loop])
            return ast.copy_location(ast.Name(id=acc, ctx=ast.Load()), e)
        if (isinstance(e, ast.DictComp) and len(e.generators) == 1 and not e.generators[0].is_async
                and (self._has_target(e.key, cls, selfname, owner) or self._has_target(e.value, cls, selfname, owner))):
            # {K(helper(..)): V(helper(..)) for v in IT if c}  ->  acc = {}; for v in IT: if c: acc[K] = V
            gen = e.generators[0]
            self.counter += 1
            tag = f"{_PREFIX}{self.counter}_"
            acc = tag + "acc"
            names = {x.id for x in ast.walk(gen.target) if isinstance(x, ast.Name)}
            rn = _Rename({n: tag + n for n in names})
            target = rn.visit(copy.deepcopy(gen.target))
            key = rn.visit(copy.deepcopy(e.key))
            value = rn.visit(copy.deepcopy(e.value))
            ifs = [rn.visit(copy.deepcopy(c)) for c in gen.ifs]
            it = self._expr(gen.iter, cls, selfname, owner, pre)
            # Python evaluates the key before the value
            ktmp = tag + "key"
            body = [_assign(ktmp, key, e),
                    ast.Assign(targets=[ast.Subscript(value=ast.Name(id=acc, ctx=ast.Load()), slice=ast.Name(id=ktmp, ctx=ast.Load()), ctx=ast.Store())], value=value)]
            for c in reversed(ifs):
                body = [ast.If(test=c, body=body, orelse=[])]
            loop = ast.For(target=target, iter=it, body=body, orelse=[])
            init = _assign(acc, ast.Dict(keys=[], values=[]), e)
            for s_ in (init, loop):
                ast.copy_location(s_, e)
                ast.fix_missing_locations(s_)
            loop.body = self._block(loop.body, cls, selfname, owner)
            pre.extend([init, loop])
            return ast.copy_location(ast.Name(id=acc, ctx=ast.Load()), e)
        if isinstance(e, (ast.BoolOp, ast.IfExp, ast.Lambda, ast.ListComp, ast.SetComp, ast.DictComp, ast.GeneratorExp, ast.NamedExpr,
                          ast.Yield, ast.YieldFrom, ast.Await)):
            # conditionally / repeatedly evaluated parts: only the first operand of a BoolOp and the test of an IfExp are strict
            if isinstance(e, ast.BoolOp) and e.values:
                e.values[0] = self._expr(e.values[0], cls, selfname, owner, pre)
            elif isinstance(e, ast.IfExp):
                e.test = self._expr(e.test, cls, selfname, owner, pre)
            elif isinstance(e, (ast.Yield, ast.Await)) and e.value is not None:
                e.value = self._expr(e.value, cls, selfname, owner, pre)
            return e
        for field, val in ast.iter_fields(e):
            if isinstance(val, ast.expr):
                setattr(e, field, self._expr(val, cls, selfname, owner, pre))
            elif isinstance(val, list):
                setattr(e, field, [self._expr(v, cls, selfname, owner, pre) if isinstance(v, ast.expr) else v for v in val])
        return e

    def _inline_generator(self, st: ast.For, cls, selfname, owner):
        call = st.iter
        f = call.func
        fn, receiver = None, None
        if any(isinstance(a, ast.Starred) for a in call.args) or any(k.arg is None for k in call.keywords):
            return None
        is_local = False
        if isinstance(f, ast.Name) and f.id in self.local_funcs:
            fn = self.local_funcs[f.id]
            is_local = True
        elif isinstance(f, ast.Name) and f.id in self.mod_funcs:
            fn = self.mod_funcs[f.id]
        elif isinstance(f, ast.Attribute) and isinstance(f.value, ast.Name) and selfname is not None and f.value.id == selfname and cls is not None:
            fn = self._lookup_method(cls, f.attr)
            receiver = f.value
        if fn is None or fn is owner:
            return None
        shape = _eligible_generator(fn, self.anchored, local=is_local)
        if shape is None:
            return None
        params = [a.arg for a in fn.args.posonlyargs + fn.args.args]
        sname = None
        if receiver is not None:
            if not params:
                return None
            sname, params_rest = params[0], params[1:]
        else:
            params_rest = params
        if len(call.args) > len(params_rest):
            return None
        bound = dict(zip(params_rest, call.args))
        for k in call.keywords:
            if k.arg not in params_rest or k.arg in bound:
                return None
            bound[k.arg] = k.value
        nd = len(fn.args.defaults)
        for i, p in enumerate(params):
            if p == sname or p in bound:
                continue
            j = i - (len(params) - nd)
            if 0 <= j < nd:
                bound[p] = copy.deepcopy(fn.args.defaults[j])
            else:
                return None
        # the consumer's body runs in place of the yield: its `continue` would skip what follows the yield in the generator;
        # guard-clause continues (`if c: ...; continue` at statement level) are first rewritten as if / else
        if any(isinstance(x, ast.Continue) for s_ in st.body for x in _walk_loop_own(s_)):
            rewritten = _continue_free(copy.deepcopy(st.body))
            if rewritten is not None:
                st = ast.copy_location(ast.For(target=st.target, iter=st.iter, body=rewritten or [ast.copy_location(ast.Pass(), st)], orelse=st.orelse), st)
                ast.fix_missing_locations(st)
        body_has_continue = any(isinstance(x, ast.Continue) for s_ in st.body for x in _walk_loop_own(s_))
        gbody = copy.deepcopy(_strip_doc(fn.body))
        gloop = gbody[-1] if isinstance(shape, (ast.While, ast.For)) else None
        if gloop is None and any(isinstance(x, (ast.Break, ast.Continue)) for s_ in st.body for x in _walk_loop_own(s_)):
            return None
        self.counter += 1
        tag = f"{_PREFIX}{self.counter}_"
        local_names = set()
        for n in gbody:
            for x in _walk_own(n):
                if isinstance(x, ast.Name) and isinstance(x.ctx, (ast.Store, ast.Del)):
                    local_names.add(x.id)
        if sname is not None and sname in local_names:
            return None
        mapping = {n: tag + n for n in local_names | set(params_rest)}
        rn = _Rename(mapping, sname, receiver)
        gbody = [rn.visit(s_) for s_ in gbody]
        ok = [True]
        consumer = st

        def place(stmts, in_loop_tail):
            """Replace `yield E` statements by `target = E; BODY` and bare `return` by `break`."""
            out = []
            for i, s_ in enumerate(stmts):
                if isinstance(s_, ast.Expr) and isinstance(s_.value, ast.Yield):
                    if body_has_continue and not (in_loop_tail and i == len(stmts) - 1):
                        ok[0] = False
                    val = s_.value.value if s_.value.value is not None else ast.Constant(value=None)
                    out.append(ast.copy_location(ast.Assign(targets=[copy.deepcopy(consumer.target)], value=val), s_))
                    out.extend(copy.deepcopy(consumer.body))
                elif isinstance(s_, ast.Return):
                    out.append(ast.copy_location(ast.Break(), s_))
                elif isinstance(s_, ast.If):
                    s_.body = place(s_.body, False)
                    s_.orelse = place(s_.orelse, False)
                    out.append(s_)
                elif isinstance(s_, (ast.While, ast.For)) and s_ is gloop:
                    s_.body = place(s_.body, True)
                    out.append(s_)
                else:
                    if any(isinstance(x, (ast.Yield, ast.Return)) for x in _walk_own(s_)):
                        ok[0] = False
                    out.append(s_)
            return out

        new_body = place(gbody, False)
        if not ok[0]:
            return None
        binds = [_assign(mapping[p], bound[p], call) for p in params_rest]
        res = binds + new_body
        for s_ in res:
            ast.fix_missing_locations(s_)
        self.done += 1
        # helper calls inside the placed consumer body / generator body are handled by the next pass
        return res

    def _is_gen_call(self, call, cls, selfname, owner) -> bool:
        f = call.func
        fn, local = None, False
        if isinstance(f, ast.Name) and f.id in self.local_funcs:
            fn, local = self.local_funcs[f.id], True
        elif isinstance(f, ast.Name) and f.id in self.mod_funcs:
            fn = self.mod_funcs[f.id]
        elif isinstance(f, ast.Attribute) and isinstance(f.value, ast.Name) and selfname is not None and f.value.id == selfname and cls is not None:
            fn = self._lookup_method(cls, f.attr)
        return fn is not None and fn is not owner and _eligible_generator(fn, self.anchored, local=local) is not None

    def _unstar(self, comp, cls, selfname):
        """[f(*row) for row in IT]  ->  [f(a, b, c) for (a, b, c) in IT]  when f is a helper with exactly that many positional
        parameters and `row` is used nowhere else (then the call can be inlined like any other)."""
        if len(comp.generators) != 1 or not isinstance(comp.generators[0].target, ast.Name):
            return
        gen = comp.generators[0]
        v = gen.target.id
        uses = [x for part in [comp.elt] + list(gen.ifs) for x in ast.walk(part) if isinstance(x, ast.Name) and x.id == v]
        calls = [x for x in ast.walk(comp.elt) if isinstance(x, ast.Call) and len(x.args) == 1 and isinstance(x.args[0], ast.Starred)
                 and isinstance(x.args[0].value, ast.Name) and x.args[0].value.id == v and not x.keywords]
        if len(uses) != 1 or len(calls) != 1:
            return
        call = calls[0]
        probe = ast.Call(func=call.func, args=[], keywords=[])
        t = self._target(probe, cls, selfname)
        if t is None:
            return
        fn, receiver = t
        a = fn.args
        if a.vararg or a.kwarg or a.kwonlyargs or a.defaults:
            return
        n = len(a.posonlyargs + a.args) - (1 if receiver is not None else 0)
        if not 1 <= n <= 8:
            return
        self.counter += 1
        names = [f"{_PREFIX}{self.counter}_{v}{i}" for i in range(n)]
        gen.target = ast.copy_location(ast.Tuple(elts=[ast.Name(id=x, ctx=ast.Store()) for x in names], ctx=ast.Store()), gen.target)
        call.args = [ast.copy_location(ast.Name(id=x, ctx=ast.Load()), call) for x in names]
        ast.fix_missing_locations(gen.target)

    def _has_target(self, e, cls, selfname, owner) -> bool:
        for x in _walk_own(e):
            if isinstance(x, ast.Call):
                t = self._target(x, cls, selfname)
                if t is not None and t[0] is not owner:
                    return True
        return False

    def _inline_call(self, call, fn, receiver, pre):
        params = [a.arg for a in fn.args.posonlyargs + fn.args.args]
        defaults = fn.args.defaults
        selfname = None
        if receiver is not None:
            selfname, params_rest = params[0], params[1:]
        else:
            params_rest = params
        # bind arguments
        bound = {}
        if len(call.args) > len(params_rest):
            return None
        for p, a in zip(params_rest, call.args):
            bound[p] = a
        for k in call.keywords:
            if k.arg not in params_rest or k.arg in bound:
                return None
            bound[k.arg] = k.value
        nd = len(defaults)
        for i, p in enumerate(params):
            if p == selfname or p in bound:
                continue
            j = i - (len(params) - nd)
            if 0 <= j < nd:
                bound[p] = copy.deepcopy(defaults[j])
            else:
                return None
        self.counter += 1
        tag = f"{_PREFIX}{self.counter}_"
        ret = tag + "ret"
        body = copy.deepcopy(_strip_doc(fn.body))
        # the receiver parameter must not be re-bound inside the helper
        local_names = set()
        for n in body:
            for x in _walk_own(n):
                if isinstance(x, ast.Name) and isinstance(x.ctx, (ast.Store, ast.Del)):
                    local_names.add(x.id)
                elif isinstance(x, ast.ExceptHandler) and x.name:
                    local_names.add(x.name)
        if selfname is not None and selfname in local_names:
            return None
        # a lambda inside the helper must not capture the helper's own variables (they are renamed, the lambda is not)
        own = local_names | set(params_rest)
        for n in body:
            for lam in ast.walk(n):
                if isinstance(lam, ast.Lambda):
                    largs = {a.arg for a in lam.args.posonlyargs + lam.args.args + lam.args.kwonlyargs}
                    free = {x.id for x in ast.walk(lam.body) if isinstance(x, ast.Name)} - largs
                    if free & own:
                        return None
        mapping = {n: tag + n for n in local_names | set(params_rest)}
        try:
            new_body = _elim(body, [], ret, call)
        except _NotEligible:
            return None
        except RecursionError:
            return None
        rn = _Rename(mapping, selfname, receiver)
        new_body = [rn.visit(s) for s in new_body]
        binds = [_assign(mapping[p], bound[p], call) for p in params_rest]
        for s in binds + new_body:
            ast.fix_missing_locations(s)
        pre.extend(binds + new_body)
        self.done += 1
        return ast.copy_location(ast.Name(id=ret, ctx=ast.Load()), call)


def inline_helpers(tree: ast.Module, anchored=None, relpath=None) -> int:
    """Inline transparent private helpers in place; returns the number of call sites rewritten."""
    if anchored is None:
        anchored = anchored_names(relpath)
    try:
        n = _Inliner(tree, anchored).run()
    except RecursionError:
        return 0
    if n:
        ast.fix_missing_locations(tree)
    return n


# ---------------------------------------------------------------------------------------------------------------------
# counted-loop normalisation


def _leading_break(body):
    """`if c: break` as the first statement (after a docstring-free body) -> c"""
    if body and isinstance(body[0], ast.If) and not body[0].orelse and len(body[0].body) == 1 and isinstance(body[0].body[0], ast.Break):
        return body[0].test
    return None


def _negate(test):
    if isinstance(test, ast.Compare) and len(test.ops) == 1:
        flip = {ast.Lt: ast.GtE, ast.LtE: ast.Gt, ast.Gt: ast.LtE, ast.GtE: ast.Lt, ast.Eq: ast.NotEq, ast.NotEq: ast.Eq}
        op = type(test.ops[0])
        if op in flip:
            return ast.copy_location(ast.Compare(left=test.left, ops=[flip[op]()], comparators=test.comparators), test)
    if isinstance(test, ast.UnaryOp) and isinstance(test.op, ast.Not):
        return test.operand
    return ast.copy_location(ast.UnaryOp(op=ast.Not(), operand=test), test)


class _LoopNorm(ast.NodeTransformer):
    """`for v in range(a, b): if c: break; BODY`  ->  `v = a; while not c and v < b: BODY; v += 1`
    `for x in SEQ[a:]: if c: break; BODY`          ->  `i = a; while not c and i < len(SEQ): x = SEQ[i]; BODY; i += 1`

    Only the counted-while idiom (a leading conditional break, no `continue`, no `else`, the counter not assigned in the body)
    is rewritten: there the two spellings are the same loop, and the rules describe it once, as a while loop."""

    def __init__(self):
        self.n = 0

    def visit_For(self, node: ast.For):
        self.generic_visit(node)
        c = _leading_break(node.body)
        if c is None or node.orelse:
            return node
        body = node.body[1:]
        for st in body:
            for x in _walk_loop_own(st):
                if isinstance(x, ast.Continue):
                    return node
        it = node.iter
        stores = {x.id for st in body for x in _walk_own(st) if isinstance(x, ast.Name) and isinstance(x.ctx, ast.Store)}
        loc = node

        def L(n):
            return ast.copy_location(n, loc)

        if (isinstance(it, ast.Call) and isinstance(it.func, ast.Name) and it.func.id == "range" and not it.keywords
                and 1 <= len(it.args) <= 2 and isinstance(node.target, ast.Name) and node.target.id not in stores):
            lo = it.args[0] if len(it.args) == 2 else ast.Constant(value=0)
            hi = it.args[-1]
            v = node.target.id
            init = L(ast.Assign(targets=[L(ast.Name(id=v, ctx=ast.Store()))], value=lo))
            test = L(ast.BoolOp(op=ast.And(), values=[_negate(c), L(ast.Compare(left=L(ast.Name(id=v, ctx=ast.Load())), ops=[ast.Lt()], comparators=[hi]))]))
            step = L(ast.AugAssign(target=L(ast.Name(id=v, ctx=ast.Store())), op=ast.Add(), value=L(ast.Constant(value=1))))
            self.n += 1
            return [init, L(ast.While(test=test, body=body + [step], orelse=[]))]
        seq, lo = None, None
        if isinstance(it, ast.Subscript) and isinstance(it.slice, ast.Slice) and it.slice.upper is None and it.slice.step is None and it.slice.lower is not None:
            seq, lo = it.value, it.slice.lower
        if seq is not None and isinstance(seq, (ast.Name, ast.Attribute)):
            self.n += 1
            i = f"{_PREFIX}i{self.n}"
            init = L(ast.Assign(targets=[L(ast.Name(id=i, ctx=ast.Store()))], value=lo))
            ln = L(ast.Call(func=L(ast.Name(id="len", ctx=ast.Load())), args=[copy.deepcopy(seq)], keywords=[]))
            test = L(ast.BoolOp(op=ast.And(), values=[_negate(c), L(ast.Compare(left=L(ast.Name(id=i, ctx=ast.Load())), ops=[ast.Lt()], comparators=[ln]))]))
            cur = L(ast.Assign(targets=[node.target], value=L(ast.Subscript(value=copy.deepcopy(seq), slice=L(ast.Name(id=i, ctx=ast.Load())), ctx=ast.Load()))))
            step = L(ast.AugAssign(target=L(ast.Name(id=i, ctx=ast.Store())), op=ast.Add(), value=L(ast.Constant(value=1))))
            return [init, L(ast.While(test=test, body=[cur] + body + [step], orelse=[]))]
        return node


def _walk_loop_own(node):
    """Nodes of a statement excluding nested loops (whose break / continue belong to them) and nested scopes."""
    stack = [node]
    while stack:
        n = stack.pop()
        yield n
        for c in ast.iter_child_nodes(n):
            if isinstance(c, (ast.For, ast.While, ast.AsyncFor, ast.FunctionDef, ast.AsyncFunctionDef, ast.ClassDef, ast.Lambda)):
                continue
            stack.append(c)


def normalise_loops(tree: ast.Module) -> int:
    t = _LoopNorm()
    t.visit(tree)
    if t.n:
        ast.fix_missing_locations(tree)
    return t.n


# ---------------------------------------------------------------------------------------------------------------------
# table-driven search loops


class _TableSearch(ast.NodeTransformer):
    """`for a, b in TABLE: if test(a): BODY(b); break` [`else: E`] over a small literal table (a module-level tuple / list of
    tuples, or a literal in place) is the if / elif chain over its rows: unroll it, so that table-driven and spelled-out
    dispatch are one shape."""

    MAX_ROWS = 12

    def __init__(self, tree):
        self.n = 0
        self.tables = {}
        for st in tree.body:
            if isinstance(st, ast.Assign) and len(st.targets) == 1 and isinstance(st.targets[0], ast.Name) and isinstance(st.value, (ast.Tuple, ast.List)):
                self.tables[st.targets[0].id] = st.value
        # a table that is re-assigned is not a constant
        counts = {}
        for n in ast.walk(tree):
            if isinstance(n, ast.Name) and isinstance(n.ctx, ast.Store):
                counts[n.id] = counts.get(n.id, 0) + 1
        self.tables = {k: v for k, v in self.tables.items() if counts.get(k, 0) == 1}
        self.local_tables = {}

    def visit_FunctionDef(self, node: ast.FunctionDef):
        # a local literal table: one plain assignment of a tuple / list of constants in this function, never touched otherwise
        saved = self.local_tables
        self.local_tables = dict(saved)
        stores, cands = {}, {}
        for x in _walk_own_deep(node):
            if isinstance(x, ast.Name) and isinstance(x.ctx, (ast.Store, ast.Del)):
                stores[x.id] = stores.get(x.id, 0) + 1
        for a in node.args.posonlyargs + node.args.args + node.args.kwonlyargs:
            stores[a.arg] = stores.get(a.arg, 0) + 1
        for st in node.body:
            if (isinstance(st, ast.Assign) and len(st.targets) == 1 and isinstance(st.targets[0], ast.Name) and isinstance(st.value, (ast.Tuple, ast.List))
                    and all(isinstance(e, ast.Constant) or (isinstance(e, (ast.Tuple, ast.List)) and all(isinstance(y, ast.Constant) for y in e.elts))
                            for e in st.value.elts)):
                cands[st.targets[0].id] = st.value
            elif (isinstance(st, ast.Assign) and len(st.targets) == 1 and isinstance(st.targets[0], ast.Name) and isinstance(st.value, ast.Tuple)
                    and st.value.elts and all(_pure_row(e) for e in st.value.elts)
                    and all(stores.get(x.id, 0) <= 1 for e in st.value.elts for x in ast.walk(e) if isinstance(x, ast.Name))):
                # rows computed from single-assignment locals / parameters (candidate paths, say): evaluating a row where the loop
                # uses it gives the same value, and `/`, attribute reads and arithmetic on them have no effects
                cands[st.targets[0].id] = st.value
        for k, v in cands.items():
            uses = [x for x in _walk_own_deep(node) if isinstance(x, ast.Name) and x.id == k and isinstance(x.ctx, ast.Load)]
            only_iterated = True
            for x in _walk_own_deep(node):
                if isinstance(x, ast.Attribute) and isinstance(x.value, ast.Name) and x.value.id == k:
                    only_iterated = False  # a method call could mutate it
            if stores.get(k, 0) == 1 and only_iterated and isinstance(v, ast.Tuple):
                self.local_tables[k] = v
        self.generic_visit(node)
        self.local_tables = saved
        return node

    def visit_For(self, node: ast.For):
        self.generic_visit(node)
        it = node.iter
        rows = None
        if isinstance(it, ast.Name) and it.id in self.local_tables:
            rows = self.local_tables[it.id].elts
        elif isinstance(it, ast.Name) and it.id in self.tables:
            rows = self.tables[it.id].elts
        elif isinstance(it, (ast.Tuple, ast.List)):
            rows = it.elts
        if rows is None or not (0 < len(rows) <= self.MAX_ROWS):
            return node
        if len(node.body) != 1 or not isinstance(node.body[0], ast.If) or node.body[0].orelse:
            return node
        inner = node.body[0]
        if not inner.body or not isinstance(inner.body[-1], (ast.Break, ast.Return)):
            return node
        leaves_by_return = isinstance(inner.body[-1], ast.Return)
        for st in inner.body[:-1]:
            for x in _walk_loop_own(st):
                if isinstance(x, (ast.Break, ast.Continue)):
                    return node
        tgt = node.target
        names = [tgt.id] if isinstance(tgt, ast.Name) else [e.id for e in tgt.elts if isinstance(e, ast.Name)] if isinstance(tgt, (ast.Tuple, ast.List)) else None
        if not names or (isinstance(tgt, (ast.Tuple, ast.List)) and len(names) != len(tgt.elts)):
            return node
        # targets must not be assigned inside the body
        for st in inner.body:
            for x in _walk_own(st):
                if isinstance(x, ast.Name) and isinstance(x.ctx, ast.Store) and x.id in names:
                    return node
        chain = None
        for row in reversed(rows):
            if isinstance(tgt, ast.Name):
                vals = [row]
            else:
                if not isinstance(row, (ast.Tuple, ast.List)) or len(row.elts) != len(names):
                    return node
                vals = row.elts
            mp = dict(zip(names, vals))

            class Sub(ast.NodeTransformer):
                def visit_Name(self, n):
                    if isinstance(n.ctx, ast.Load) and n.id in mp:
                        return ast.copy_location(copy.deepcopy(mp[n.id]), n)
                    return n

            test = Sub().visit(copy.deepcopy(inner.test))
            keep = inner.body if leaves_by_return else inner.body[:-1]
            body = [Sub().visit(copy.deepcopy(s)) for s in keep] or [ast.copy_location(ast.Pass(), inner)]
            orelse = [chain] if chain is not None else copy.deepcopy(node.orelse)
            chain = ast.copy_location(ast.If(test=test, body=body, orelse=orelse), inner)
        self.n += 1
        return chain


def unroll_table_searches(tree: ast.Module) -> int:
    t = _TableSearch(tree)
    t.visit(tree)
    if t.n:
        ast.fix_missing_locations(tree)
    return t.n


# ---------------------------------------------------------------------------------------------------------------------
# logging statements


_LOGGERS = {"log", "logger", "logging", "LOG", "LOGGER", "_log", "_logger"}
_LOG_METHODS = {"debug", "info", "warning", "warn", "error", "exception", "critical", "log"}


def _is_log_stmt(st) -> bool:
    if not (isinstance(st, ast.Expr) and isinstance(st.value, ast.Call)):
        return False
    f = st.value.func
    if not (isinstance(f, ast.Attribute) and f.attr in _LOG_METHODS and isinstance(f.value, ast.Name) and f.value.id in _LOGGERS):
        return False
    # the arguments must not do anything themselves (no calls, no walrus, no await / yield)
    for a in list(st.value.args) + [k.value for k in st.value.keywords]:
        for x in ast.walk(a):
            if isinstance(x, (ast.Call, ast.NamedExpr, ast.Await, ast.Yield, ast.YieldFrom, ast.Lambda, ast.ListComp, ast.GeneratorExp, ast.DictComp, ast.SetComp)):
                return False
    return True


def _independent_parallel(targets, values) -> bool:
    """t1, t2 = e1, e2 assigns like t1 = e1; t2 = e2 when no later value reads what an earlier target stores."""
    for i, t in enumerate(targets):
        if isinstance(t, ast.Starred) or isinstance(t, (ast.Tuple, ast.List)):
            return False
        for e in values[i + 1:]:
            for x in ast.walk(e):
                if isinstance(t, ast.Name):
                    if isinstance(x, ast.Name) and x.id == t.id:
                        return False
                elif isinstance(t, ast.Attribute):
                    if isinstance(x, (ast.Call, ast.Await)) or (isinstance(x, ast.Attribute) and x.attr == t.attr):
                        return False
                else:
                    if isinstance(x, (ast.Call, ast.Await, ast.Subscript)):
                        return False
        # evaluating a later target must not depend on an earlier store either
        for t2 in targets[i + 1:]:
            for x in ast.walk(t2):
                if isinstance(t, ast.Name) and isinstance(x, ast.Name) and x.id == t.id and isinstance(x.ctx, ast.Load):
                    return False
    return True


def _pure_row(e) -> bool:
    return all(isinstance(x, (ast.Constant, ast.Name, ast.BinOp, ast.UnaryOp, ast.Tuple, ast.Attribute, ast.operator, ast.unaryop, ast.expr_context))
               for x in ast.walk(e))


class _ConstLoops(ast.NodeTransformer):
    """`for x in (A, B): BODY` over a short constant sequence (written in place or a module-level tuple bound once) whose body
    neither breaks nor continues is `BODY[x:=A]; BODY[x:=B]`; `[E(x) for x in (A, B)]` is `[E(A), E(B)]`.  Reading "both copies"
    in a loop and reading them one after the other become one shape."""

    MAX_ROWS = 4

    def __init__(self, tree):
        self.n = 0
        counts = {}
        for x in ast.walk(tree):
            if isinstance(x, ast.Name) and isinstance(x.ctx, ast.Store):
                counts[x.id] = counts.get(x.id, 0) + 1
        self.seqs = {}
        for st in tree.body:
            if isinstance(st, ast.Assign) and len(st.targets) == 1 and isinstance(st.targets[0], ast.Name) and isinstance(st.value, ast.Tuple) \
                    and counts.get(st.targets[0].id) == 1 and all(_pure_row(e) for e in st.value.elts):
                self.seqs[st.targets[0].id] = st.value
        self.fn = None

    def _rows(self, it):
        if isinstance(it, ast.Name) and it.id in self.seqs:
            it = self.seqs[it.id]
        if isinstance(it, (ast.Tuple, ast.List)) and 0 < len(it.elts) <= self.MAX_ROWS and all(_pure_row(e) and not isinstance(e, ast.Starred) for e in it.elts):
            return it.elts
        return None

    def visit_FunctionDef(self, node):
        saved = self.fn
        self.fn = node
        self.generic_visit(node)
        self.fn = saved
        return node

    @staticmethod
    def _subst(node, mp):
        class Sub(ast.NodeTransformer):
            def visit_Name(self_, n):
                if isinstance(n.ctx, ast.Load) and n.id in mp:
                    return ast.copy_location(copy.deepcopy(mp[n.id]), n)
                return n
        return Sub().visit(copy.deepcopy(node))

    def _bind(self, tgt, row):
        if isinstance(tgt, ast.Name):
            return {tgt.id: row}
        if isinstance(tgt, (ast.Tuple, ast.List)) and all(isinstance(e, ast.Name) for e in tgt.elts) and isinstance(row, (ast.Tuple, ast.List)) \
                and len(row.elts) == len(tgt.elts):
            return {e.id: v for e, v in zip(tgt.elts, row.elts)}
        return None

    def visit_For(self, node: ast.For):
        self.generic_visit(node)
        rows = self._rows(node.iter)
        if rows is None or node.orelse or self.fn is None:
            return node
        if len(node.body) > 8:
            return node
        for st in node.body:
            for x in _walk_loop_own(st):
                if isinstance(x, (ast.Break, ast.Continue)):
                    return node
            for x in ast.walk(st):
                if isinstance(x, (ast.For, ast.While, ast.FunctionDef, ast.Lambda, ast.Yield, ast.YieldFrom)):
                    return node
        binds = [self._bind(node.target, r) for r in rows]
        if any(b is None for b in binds):
            return node
        names = set(binds[0])
        for st in node.body:
            for x in ast.walk(st):
                if isinstance(x, ast.Name) and x.id in names and isinstance(x.ctx, (ast.Store, ast.Del)):
                    return node
        # the loop variable must not be read outside the loop
        inside = {id(x) for x in ast.walk(node)}
        for x in ast.walk(self.fn):
            if isinstance(x, ast.Name) and x.id in names and id(x) not in inside:
                return node
        out = []
        for mp in binds:
            for st in node.body:
                out.append(self._subst(st, mp))
        self.n += 1
        return out

    def visit_ListComp(self, node: ast.ListComp):
        self.generic_visit(node)
        if len(node.generators) != 1 or node.generators[0].is_async or node.generators[0].ifs:
            return node
        gen = node.generators[0]
        rows = self._rows(gen.iter)
        if rows is None:
            return node
        binds = [self._bind(gen.target, r) for r in rows]
        if any(b is None for b in binds):
            return node
        if any(isinstance(x, (ast.Lambda, ast.ListComp, ast.GeneratorExp, ast.NamedExpr)) for x in ast.walk(node.elt)):
            return node
        self.n += 1
        return ast.copy_location(ast.List(elts=[self._subst(node.elt, mp) for mp in binds], ctx=ast.Load()), node)


def unroll_constant_loops(tree: ast.Module) -> int:
    t = _ConstLoops(tree)
    t.visit(tree)
    if t.n:
        ast.fix_missing_locations(tree)
    return t.n


def fold_list_building(tree: ast.Module) -> int:
    """`X = []` followed, in the same block, by `X.append(a)` ... `X.append(b)` with nothing else touching X in between is
    `t1 = a` ... `t2 = b; X = [t1, t2]` (every value is still computed where it was; the list exists from the last append on)."""
    n = 0
    counter = [0]
    for node in ast.walk(tree):
        for fld in ("body", "orelse", "finalbody"):
            blk = getattr(node, fld, None)
            if not (isinstance(blk, list) and blk and isinstance(blk[0], ast.stmt)):
                continue
            i = 0
            while i < len(blk):
                st = blk[i]
                if (isinstance(st, (ast.Assign, ast.AnnAssign)) and (len(st.targets) == 1 if isinstance(st, ast.Assign) else st.value is not None)
                        and isinstance(st.value, ast.List) and not st.value.elts):
                    tgt = st.targets[0] if isinstance(st, ast.Assign) else st.target
                    if isinstance(tgt, (ast.Name, ast.Attribute)) and not any(isinstance(x, ast.Call) for x in ast.walk(tgt)):
                        key = ast.unparse(tgt)
                        apps = []
                        j = i + 1
                        while j < len(blk):
                            s2 = blk[j]
                            txt_hit = any((isinstance(x, (ast.Name, ast.Attribute)) and ast.unparse(x) == key) for x in ast.walk(s2))
                            is_app = (isinstance(s2, ast.Expr) and isinstance(s2.value, ast.Call) and isinstance(s2.value.func, ast.Attribute)
                                      and s2.value.func.attr == "append" and ast.unparse(s2.value.func.value) == key and len(s2.value.args) == 1
                                      and not s2.value.keywords
                                      and not any((isinstance(x, (ast.Name, ast.Attribute)) and ast.unparse(x) == key) for x in ast.walk(s2.value.args[0])))
                            if is_app:
                                apps.append(j)
                            elif txt_hit:
                                break
                            elif isinstance(s2, (ast.For, ast.While, ast.If, ast.Try, ast.With, ast.Return, ast.Raise, ast.FunctionDef)):
                                break
                            elif isinstance(tgt, ast.Attribute) and any(isinstance(x, ast.Call) and any(isinstance(y, ast.Name) and y.id == _root_name(tgt)
                                                                                                           for a in list(x.args) + [x.func] for y in ast.walk(a))
                                                                          for x in ast.walk(s2)):
                                break  # a call that gets hold of the owner object could look at the half-built list
                            j += 1
                        if len(apps) >= 2 and len(apps) <= 6:
                            counter[0] += 1
                            names = []
                            for k, idx in enumerate(apps):
                                nm = f"{_PREFIX}L{counter[0]}_{k}"
                                names.append(nm)
                                blk[idx] = _assign(nm, blk[idx].value.args[0], blk[idx])
                            lst = ast.List(elts=[ast.Name(id=x, ctx=ast.Load()) for x in names], ctx=ast.Load())
                            new = ast.copy_location(ast.Assign(targets=[copy.deepcopy(tgt)], value=lst), blk[apps[-1]])
                            blk.insert(apps[-1] + 1, new)
                            del blk[i]
                            n += 1
                            continue
                i += 1
    if n:
        ast.fix_missing_locations(tree)
    return n


def _root_name(e):
    while isinstance(e, ast.Attribute):
        e = e.value
    return e.id if isinstance(e, ast.Name) else None


def _memo_of_pure_call(f, fself, attr, mentions) -> bool:
    """Rewrite, in place, the memo of a pure library call

        K = (k1, .., kn)                                    v = F(k1, .., kn)
        if (v := self.C.get(K)) is None:          ==>       return v
            v = self.C[K] = F(k1, .., kn)
        return v

    (also with `v = self.C.get(K)` / `if v is None:` / `v = F(..)` / `self.C[K] = v` as separate statements).  Conditions: K is a
    local bound once to a tuple of plain names (or that tuple written in place), F is a function of an imported module (not a
    method of self) called with exactly those names, the table is mentioned nowhere else in the method."""
    def is_table(e):
        return isinstance(e, ast.Attribute) and e.attr == attr and isinstance(e.value, ast.Name) and e.value.id == fself

    def key_names(e, blk, idx):
        if isinstance(e, ast.Tuple) and all(isinstance(x, ast.Name) for x in e.elts):
            return [x.id for x in e.elts]
        if isinstance(e, ast.Name):
            defs = [s_ for s_ in ast.walk(f) if isinstance(s_, ast.Assign) and len(s_.targets) == 1 and isinstance(s_.targets[0], ast.Name) and s_.targets[0].id == e.id]
            if len(defs) == 1 and isinstance(defs[0].value, ast.Tuple) and all(isinstance(x, ast.Name) for x in defs[0].value.elts):
                return [x.id for x in defs[0].value.elts]
        return None

    def pure_call_of(e, names):
        if not (isinstance(e, ast.Call) and not e.keywords and all(isinstance(a, ast.Name) for a in e.args)):
            return False
        fn = e.func
        root = fn
        while isinstance(root, ast.Attribute):
            root = root.value
        if not (isinstance(fn, ast.Attribute) and isinstance(root, ast.Name) and root.id != fself):
            return False
        return [a.id for a in e.args] == names

    for holder in ast.walk(f):
        for fld in ("body", "orelse"):
            blk = getattr(holder, fld, None)
            if not (isinstance(blk, list) and blk and isinstance(blk[0], ast.stmt)):
                continue
            for i, st in enumerate(blk):
                if not (isinstance(st, ast.If) and not st.orelse and isinstance(st.test, ast.Compare) and len(st.test.ops) == 1
                        and isinstance(st.test.ops[0], ast.Is) and isinstance(st.test.comparators[0], ast.Constant) and st.test.comparators[0].value is None):
                    continue
                left = st.test.left
                pre_get = None
                if isinstance(left, ast.NamedExpr) and isinstance(left.target, ast.Name):
                    var, get = left.target.id, left.value
                elif isinstance(left, ast.Name) and i > 0 and isinstance(blk[i - 1], ast.Assign) and len(blk[i - 1].targets) == 1 \
                        and isinstance(blk[i - 1].targets[0], ast.Name) and blk[i - 1].targets[0].id == left.id:
                    var, get, pre_get = left.id, blk[i - 1].value, blk[i - 1]
                else:
                    continue
                if not (isinstance(get, ast.Call) and isinstance(get.func, ast.Attribute) and get.func.attr == "get" and is_table(get.func.value)
                        and len(get.args) == 1 and not get.keywords):
                    continue
                names = key_names(get.args[0], blk, i)
                if not names:
                    continue
                key_src = ast.unparse(get.args[0])
                # the body: v = self.C[K] = F(..)   |   v = F(..); self.C[K] = v
                value = None
                table_mentions = 1
                b = st.body
                if len(b) == 1 and isinstance(b[0], ast.Assign) and len(b[0].targets) == 2:
                    t1, t2 = b[0].targets
                    sub = t2 if isinstance(t1, ast.Name) else t1
                    nm = t1 if isinstance(t1, ast.Name) else t2
                    if isinstance(nm, ast.Name) and nm.id == var and isinstance(sub, ast.Subscript) and is_table(sub.value) and ast.unparse(sub.slice) == key_src:
                        value = b[0].value
                        table_mentions += 1
                elif len(b) == 2 and all(isinstance(x, ast.Assign) and len(x.targets) == 1 for x in b):
                    a1, a2 = b
                    if (isinstance(a1.targets[0], ast.Name) and a1.targets[0].id == var and isinstance(a2.targets[0], ast.Subscript)
                            and is_table(a2.targets[0].value) and ast.unparse(a2.targets[0].slice) == key_src
                            and isinstance(a2.value, ast.Name) and a2.value.id == var):
                        value = a1.value
                        table_mentions += 1
                if value is None or not pure_call_of(value, names) or mentions != table_mentions:
                    continue
                nxt = blk[i + 1] if i + 1 < len(blk) else None
                if not (isinstance(nxt, ast.Return) and isinstance(nxt.value, ast.Name) and nxt.value.id == var):
                    continue
                new = ast.copy_location(ast.Assign(targets=[ast.Name(id=var, ctx=ast.Store())], value=value), st)
                ast.fix_missing_locations(new)
                blk[i] = new
                if pre_get is not None:
                    blk.remove(pre_get)
                return True
    return False


def flatten_joined_sublists(tree: ast.Module) -> int:
    """`part = []` ... `part.append(e)` ... `out.append(b"".join(part))` (the shape an inlined helper that builds and returns its
    piece leaves behind): the pieces go to `out` directly.  Only when `part` is used for nothing else and `out` is not mentioned
    between the creation of `part` and the statement that joins it (concatenation is associative, the order stays the same)."""
    n = 0
    for fn in ast.walk(tree):
        if not isinstance(fn, (ast.FunctionDef, ast.AsyncFunctionDef)):
            continue
        changed = True
        while changed:
            changed = False
            parents = {id(c): p_ for p_ in ast.walk(fn) for c in ast.iter_child_nodes(p_)}
            for holder in ast.walk(fn):
                for fld in ("body", "orelse", "finalbody"):
                    blk = getattr(holder, fld, None)
                    if not (isinstance(blk, list) and blk and isinstance(blk[0], ast.stmt)):
                        continue
                    for i, st in enumerate(blk):
                        if not (isinstance(st, ast.Assign) and len(st.targets) == 1 and isinstance(st.targets[0], ast.Name)
                                and isinstance(st.value, ast.List) and not st.value.elts):
                            continue
                        part = st.targets[0].id
                        uses = [x for x in _walk_own_deep(fn) if isinstance(x, ast.Name) and x.id == part and x is not st.targets[0]]
                        apps, joins, ok = [], [], True
                        extra_del = []
                        for u in uses:
                            par = parents.get(id(u))
                            gp = parents.get(id(par)) if par is not None else None
                            if isinstance(par, ast.Attribute) and par.attr == "append" and isinstance(gp, ast.Call) and gp.func is par and len(gp.args) == 1 \
                                    and isinstance(parents.get(id(gp)), ast.Expr):
                                apps.append(gp)
                            elif (isinstance(par, ast.Call) and isinstance(par.func, ast.Attribute) and par.func.attr == "join" and isinstance(par.func.value, ast.Constant)
                                    and par.func.value.value == b"" and par.args == [u] and isinstance(gp, ast.Call) and isinstance(gp.func, ast.Attribute)
                                    and gp.func.attr == "append" and isinstance(gp.func.value, ast.Name) and gp.args == [par] and isinstance(parents.get(id(gp)), ast.Expr)):
                                joins.append(gp)
                            elif (isinstance(par, ast.Call) and isinstance(par.func, ast.Attribute) and par.func.attr == "join" and isinstance(par.func.value, ast.Constant)
                                    and par.func.value.value == b"" and par.args == [u] and isinstance(gp, ast.Assign) and len(gp.targets) == 1
                                    and isinstance(gp.targets[0], ast.Name) and gp.value is par and gp in blk):
                                # tmp = b"".join(part)  ...  out.append(tmp)   (tmp used for nothing else)
                                tmp = gp.targets[0].id
                                tuses = [x for x in _walk_own_deep(fn) if isinstance(x, ast.Name) and x.id == tmp and x is not gp.targets[0]]
                                if len(tuses) == 1:
                                    tp = parents.get(id(tuses[0]))
                                    tpp = parents.get(id(tp)) if tp is not None else None
                                    if (isinstance(tp, ast.Call) and isinstance(tp.func, ast.Attribute) and tp.func.attr == "append" and isinstance(tp.func.value, ast.Name)
                                            and tp.args == [tuses[0]] and isinstance(tpp, ast.Expr) and tpp in blk and blk.index(tpp) == blk.index(gp) + 1):
                                        joins.append(tp)
                                        extra_del.append(gp)
                                        continue
                                ok = False
                            else:
                                ok = False
                        if not ok or len(joins) != 1 or not apps:
                            continue
                        out = joins[0].func.value.id
                        if out == part:
                            continue
                        join_stmt = parents.get(id(joins[0]))
                        if join_stmt not in blk or blk.index(join_stmt) <= i:
                            continue
                        j = blk.index(join_stmt)
                        between = [s_ for s_ in blk[i + 1:j] if s_ not in extra_del]
                        if any(isinstance(x, ast.Name) and x.id == out for s_ in between for x in ast.walk(s_)):
                            continue
                        for a in apps:
                            a.func.value = ast.copy_location(ast.Name(id=out, ctx=ast.Load()), a.func.value)
                        del blk[j]
                        for x_ in extra_del:
                            if x_ in blk:
                                blk.remove(x_)
                        del blk[i]
                        n += 1
                        changed = True
                        break
                    if changed:
                        break
                if changed:
                    break
    if n:
        ast.fix_missing_locations(tree)
    return n


def normalise_memo_tables(tree: ast.Module) -> int:
    """A hand-written per-instance memo table is the `lru_cache` idiom the package uses:

        def __init__(..):  self._c = {}                      def __init__(..):  self.f = lru_cache(None)(self.f)
        def f(self, k):                                       def f(self, k):
            if k in self._c: return self._c[k]       ==>          v = <compute from k>
            v = <compute from k>                                  return v
            self._c[k] = v
            return v

    Recognised only when it is exactly that: the table is created empty, once, unconditionally in `__init__`, is an instance
    attribute (no class-level name of that spelling), is touched by `f` alone, is keyed by ALL parameters of `f`, every store puts
    the value that is returned right after under the key that was looked up, and nothing deletes from it.  A table that is shared
    between objects, keyed by part of the arguments or filled with something else stays what it is - a store on the read path."""
    n = 0
    for cls in ast.walk(tree):
        if not isinstance(cls, ast.ClassDef):
            continue
        methods = [m for m in cls.body if isinstance(m, ast.FunctionDef)]
        init = next((m for m in methods if m.name == "__init__"), None)
        if init is None or not init.args.args:
            continue
        class_names = {t.id for st in cls.body if isinstance(st, (ast.Assign, ast.AnnAssign))
                       for t in (st.targets if isinstance(st, ast.Assign) else [st.target]) if isinstance(t, ast.Name)}
        iself = init.args.args[0].arg
        for st in list(init.body):
            tgt = None
            if isinstance(st, ast.Assign) and len(st.targets) == 1:
                tgt, val = st.targets[0], st.value
            elif isinstance(st, ast.AnnAssign) and st.value is not None:
                tgt, val = st.target, st.value
            if not (isinstance(tgt, ast.Attribute) and isinstance(tgt.value, ast.Name) and tgt.value.id == iself and isinstance(val, ast.Dict) and not val.keys):
                continue
            attr = tgt.attr
            if attr in class_names:
                continue
            # every other mention of the attribute in the class
            users = {}
            ok = True
            for m in methods:
                for x in ast.walk(m):
                    if isinstance(x, ast.Attribute) and x.attr == attr and not (m is init and x is tgt):
                        users.setdefault(m.name, []).append(x)
            for x in ast.walk(tree):
                if isinstance(x, ast.Attribute) and x.attr == attr and not any(x is y for m in methods for y in ast.walk(m)):
                    ok = False  # used outside the class
                if isinstance(x, ast.Constant) and x.value == attr:
                    ok = False
            if not ok or len(users) != 1 or "__init__" in users:
                continue
            f = next(m for m in methods if m.name == next(iter(users)))
            if f.decorator_list or not f.args.args or f.args.vararg or f.args.kwarg or f.args.kwonlyargs:
                continue
            fself = f.args.args[0].arg
            params = [a.arg for a in f.args.args[1:]]
            if not params:
                continue
            body = _strip_doc(f.body)

            def is_table(e):
                return isinstance(e, ast.Attribute) and e.attr == attr and isinstance(e.value, ast.Name) and e.value.id == fself

            def is_key(e):
                if len(params) == 1:
                    return isinstance(e, ast.Name) and e.id == params[0]
                return isinstance(e, ast.Tuple) and [getattr(x, "id", None) for x in e.elts] == params

            if _memo_of_pure_call(f, fself, attr, len(users[f.name])):
                # second form: `if (v := self.C.get(K)) is None: v = self.C[K] = F(k1, .., kn)` with K = (k1, .., kn) - the value is
                # a function of the key's components alone, whatever the method's own parameters are
                init.body.remove(st)
                n += 1
                continue
            first = body[0] if body else None
            if not (isinstance(first, ast.If) and not first.orelse and len(first.body) == 1 and isinstance(first.body[0], ast.Return)
                    and isinstance(first.test, ast.Compare) and len(first.test.ops) == 1 and isinstance(first.test.ops[0], ast.In)
                    and is_key(first.test.left) and is_table(first.test.comparators[0])
                    and isinstance(first.body[0].value, ast.Subscript) and is_table(first.body[0].value.value) and is_key(first.body[0].value.slice)):
                continue
            # parameters are not re-assigned (the key at the store is the key that was looked up)
            if any(isinstance(x, ast.Name) and x.id in params and isinstance(x.ctx, (ast.Store, ast.Del)) for x in ast.walk(f)):
                continue
            stores = []
            good = True
            expected_mentions = 2  # the look-up test and the cached return

            def scan(block):
                nonlocal good
                for i, s_ in enumerate(block):
                    if isinstance(s_, ast.Assign) and len(s_.targets) == 1 and isinstance(s_.targets[0], ast.Subscript) and is_table(s_.targets[0].value):
                        nxt = block[i + 1] if i + 1 < len(block) else None
                        if not (is_key(s_.targets[0].slice) and isinstance(s_.value, ast.Name) and isinstance(nxt, ast.Return)
                                and isinstance(nxt.value, ast.Name) and nxt.value.id == s_.value.id):
                            good = False
                        stores.append((block, s_))
                    for fld in ("body", "orelse", "finalbody"):
                        sub = getattr(s_, fld, None)
                        if isinstance(sub, list) and sub and isinstance(sub[0], ast.stmt):
                            scan(sub)
            scan(f.body)
            mentions = len(users[f.name])
            if not good or not stores or mentions != expected_mentions + len(stores):
                continue
            # rewrite
            for blk, s_ in stores:
                blk.remove(s_)
            f.body.remove(first)
            wrap = ast.Call(func=ast.Call(func=ast.Name(id="lru_cache", ctx=ast.Load()), args=[ast.Constant(value=None)], keywords=[]),
                            args=[ast.Attribute(value=ast.Name(id=iself, ctx=ast.Load()), attr=f.name, ctx=ast.Load())], keywords=[])
            new = ast.Assign(targets=[ast.Attribute(value=ast.Name(id=iself, ctx=ast.Load()), attr=f.name, ctx=ast.Store())], value=wrap)
            init.body[init.body.index(st)] = ast.copy_location(new, st)
            n += 1
    if n:
        ast.fix_missing_locations(tree)
        # the idiom needs the name: `from functools import lru_cache`
        if not any(isinstance(x, ast.ImportFrom) and x.module == "functools" and any(a.name == "lru_cache" for a in x.names) for x in tree.body):
            imp = ast.ImportFrom(module="functools", names=[ast.alias(name="lru_cache")], level=0)
            ast.copy_location(imp, tree.body[0])
            ast.fix_missing_locations(imp)
            idx = 1 if tree.body and isinstance(tree.body[0], ast.Expr) and isinstance(getattr(tree.body[0], "value", None), ast.Constant) else 0
            while idx < len(tree.body) and isinstance(tree.body[idx], ast.ImportFrom) and tree.body[idx].module == "__future__":
                idx += 1
            tree.body.insert(idx, imp)
    return n


def normalise_byte_accumulators(tree: ast.Module) -> int:
    """A local `buf = bytearray()` / `buf = b""` that is only ever extended (`buf.extend(e)`, `buf += e`) and finally returned
    (`return bytes(buf)` / `return buf`) is the list of pieces joined at the end: `buf = []`, `buf.append(e)`,
    `return b"".join(buf)` - the shape the read loops of this package use."""
    n = 0
    for fn in ast.walk(tree):
        if not isinstance(fn, (ast.FunctionDef, ast.AsyncFunctionDef)):
            continue
        cands = {}
        for st in fn.body:
            if isinstance(st, ast.Assign) and len(st.targets) == 1 and isinstance(st.targets[0], ast.Name):
                v = st.value
                if (isinstance(v, ast.Call) and isinstance(v.func, ast.Name) and v.func.id == "bytearray" and not v.args and not v.keywords) or \
                        (isinstance(v, ast.Constant) and v.value == b""):
                    cands[st.targets[0].id] = st
        for name, init in cands.items():
            uses = []
            ok = True
            parents = {id(c): p_ for p_ in ast.walk(fn) for c in ast.iter_child_nodes(p_)}
            for x in _walk_own_deep(fn):
                if isinstance(x, ast.Name) and x.id == name and x is not init.targets[0]:
                    par = parents.get(id(x))
                    gp = parents.get(id(par)) if par is not None else None
                    if isinstance(par, ast.Attribute) and par.attr == "extend" and isinstance(gp, ast.Call) and gp.func is par and len(gp.args) == 1 \
                            and isinstance(parents.get(id(gp)), ast.Expr):
                        uses.append(("extend", gp))
                    elif isinstance(par, ast.AugAssign) and par.target is x and isinstance(par.op, ast.Add):
                        uses.append(("aug", par))
                    elif isinstance(par, ast.Return) and par.value is x:
                        uses.append(("ret", par))
                    elif isinstance(par, ast.Call) and isinstance(par.func, ast.Name) and par.func.id == "bytes" and par.args == [x] and not par.keywords \
                            and isinstance(gp, ast.Return):
                        uses.append(("retbytes", gp))
                    else:
                        ok = False
                        break
            if not ok or not any(k in ("ret", "retbytes") for k, _ in uses) or not any(k in ("extend", "aug") for k, _ in uses):
                continue
            init.value = ast.copy_location(ast.List(elts=[], ctx=ast.Load()), init.value)
            for kind, node in uses:
                if kind == "extend":
                    node.func.attr = "append"
                elif kind in ("ret", "retbytes"):
                    node.value = ast.copy_location(ast.Call(func=ast.Attribute(value=ast.Constant(value=b""), attr="join", ctx=ast.Load()),
                                                            args=[ast.Name(id=name, ctx=ast.Load())], keywords=[]), node)
            # `buf += e` statements become `buf.append(e)`
            for node_ in ast.walk(fn):
                for fld in ("body", "orelse", "finalbody"):
                    blk = getattr(node_, fld, None)
                    if isinstance(blk, list):
                        for i, st in enumerate(blk):
                            if any(k == "aug" and u is st for k, u in uses):
                                call = ast.Call(func=ast.Attribute(value=ast.Name(id=name, ctx=ast.Load()), attr="append", ctx=ast.Load()), args=[st.value], keywords=[])
                                blk[i] = ast.copy_location(ast.Expr(value=call), st)
            n += 1
    if n:
        ast.fix_missing_locations(tree)
    return n


def final_loop_returns(tree: ast.Module) -> int:
    """A bare `return` directly inside the loop that ends a function body (no `else`, not inside a nested loop) leaves the loop
    and then the function with None: it is a `break`.  (Makes procedures that stop early inlinable.)"""
    n = 0
    for fn in ast.walk(tree):
        if not isinstance(fn, (ast.FunctionDef, ast.AsyncFunctionDef)) or not fn.body:
            continue
        last = fn.body[-1]
        if not isinstance(last, (ast.While, ast.For)) or last.orelse:
            continue

        def rewrite(block):
            nonlocal n
            for i, st in enumerate(block):
                if isinstance(st, ast.Return) and (st.value is None or (isinstance(st.value, ast.Constant) and st.value.value is None)):
                    block[i] = ast.copy_location(ast.Break(), st)
                    n += 1
                elif isinstance(st, ast.If):
                    rewrite(st.body)
                    rewrite(st.orelse)
                elif isinstance(st, ast.With):
                    rewrite(st.body)
        rewrite(last.body)
    return n


def split_parallel_assignments(tree: ast.Module) -> int:
    """`a, b = x, y` (same number of plain targets and values, no value reading an earlier target) is `a = x; b = y`."""
    n = 0
    for node in ast.walk(tree):
        for fld in ("body", "orelse", "finalbody"):
            blk = getattr(node, fld, None)
            if not (isinstance(blk, list) and blk and isinstance(blk[0], ast.stmt)):
                continue
            out = []
            for st in blk:
                if (isinstance(st, ast.Assign) and len(st.targets) == 1 and isinstance(st.targets[0], (ast.Tuple, ast.List))
                        and isinstance(st.value, (ast.Tuple, ast.List)) and len(st.targets[0].elts) == len(st.value.elts) >= 2
                        and not any(isinstance(v, ast.Starred) for v in st.value.elts)
                        and _independent_parallel(st.targets[0].elts, st.value.elts)):
                    for t, v in zip(st.targets[0].elts, st.value.elts):
                        out.append(ast.copy_location(ast.Assign(targets=[t], value=v), st))
                    n += 1
                else:
                    out.append(st)
            setattr(node, fld, out)
    if n:
        ast.fix_missing_locations(tree)
    return n


def strip_logging(tree: ast.Module) -> int:
    """Remove `log.debug("...", plain values)` statements: a message to a logger does not take part in what a function
    computes, returns, reads or writes (log *configuration* - handlers, files - is a different call and stays)."""
    n = 0
    for node in ast.walk(tree):
        for fld in ("body", "orelse", "finalbody"):
            blk = getattr(node, fld, None)
            if isinstance(blk, list) and blk and isinstance(blk[0], ast.stmt):
                kept = [s for s in blk if not _is_log_stmt(s)]
                if len(kept) != len(blk):
                    n += len(blk) - len(kept)
                    if not kept:
                        kept = [ast.copy_location(ast.Pass(), blk[0])]
                    setattr(node, fld, kept)
    return n


def _walk_own_deep(fn):
    """All nodes of a function including the headers of nested functions (but not their bodies' nested scopes twice)."""
    stack = list(fn.body)
    while stack:
        n = stack.pop()
        yield n
        if isinstance(n, (ast.FunctionDef, ast.AsyncFunctionDef, ast.ClassDef, ast.Lambda)):
            continue
        stack.extend(ast.iter_child_nodes(n))


_DEF_MEMBERS = {}


def _inside_def(node, fn) -> bool:
    ids = _DEF_MEMBERS.get(id(fn))
    if ids is None or ids[0] is not fn:
        ids = (fn, {id(x) for x in ast.walk(fn)})
        _DEF_MEMBERS.clear()
        _DEF_MEMBERS[id(fn)] = ids
    return id(node) in ids[1]


def _inside(node, fn) -> bool:
    return any(x is node for x in ast.walk(fn))


# ---------------------------------------------------------------------------------------------------------------------
# look-ups in literal tables


class _TableGet(ast.NodeTransformer):
    """`TABLE.get(k[, d])` where TABLE is a small dict display (module level, assigned once, or written in place) is the
    conditional chain `V1 if k == K1 else V2 if k == K2 else d`: dispatch through a table and dispatch through an if / elif
    chain become one shape.  The key expression must be free of calls (it is repeated in every comparison)."""

    MAX_ROWS = 12

    def __init__(self, tree):
        self.n = 0
        self.tables = {}
        counts = {}
        for n in ast.walk(tree):
            if isinstance(n, ast.Name) and isinstance(n.ctx, ast.Store):
                counts[n.id] = counts.get(n.id, 0) + 1
        for st in tree.body:
            if isinstance(st, ast.Assign) and len(st.targets) == 1 and isinstance(st.targets[0], ast.Name) and isinstance(st.value, ast.Dict) \
                    and counts.get(st.targets[0].id) == 1 and None not in st.value.keys:
                self.tables[st.targets[0].id] = st.value
        self.seqs = {}
        for st in tree.body:
            if isinstance(st, ast.Assign) and len(st.targets) == 1 and isinstance(st.targets[0], ast.Name) and isinstance(st.value, (ast.Tuple, ast.List)) \
                    and counts.get(st.targets[0].id) == 1:
                self.seqs[st.targets[0].id] = st.value

    def visit_FunctionDef(self, node):
        # dict displays bound once to a local name that is only ever used as `name.get(..)` / `name[..]` (never mutated, never passed on)
        saved = dict(self.tables)
        stores, uses = {}, {}
        for n in ast.walk(node):
            if isinstance(n, ast.Name):
                (stores if isinstance(n.ctx, ast.Store) else uses).setdefault(n.id, []).append(n)
        for st in ast.walk(node):
            if isinstance(st, ast.Assign) and len(st.targets) == 1 and isinstance(st.targets[0], ast.Name) and isinstance(st.value, ast.Dict) \
                    and None not in st.value.keys and len(stores.get(st.targets[0].id, [])) == 1:
                nm = st.targets[0].id
                ok = True
                for u in uses.get(nm, []):
                    par = self.parents.get(id(u))
                    if not (isinstance(par, ast.Attribute) and par.attr == "get"):
                        ok = False
                if ok:
                    self.tables[nm] = st.value
        self.generic_visit(node)
        self.tables = saved
        return node

    def _const_rows(self, it):
        """Rows of a small constant sequence: a literal tuple / list of constants, or a module-level name bound once to one."""
        if isinstance(it, ast.Name) and it.id in self.seqs:
            it = self.seqs[it.id]
        if isinstance(it, (ast.Tuple, ast.List)) and 0 < len(it.elts) <= self.MAX_ROWS and all(
                isinstance(e, ast.Constant) or (isinstance(e, (ast.Tuple, ast.List)) and all(isinstance(y, ast.Constant) for y in e.elts)) for e in it.elts):
            return it.elts
        return None

    def visit_Call(self, node: ast.Call):
        self.generic_visit(node)
        f = node.func
        # filter(f, S) / map(f, S) with a named function are the generator expressions (x for x in S if f(x)) / (f(x) for x in S)
        if (isinstance(f, ast.Name) and f.id in ("filter", "map") and len(node.args) == 2 and not node.keywords
                and isinstance(node.args[0], (ast.Name, ast.Attribute)) and not (isinstance(node.args[0], ast.Name) and node.args[0].id == "None")
                and not any(isinstance(x, (ast.Call, ast.NamedExpr, ast.Await, ast.Yield)) for x in ast.walk(node.args[0]))):
            self.n += 1
            var = f"{_PREFIX}f{self.n}_x"
            call = ast.Call(func=copy.deepcopy(node.args[0]), args=[ast.Name(id=var, ctx=ast.Load())], keywords=[])
            gen = ast.comprehension(target=ast.Name(id=var, ctx=ast.Store()), iter=node.args[1], ifs=[call] if f.id == "filter" else [], is_async=0)
            elt = ast.Name(id=var, ctx=ast.Load()) if f.id == "filter" else call
            new = ast.copy_location(ast.GeneratorExp(elt=elt, generators=[gen]), node)
            ast.fix_missing_locations(new)
            return new
        if (isinstance(f, ast.Name) and f.id == "next" and 1 <= len(node.args) <= 2 and not node.keywords and isinstance(node.args[0], ast.GeneratorExp)
                and len(node.args[0].generators) == 1 and not node.args[0].generators[0].is_async):
            if len(node.args) == 1:
                # no default: running out of rows raises StopIteration, as next() on an empty iterator does
                node.args.append(ast.copy_location(ast.Call(func=ast.Name(id="next", ctx=ast.Load()), args=[
                    ast.Call(func=ast.Name(id="iter", ctx=ast.Load()), args=[ast.Tuple(elts=[], ctx=ast.Load())], keywords=[])], keywords=[]), node))
                ast.fix_missing_locations(node)
            # next((E(x) for x in ROWS if T(x)), D)  ->  E(r1) if T(r1) else E(r2) if T(r2) else ... D     (first match of a literal table)
            g = node.args[0]
            gen = g.generators[0]
            rows = self._const_rows(gen.iter)
            tgt = gen.target
            names = [tgt.id] if isinstance(tgt, ast.Name) else [e.id for e in tgt.elts if isinstance(e, ast.Name)] if isinstance(tgt, (ast.Tuple, ast.List)) else None
            if rows is not None and names and (isinstance(tgt, ast.Name) or len(names) == len(tgt.elts)):
                chain = node.args[1]
                okr = True
                for row in reversed(rows):
                    if isinstance(tgt, ast.Name):
                        vals = [row]
                    elif isinstance(row, (ast.Tuple, ast.List)) and len(row.elts) == len(names):
                        vals = row.elts
                    else:
                        okr = False
                        break
                    mp = dict(zip(names, vals))

                    class Sub(ast.NodeTransformer):
                        def visit_Name(self_, n):
                            if isinstance(n.ctx, ast.Load) and n.id in mp:
                                return ast.copy_location(copy.deepcopy(mp[n.id]), n)
                            return n
                    tests = [Sub().visit(copy.deepcopy(c)) for c in gen.ifs]
                    test = tests[0] if len(tests) == 1 else (ast.BoolOp(op=ast.And(), values=tests) if tests else ast.Constant(value=True))
                    chain = ast.IfExp(test=test, body=Sub().visit(copy.deepcopy(g.elt)), orelse=chain)
                if okr:
                    self.n += 1
                    return ast.copy_location(chain, node)
        if isinstance(f, ast.IfExp) and not any(isinstance(x, (ast.Call, ast.NamedExpr, ast.Await, ast.Yield)) for a in list(node.args) + [k.value for k in node.keywords] for x in ast.walk(a)):
            # (f if c else g)(args)  ->  f(args) if c else g(args)      (call-free arguments: safe to repeat)
            def call_of(fn_expr):
                if isinstance(fn_expr, ast.IfExp):
                    return ast.copy_location(ast.IfExp(test=fn_expr.test, body=call_of(fn_expr.body), orelse=call_of(fn_expr.orelse)), node)
                return ast.copy_location(ast.Call(func=fn_expr, args=copy.deepcopy(node.args), keywords=copy.deepcopy(node.keywords)), node)
            self.n += 1
            return call_of(f)
        if not (isinstance(f, ast.Attribute) and f.attr == "get" and 1 <= len(node.args) <= 2 and not node.keywords):
            return node
        table = f.value if isinstance(f.value, ast.Dict) else self.tables.get(f.value.id) if isinstance(f.value, ast.Name) else None
        if table is None or not (0 < len(table.keys) <= self.MAX_ROWS) or None in table.keys:
            return node
        key = node.args[0]
        if any(isinstance(x, (ast.Call, ast.NamedExpr, ast.Await, ast.Yield, ast.YieldFrom)) for x in ast.walk(key)):
            return node
        default = node.args[1] if len(node.args) == 2 else ast.Constant(value=None)
        chain = default
        for k, v in reversed(list(zip(table.keys, table.values))):
            test = ast.Compare(left=copy.deepcopy(key), ops=[ast.Eq()], comparators=[copy.deepcopy(k)])
            chain = ast.IfExp(test=test, body=copy.deepcopy(v), orelse=chain)
        self.n += 1
        return ast.copy_location(chain, node)


def expand_table_lookups(tree: ast.Module) -> int:
    t = _TableGet(tree)
    t.parents = {id(child): parent_ for parent_ in ast.walk(tree) for child in ast.iter_child_nodes(parent_)}
    t.visit(tree)
    if t.n:
        ast.fix_missing_locations(tree)
    return t.n


# ---------------------------------------------------------------------------------------------------------------------
# match statements (value / or / wildcard patterns)


def _pattern_test(subject, pat):
    """Condition AST for a pattern without captures, or None if the pattern is outside the supported subset."""
    if isinstance(pat, ast.MatchValue):
        return ast.Compare(left=copy.deepcopy(subject), ops=[ast.Eq()], comparators=[pat.value])
    if isinstance(pat, ast.MatchSingleton):
        return ast.Compare(left=copy.deepcopy(subject), ops=[ast.Is()], comparators=[ast.Constant(value=pat.value)])
    if isinstance(pat, ast.MatchOr):
        parts = [_pattern_test(subject, p) for p in pat.patterns]
        if any(p is None for p in parts):
            return None
        return ast.BoolOp(op=ast.Or(), values=parts)
    if isinstance(pat, ast.MatchAs) and pat.pattern is None and pat.name is None:
        return True
    return None


class _MatchNorm(ast.NodeTransformer):
    """`match s: case A: X  case B | C: Y  case _: Z` with value, singleton, or- and wildcard patterns (no captures, no
    guards with captures) is the if / elif / else chain on `s == A`, `s == B or s == C`.  The subject must be free of calls
    (it is repeated); otherwise it is bound to a temporary first."""

    def __init__(self):
        self.n = 0

    def visit_Match(self, node):
        self.generic_visit(node)
        subj = node.subject
        pre = []
        if any(isinstance(x, (ast.Call, ast.NamedExpr, ast.Await)) for x in ast.walk(subj)):
            self.n += 1
            tmp = f"{_PREFIX}m{self.n}_subject"
            pre.append(ast.copy_location(ast.Assign(targets=[ast.Name(id=tmp, ctx=ast.Store())], value=subj), node))
            subj = ast.Name(id=tmp, ctx=ast.Load())
        arms = []
        for case in node.cases:
            t = _pattern_test(subj, case.pattern)
            if t is None:
                return node
            if case.guard is not None:
                t = case.guard if t is True else ast.BoolOp(op=ast.And(), values=[t, case.guard])
            arms.append((t, case.body))
        chain = []
        for t, body in reversed(arms):
            if t is True:
                chain = body
            else:
                chain = [ast.copy_location(ast.If(test=t, body=body, orelse=chain), node)]
        self.n += 1
        out = pre + (chain or [ast.copy_location(ast.Pass(), node)])
        for s_ in out:
            ast.fix_missing_locations(s_)
        return out


def normalise_match(tree: ast.Module) -> int:
    if not hasattr(ast, "Match"):
        return 0
    t = _MatchNorm()
    t.visit(tree)
    if t.n:
        ast.fix_missing_locations(tree)
    return t.n


def _call_free(e) -> bool:
    return not any(isinstance(x, (ast.Call, ast.NamedExpr, ast.Await, ast.Yield, ast.YieldFrom)) for x in ast.walk(e))
