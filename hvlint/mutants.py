"""Checker self-test: the analyser is run on in-memory edited copies of repository modules.

MUTANTS must be reported as VIOLATION (exit 1) by the owning property's check, naming the expected rule;
TWINS are behaviour-preserving rewrites and must stay silent (exit 0).  Nothing is written under /repo or /tmp,
and no repository code is executed: only the analyser runs.
An entry whose anchor text is no longer present in the current tree is reported as not applicable.
"""
from __future__ import annotations

import json
import os
import time
from multiprocessing import Pool
from pathlib import Path

from .catalogue import MUTANTS, TWINS


def _apply(src: str, edits):
    for e in edits:
        if len(e) == 3 and e[0] == "*":  # ("*", old, new): replace every occurrence
            if src.count(e[1]) < 1:
                return None
            src = src.replace(e[1], e[2])
            continue
        old, new = e
        if src.count(old) != 1:
            return None
        src = src.replace(old, new)
    return src


def _job(args):
    kind, idx, root = args
    from .engine import run_check
    from .loader import Repo

    ent = (MUTANTS if kind == "mutant" else TWINS)[idx]
    prop, rel, name, edits = ent[0], ent[1], ent[2], ent[3]
    expect = ent[4] if len(ent) > 4 else None
    repo_root = root or os.environ.get("HVLINT_REPO", "/repo")
    per_file: dict[str, list] = {}
    for e in edits:
        if len(e) == 3 and e[0] != "*":
            per_file.setdefault(e[0], []).append((e[1], e[2]))
        else:
            per_file.setdefault(rel, []).append(e)
    overrides = {}
    for frel, fedits in per_file.items():
        p = Path(repo_root) / "dissect/hypervisor" / frel
        try:
            src = p.read_text()
        except OSError:
            return (kind, prop, name, "n/a", "file missing")
        new = _apply(src, fedits)
        if new is None:
            return (kind, prop, name, "n/a", "anchor text not present (tree already differs)")
        try:
            compile(new, frel, "exec")
        except SyntaxError as e:
            return (kind, prop, name, "broken", f"edit does not compile: {e}")
        overrides[frel] = new
    rc, chk = run_check(prop, "quick", root=root, overrides=overrides, quiet=True, write=False)
    keys = [i.key for i in getattr(chk, "new_violations", [])] if chk else []
    if kind == "mutant":
        if rc == 1 and (expect is None or any(expect in k for k in keys)):
            return (kind, prop, name, "ok", keys[0] if keys else "")
        return (kind, prop, name, "MISSED", f"rc={rc} keys={keys[:3]}")
    if rc == 0:
        return (kind, prop, name, "ok", "")
    und = [f"{i.key}: {i.detail}"[:200] for i in getattr(chk, "undecided_armed", [])] if chk else []
    return (kind, prop, name, "FALSE-ALARM", f"rc={rc} keys={keys[:3]} undecided={und[:2]}")


SEEDED = Path(__file__).resolve().parent.parent / "seeded"


def _kept_entries(props):
    """Independent changes kept under seeded/: a seeded regression must be reported by every check recorded as reporting it,
    a kept refactoring (twin) must be silent for every property (or, for the few recorded as outside the model, at least
    never reported as a violation)."""
    out = []
    if not SEEDED.is_dir():
        return out
    all_props = [f"C{i:02d}" for i in range(1, 21)]
    for d in sorted(SEEDED.iterdir()):
        if d.name == "twins" or not (d / "meta.json").exists():
            continue
        meta = json.loads((d / "meta.json").read_text())
        for prop in sorted(meta.get("checks_that_report_it", {})):
            if props is None or prop in props:
                out.append(("seed", prop, d.name, str(d / "patch.diff"), None))
    tw = SEEDED / "twins"
    if tw.is_dir():
        for d in sorted(tw.iterdir()):
            if not (d / "meta.json").exists():
                continue
            meta = json.loads((d / "meta.json").read_text())
            undec = set(meta.get("undecided_ok", []))
            for prop in all_props:
                if props is None or prop in props:
                    out.append(("kept-twin", prop, d.name, str(d / "patch.diff"), prop in undec))
    return out


def _job_kept(args):
    kind, prop, name, patch, undecided_ok, root = args
    from .engine import run_check
    from .patches import PatchError, overrides_from_patch

    repo_root = root or os.environ.get("HVLINT_REPO", "/repo")
    try:
        ov = overrides_from_patch(patch, repo_root)
    except (PatchError, OSError) as e:
        return (kind, prop, name, "n/a", f"patch does not apply to the current tree: {e}")
    for rel, src in ov.items():
        try:
            compile(src, rel, "exec")
        except SyntaxError as e:
            return (kind, prop, name, "broken", f"patched file does not compile: {e}")
    rc, chk = run_check(prop, "quick", root=root, overrides=ov, quiet=True, write=False)
    keys = [i.key for i in getattr(chk, "new_violations", [])] if chk else []
    if kind == "seed":
        if rc == 1:
            return (kind, prop, name, "ok", keys[0] if keys else "")
        return (kind, prop, name, "MISSED", f"rc={rc} keys={keys[:3]}")
    if rc == 0 or (rc == 2 and undecided_ok):
        return (kind, prop, name, "ok", "" if rc == 0 else "undecided (outside the model)")
    und = [f"{i.key}: {i.detail}"[:200] for i in getattr(chk, "undecided_armed", [])] if chk else []
    return (kind, prop, name, "FALSE-ALARM", f"rc={rc} keys={keys[:3]} undecided={und[:2]}")


def run(props=None, jobs=16, root=None, evidence_prop=None) -> int:
    t0 = time.time()
    todo = []
    for i, m in enumerate(MUTANTS):
        if props is None or m[0] in props:
            todo.append(("mutant", i, root))
    for i, t in enumerate(TWINS):
        if props is None or t[0] in props:
            todo.append(("twin", i, root))
    kept = [e + (root,) for e in _kept_entries(props)]
    if not todo and not kept:
        print("selftest: no catalogue entries for", props)
        return 0
    with Pool(min(jobs, max(1, len(todo) + len(kept)))) as pool:
        results = pool.map(_job, todo, chunksize=1) if todo else []
        results += pool.map(_job_kept, kept, chunksize=1) if kept else []
    bad = [r for r in results if r[3] in ("MISSED", "FALSE-ALARM", "broken")]
    na = [r for r in results if r[3] == "n/a"]
    ok = [r for r in results if r[3] == "ok"]
    for r in bad:
        print(f"SELFTEST-{r[3]} {r[0]} {r[1]} {r[2]}: {r[4]}")
    print(f"selftest: {len(ok)} ok, {len(bad)} bad, {len(na)} not applicable, {round(time.time() - t0, 1)}s")
    if evidence_prop:
        p = Path(__file__).resolve().parent.parent / "evidence" / f"{evidence_prop}.json"
        try:
            ev = json.loads(p.read_text())
            ev["tier"] = "thorough"
            ev["coverage"]["selftest"] = {
                "mutants_detected": len([r for r in ok if r[0] == "mutant"]),
                "twins_silent": len([r for r in ok if r[0] == "twin"]),
                "independent_seeded_changes_reported": len([r for r in ok if r[0] == "seed"]),
                "independent_refactorings_silent": len([r for r in ok if r[0] == "kept-twin"]),
                "not_applicable": [f"{r[0]}:{r[2]}" for r in na],
                "failed": [f"{r[0]}:{r[2]}: {r[4]}" for r in bad],
                "entries": [{"kind": r[0], "name": r[2], "result": r[3], "reported_as": r[4]} for r in results],
            }
            ev["wall_s"] = round(ev.get("wall_s", 0) + time.time() - t0, 3)
            p.write_text(json.dumps(ev, indent=1, default=str))
        except Exception as e:  # pragma: no cover
            print("selftest: could not update evidence:", e)
    # self-test failures are analysis errors, never violations of the property
    return 2 if bad else 0
