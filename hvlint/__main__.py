from __future__ import annotations

import argparse
import json
import sys


def main(argv=None) -> int:
    ap = argparse.ArgumentParser(prog="hvlint")
    sub = ap.add_subparsers(dest="cmd", required=True)
    c = sub.add_parser("check")
    c.add_argument("prop")
    c.add_argument("--tier", default=None)
    c.add_argument("--root", default=None)
    e = sub.add_parser("explain")
    e.add_argument("path")
    st = sub.add_parser("selftest")
    st.add_argument("props", nargs="*")
    st.add_argument("--jobs", type=int, default=16)
    args = ap.parse_args(argv)
    if args.cmd == "check":
        import os

        from .engine import run_check

        tier = args.tier or os.environ.get("VERIF_TIER") or "quick"
        rc, chk = run_check(args.prop, tier, root=args.root)
        if rc == 0 and tier == "thorough":
            from .selftest import run_selftest

            rc = run_selftest([args.prop], jobs=16, root=args.root, evidence_prop=args.prop)
        return rc
    if args.cmd == "explain":
        d = json.load(open(args.path))
        print(json.dumps(d, indent=1))
        print(f"\n{d.get('file')}:{d.get('line')} in {d.get('function')}: rule {d.get('rule')}/{d.get('instance')} -> {d.get('verdict')}")
        print("re-run: /venv/bin/python -m hvlint check", d.get("property"))
        return 0
    if args.cmd == "selftest":
        from .selftest import run_selftest

        return run_selftest(args.props or None, jobs=args.jobs)
    return 2


if __name__ == "__main__":
    sys.exit(main())
