"""Shared rule machinery: layouts, constants, spec-formula parsing, role resolution, sites, gates."""
from __future__ import annotations

import ast

from . import sym as S
from .engine import HOLDS, UNDECIDED, VIOLATED, Check
from .flow import path_conditions
from .loader import AnalysisError, enclosing_function, parent, qualname
from .program import CType, NotConst
from .recon import FuncCtx, _own_nodes
from .spec.layouts import LAYOUTS

# ---------------------------------------------------------------------------------------
# layouts


def layout_of(chk: Check, rel: str):
    mi = chk.prog.info(rel)
    if not mi.layouts:
        raise AnalysisError(f"ANCHOR-VANISHED no cstruct definition in {rel}")
    if len(mi.layouts) == 1:
        return next(iter(mi.layouts.items()))
    # several: the one with most structs
    return max(mi.layouts.items(), key=lambda kv: len(kv[1].structs))


def _field_sig(f):
    kind = "b" if f.kind == "char" or (f.count is not None and f.kind != "struct") else ("i" if f.signed else "u")
    width = f.size if f.count is None else (f.total if f.total is not None else -1)
    return (f.offset, width, kind, f.bitoff, f.bitwidth)


def _spec_sig(sf):
    name, off, width, kind = sf[:4]
    bitoff, bitw = (sf[4], sf[5]) if len(sf) > 4 else (None, None)
    return (off, width, kind, bitoff, bitw)


def locate_struct(lay, rel, name):
    """Find the repository struct matching spec entry (rel, name): by name, else by positional signature."""
    spec = LAYOUTS[(rel, name)]
    if name in lay.structs:
        return lay.structs[name]
    want = {_spec_sig(sf) for sf in spec["fields"]}
    cands = []
    for st in lay.structs.values():
        have = {_field_sig(f) for f in st.fields}
        if want <= have:
            cands.append(st)
    uniq = {id(c): c for c in cands}
    if len(uniq) == 1:
        return next(iter(uniq.values()))
    return None


def field_map(chk: Check, rel: str, name: str):
    """spec field name -> repository Field (positional). Raises AnalysisError if the struct vanished."""
    var, lay = layout_of(chk, rel)
    st = locate_struct(lay, rel, name)
    if st is None:
        raise AnalysisError(f"ANCHOR-VANISHED struct {rel}::{name}")
    spec = LAYOUTS[(rel, name)]
    out = _FieldMap(name)
    for sf in spec["fields"]:
        sig = _spec_sig(sf)
        for f in st.fields:
            if _field_sig(f) == sig:
                out[sf[0]] = f
                break
    return st, out


class _FieldMap(dict):
    def __init__(self, struct):
        super().__init__()
        self.struct = struct

    def __missing__(self, k):
        raise AnalysisError(f"layout of {self.struct} lacks the specified field {k} at its position (see K-LAYOUT)")


def check_layout(chk: Check, rel: str, name: str, prop_kind="K-LAYOUT"):
    var, lay = layout_of(chk, rel)
    spec = LAYOUTS[(rel, name)]
    mod = chk.repo.module(rel)
    where = (rel, f"<cdef {name}>", _def_line(mod, name))
    st = locate_struct(lay, rel, name)
    if st is None:
        chk.add(prop_kind, f"struct:{name}", where, VIOLATED,
                f"no struct in {rel} has the specified layout of {name} and none is named {name}",
                expected=_fmt_spec(spec))
        return None
    problems = []
    if lay.endian != spec["endian"]:
        problems.append(f"endianness {lay.endian!r}, specified {spec['endian']!r}")
    for sf in spec["fields"]:
        sig = _spec_sig(sf)
        if not any(_field_sig(f) == sig for f in st.fields):
            near = [f for f in st.fields if f.offset == sig[0]]
            problems.append(f"{sf[0]}: specified @{sig[0]} width {sig[1]} {sig[2]}"
                            + (f" bits[{sig[3]}:{sig[3] + sig[4]}]" if sig[3] is not None else "")
                            + (f"; repository has {near[0].name} width {_field_sig(near[0])[1]} {_field_sig(near[0])[2]}"
                               + (f" bits[{near[0].bitoff}:{near[0].bitoff + near[0].bitwidth}]" if near[0].bitoff is not None else "")
                               if near else "; nothing at that offset"))
    size = spec.get("size")
    if size is not None:
        ok = st.size in size if isinstance(size, tuple) else st.size == size
        if not ok:
            problems.append(f"struct size {st.size}, specified {size}")
    note = " (frozen reference: no public specification)" if spec.get("frozen") else ""
    if problems:
        chk.add(prop_kind, f"struct:{name}", where, VIOLATED, "; ".join(problems) + note, expected=_fmt_spec(spec),
                found="; ".join(f"{f.name}@{f.offset}:{f.size}" for f in st.fields)[:600])
    else:
        chk.add(prop_kind, f"struct:{name}", where, HOLDS,
                f"{len(spec['fields'])} fields match by (offset, width, signedness, endianness, bit range){note}",
                expected=_fmt_spec(spec)[:300])
    return st


def _fmt_spec(spec):
    return f"endian {spec['endian']} size {spec.get('size')}: " + ", ".join(
        f"{sf[0]}@{sf[1]}:{sf[3]}{sf[2] * 8}" + (f"[{sf[4]}:{sf[4] + sf[5]}]" if len(sf) > 4 else "") for sf in spec["fields"])


def _def_line(mod, name):
    for i, line in enumerate(mod.source.split("\n"), 1):
        if name in line and ("struct" in line or "}" in line):
            return i
    return 1


# ---------------------------------------------------------------------------------------
# constants


def const_value(chk: Check, rel: str, name: str):
    """Fold module-level NAME or c_x.NAME of module rel."""
    mi = chk.prog.info(rel)
    try:
        return chk.prog.fold(ast.Name(id=name), mi)
    except NotConst:
        pass
    for var, lay in mi.layouts.items():
        if name in lay.defines:
            v = lay.defines[name]
            if not (isinstance(v, tuple) and v and v[0] == "unparsed"):
                return v
        for e in lay.enums.values():
            if name in e.members:
                return e.members[name]
    raise AnalysisError(f"ANCHOR-VANISHED constant {rel}::{name}")


def check_const(chk: Check, rel: str, name: str, want, why="", kind="K-CONST"):
    mod = chk.repo.module(rel)
    line = 1
    for i, l in enumerate(mod.source.split("\n"), 1):
        if name in l:
            line = i
            break
    where = (rel, f"<const {name}>", line)
    try:
        got = const_value(chk, rel, name)
    except AnalysisError as e:
        chk.add(kind, f"const:{name}", where, UNDECIDED, str(e))
        return None
    gv = int(got) if isinstance(got, S.EnumConst) else got
    ok = gv == want and type(gv) is type(want) or (isinstance(gv, int) and isinstance(want, int) and gv == want)
    chk.add(kind, f"const:{name}", where, HOLDS if ok else VIOLATED,
            (why or "") if ok else f"value {_short(gv)} differs from the specified {_short(want)} {why}",
            expected=_short(want), found=_short(gv), nontrivial=False)
    return got


def _short(v):
    if isinstance(v, int) and not isinstance(v, bool) and abs(v) > 4096:
        return hex(v)
    return repr(v)


# ---------------------------------------------------------------------------------------
# spec formulas:  python-expression text over role names  ->  term


class SpecEnv(dict):
    """name -> term, or callable(*terms) -> term"""


_BIN = {ast.Add: "add", ast.Sub: "sub", ast.Mult: "mul", ast.FloorDiv: "floordiv", ast.Mod: "mod", ast.LShift: "lshift",
        ast.RShift: "rshift", ast.BitAnd: "and", ast.BitOr: "or", ast.BitXor: "xor", ast.Pow: "pow"}
_CMP = {ast.Eq: "==", ast.NotEq: "!=", ast.Lt: "<", ast.LtE: "<=", ast.Gt: ">", ast.GtE: ">=", ast.In: "in",
        ast.NotIn: "notin", ast.Is: "is", ast.IsNot: "isnot"}


def spec_expr(text: str, env: dict):
    node = ast.parse(text.strip(), mode="eval").body
    return _spec(node, env, text)


def _spec(n, env, text):
    r = lambda x: _spec(x, env, text)  # noqa: E731
    if isinstance(n, ast.Constant):
        return S.C(n.value)
    if isinstance(n, ast.Name):
        if n.id in env:
            v = env[n.id]
            if callable(v):
                raise AnalysisError(f"spec: {n.id} is a function in {text!r}")
            return v
        if n.id in ("None", "True", "False"):
            return S.C({"None": None, "True": True, "False": False}[n.id])
        raise AnalysisError(f"spec formula {text!r}: unknown role {n.id}")
    if isinstance(n, ast.BinOp):
        return S.op(_BIN[type(n.op)], r(n.left), r(n.right))
    if isinstance(n, ast.UnaryOp):
        v = r(n.operand)
        if isinstance(n.op, ast.USub):
            return S.C(-v[1]) if S.is_const(v) else ("neg", v)
        if isinstance(n.op, ast.Invert):
            return S.C(~v[1]) if S.is_const(v) else ("inv", v)
        if isinstance(n.op, ast.Not):
            return ("not", v)
    if isinstance(n, ast.Call):
        fn = n.func.id if isinstance(n.func, ast.Name) else None
        args = [r(a) for a in n.args]
        if fn in ("min", "max"):
            return (fn, tuple(args))
        if fn == "ceildiv":
            return S.op("floordiv", S.op("sub", S.op("add", args[0], args[1]), S.C(1)), args[1])
        if fn in env and callable(env[fn]):
            return env[fn](*args)
        raise AnalysisError(f"spec formula {text!r}: unknown function {fn}")
    if isinstance(n, ast.Compare):
        parts = []
        left = r(n.left)
        for o, c in zip(n.ops, n.comparators):
            right = r(c)
            parts.append(S.cmp_(_CMP[type(o)], left, right))
            left = right
        return parts[0] if len(parts) == 1 else ("bool", "and", tuple(parts))
    if isinstance(n, ast.BoolOp):
        return ("bool", "and" if isinstance(n.op, ast.And) else "or", tuple(r(v) for v in n.values))
    if isinstance(n, ast.IfExp):
        return ("ite", r(n.test), r(n.body), r(n.orelse))
    if isinstance(n, ast.Tuple):
        return ("tuple", tuple(r(e) for e in n.elts))
    if isinstance(n, ast.Subscript):
        base = r(n.value)
        if isinstance(n.slice, ast.Slice):
            lo = r(n.slice.lower) if n.slice.lower else S.C(None)
            hi = r(n.slice.upper) if n.slice.upper else S.C(None)
            return ("sub", base, ("slice", lo, hi))
        return ("sub", base, r(n.slice))
    raise AnalysisError(f"spec formula {text!r}: unsupported syntax {type(n).__name__}")


# ---------------------------------------------------------------------------------------
# roles: struct instances and fields


def inst_attr(chk: Check, rel: str, cls: str, structname: str, ordinal=0):
    """The term of the `self.<attr>` of class `cls` that holds an instance of struct `structname`."""
    ci = chk.prog.cls(rel, cls)
    found = []
    for attr in ci.self_assigns:
        t = chk.R.self_attr(ci.key, attr)
        for alt in (t[1] if t[0] == "join" else (t,)):
            if alt[0] == "inst" and alt[1] == structname and (attr, alt) not in found:
                found.append((attr, alt))
    if len(found) <= ordinal:
        raise AnalysisError(f"ANCHOR-VANISHED no attribute of {rel}::{cls} holds a {structname}")
    return found[ordinal][1]


def insts_in_func(chk: Check, ctx: FuncCtx, structname: str):
    """Terms of all struct instances of the given type created (read) inside a function, in source order."""
    out = []
    for n in sorted((x for x in _own_nodes(ctx.func) if isinstance(x, ast.Call)), key=lambda x: (x.lineno, x.col_offset)):
        t = chk.R.expr(ctx, n)
        if t[0] == "inst" and t[1] == structname and t not in out:
            out.append(t)
    return out


def fld(chk: Check, inst, rel: str, structname: str, specfield: str):
    """Term of the field with the given *spec* name of a struct instance (mapped positionally)."""
    st, fm = field_map(chk, rel, structname)
    if specfield not in fm:
        raise AnalysisError(f"layout of {structname} lacks the specified field {specfield} (see K-LAYOUT)")
    inst2 = inst
    if inst[1] != st.name:
        inst2 = ("inst", st.name) + tuple(inst[2:])
    return chk.R.field(inst2, fm[specfield].name)


def field_leaf_of(t, offset, structname=None):
    """Find the field leaf with a given byte offset inside a term."""
    for x in S.walk(t):
        if isinstance(x, tuple) and x and x[0] == "f" and x[2] == offset and (structname is None or x[1] == structname):
            return x
    return None


# ---------------------------------------------------------------------------------------
# sites


def calls_named(ctx: FuncCtx, attr: str):
    """Method calls `<recv>.<attr>(...)` in a function, in source order."""
    out = [n for n in _own_nodes(ctx.func) if isinstance(n, ast.Call) and isinstance(n.func, ast.Attribute) and n.func.attr == attr]
    return sorted(out, key=lambda n: (n.lineno, n.col_offset))


def stmt_of(node):
    n = node
    while n is not None and not isinstance(n, ast.stmt):
        n = parent(n)
    return n


def conds_sym(chk: Check, ctx: FuncCtx, node, kinds=("if", "prior"), with_kind=False, within=None):
    """Path condition of a node as a list of (term, polarity) [or (term, polarity, kind)].
    `within`: only the conditions decided inside that statement (a loop: what one round decides, not what led to the loop)."""
    st = stmt_of(node)
    out = []
    inside = {id(x) for x in ast.walk(within)} if within is not None else None
    for test, pol, ifstmt, kind in path_conditions(st, ctx.func):
        if kind not in kinds:
            continue
        if inside is not None and id(ifstmt) not in inside:
            continue
        at = ctx.cfg.node_of.get(ifstmt)
        t = chk.R.expr(ctx, test, at)
        out.append((t, pol, kind) if with_kind else (t, pol))
    if "if" in kinds:
        for t, pol in getattr(node, "_hv_extra_conds", ()):
            out.append((t, pol, "if") if with_kind else (t, pol))
    return out


def flows_from(ctx: FuncCtx, expr, at, targets, depth=6):
    """Which of the call sites in `targets` (AST nodes) the value of `expr` (read at CFG node `at`) is computed from, following
    local variables through their reaching definitions."""
    out = set()
    tset = {id(t): t for t in targets}
    seen = set()

    def go(e, node, d):
        for x in ast.walk(e):
            if id(x) in tset:
                out.add(id(x))
            if isinstance(x, ast.Name) and isinstance(x.ctx, ast.Load) and d > 0 and node is not None:
                for df in ctx.cfg.rd_in.get(node, {}).get(x.id, ()):
                    if df.value is not None and (id(df), d) not in seen:
                        seen.add((id(df), d))
                        go(df.value, df.node, d - 1)
    go(expr, at, depth)
    return [tset[i] for i in out]


def atomic_facts(conds):
    """A path condition as atomic (term, polarity) facts: conjunctions that hold and disjunctions that fail are split, `not` flips."""
    out = []

    def add(t, pol):
        if t[0] == "not":
            add(t[1], not pol)
        elif t[0] == "bool" and ((t[1] == "and" and pol) or (t[1] == "or" and not pol)):
            for x in t[2]:
                add(x, pol)
        else:
            out.append((t, pol))
    for t, pol in conds:
        add(t, pol)
    return out


def eval_conds(conds, val) -> bool | None:
    """Evaluate a path condition under a valuation: True / False / None (evaluation failed)."""
    try:
        for t, pol in conds:
            if bool(S.ev(t, val)) != pol:
                return False
        return True
    except S.EvalError:
        return None


def same_handle(a, b) -> bool:
    """Two receiver terms denote the same file handle (one may be a JOIN containing the other)."""
    if a == b:
        return True
    aa = set(a[1]) if a[0] == "join" else {a}
    bb = set(b[1]) if b[0] == "join" else {b}
    return bool(aa & bb)


# ---------------------------------------------------------------------------------------
# typestate: every read on a handle is preceded by an absolute seek on that handle


def _io_calls(ctx: FuncCtx):
    """(call node, kind, receiver node): kind in seek/read/tell/ctype-read, by source order."""
    out = []
    for n in _own_nodes(ctx.func):
        if not isinstance(n, ast.Call):
            continue
        if isinstance(n.func, ast.Attribute) and n.func.attr in ("seek", "read", "tell", "readinto", "readline", "readlines", "readall"):
            out.append((n, n.func.attr, n.func.value))
    return out


def check_typestate(chk: Check, ctx: FuncCtx, handle_pred, name_prefix, allow_end=False, extra_reads=()):
    """K-TYPESTATE for one function: each read on a handle selected by handle_pred(term) is reached only
    through an absolute seek on the same handle with no other I/O on it in between (CFG walk backwards)."""
    cfg = ctx.cfg
    R = chk.R
    events = {}  # cfg node -> list of (order, kind, handle term, call)
    for n, kind, recv in _io_calls(ctx):
        h = R.expr(ctx, recv)
        if not handle_pred(h):
            continue
        node = cfg.node_for(n)
        events.setdefault(node, []).append(((n.lineno, n.col_offset), kind, h, n))
    ctype_nodes = {id(n) for n, _ in extra_reads}
    for n in _own_nodes(ctx.func):
        if isinstance(n, ast.Call) and id(n) not in ctype_nodes and not (
                isinstance(n.func, ast.Attribute) and n.func.attr in ("seek", "read", "tell", "readinto")):
            for a in list(n.args) + [k.value for k in n.keywords]:
                if isinstance(a, (ast.Name, ast.Attribute)):
                    h = R.expr(ctx, a)
                    if _looks_like_handle(h) and handle_pred(h):
                        node = cfg.node_for(n)
                        events.setdefault(node, []).append(((n.lineno, n.col_offset), "escape", h, n))
    for n, h in extra_reads:  # cstruct type calls: (call node, handle term)
        if handle_pred(h):
            node = cfg.node_for(n)
            events.setdefault(node, []).append(((n.lineno, n.col_offset), "read", h, n))
    for evs in events.values():
        evs.sort(key=lambda e: e[0])
    results = []
    for node, evs in events.items():
        for i, (order, kind, h, call) in enumerate(evs):
            if kind != "read":
                continue
            # previous event in the same node?
            ok = None
            prev = [e for e in evs[:i] if same_handle(e[2], h) and not _transparent(chk, ctx, e)]
            if prev:
                ok = _is_abs_seek(chk, ctx, prev[-1], allow_end)
                why = "seek in the same statement" if ok else f"preceded by {prev[-1][1]} on the same handle without a seek"
            else:
                ok, why = _walk_back(chk, ctx, node, h, events, allow_end)
            results.append((call, ok, why, h))
    return results


def _looks_like_handle(h):
    alts = S.alternatives(h)
    return any(a[0] == "p" or (a[0] == "call" and a[1] in (".open", "ext:io.BytesIO")) for a in alts)


def _is_abs_seek(chk, ctx, ev, allow_end):
    order, kind, h, call = ev
    if kind != "seek":
        return False
    whence = None
    if len(call.args) >= 2:
        whence = call.args[1]
    for kw in call.keywords:
        if kw.arg == "whence":
            whence = kw.value
    if whence is None:
        return True
    try:
        w = chk.prog.fold(whence, ctx.mi, ctx.ci)
    except NotConst:
        return False
    return w == 0 or (allow_end and w == 2)


def _transparent(chk, ctx, ev):
    """Events that keep the position *known relative to the last absolute seek*: sequential reads, tell,
    relative seeks."""
    order, kind, h, call = ev
    if kind in ("read", "tell", "readinto"):
        return True
    if kind == "seek":
        return not _is_abs_seek(chk, ctx, ev, True) and _is_rel_seek(chk, ctx, ev)
    return False


def _is_rel_seek(chk, ctx, ev):
    call = ev[3]
    whence = call.args[1] if len(call.args) >= 2 else None
    for kw in call.keywords:
        if kw.arg == "whence":
            whence = kw.value
    if whence is None:
        return False
    try:
        return chk.prog.fold(whence, ctx.mi, ctx.ci) == 1
    except NotConst:
        return False


def _walk_back(chk, ctx, node, h, events, allow_end):
    """All backward paths from `node` hit an absolute seek on h before any other I/O on h or the entry."""
    seen = set()
    stack = [p for p, _ in node.pred]
    if not stack:
        return False, "read at function entry without a seek"
    while stack:
        n = stack.pop()
        if n in seen:
            continue
        seen.add(n)
        evs = [e for e in events.get(n, []) if same_handle(e[2], h) and not _transparent(chk, ctx, e)]
        if evs:
            last = evs[-1]
            if _is_abs_seek(chk, ctx, last, allow_end):
                continue  # this path is fine
            return False, f"a path reaches the read after `{last[1]}` at line {last[3].lineno} without an absolute seek"
        if n is ctx.cfg.entry:
            return False, "a path from the function entry reaches the read without a seek (depends on the handle position left by earlier operations)"
        stack.extend(p for p, _ in n.pred)
    return True, "dominated by an absolute seek on every path"


# ---------------------------------------------------------------------------------------
# loops


def loops_of(ctx: FuncCtx, kind=ast.While):
    return [l for l in ctx.loops if isinstance(l, kind)]


def _node_reads(node, name) -> bool:
    a = node.ast
    if not isinstance(a, ast.AST) or node.kind in ("entry", "exit", "raise"):
        return False
    if node.kind == "test":
        exprs = [a.test] if hasattr(a, "test") else [a]
    elif node.kind == "for":
        exprs = [a.iter]
    elif node.kind == "with":
        exprs = [i.context_expr for i in getattr(a, "items", [])]
    elif node.kind == "stmt":
        exprs = [a]
    else:
        exprs = [a]
    dotted = "." in name
    for e in exprs:
        for x in ast.walk(e):
            if isinstance(x, ast.Name) and x.id == name and isinstance(x.ctx, ast.Load):
                return True
            if isinstance(x, ast.AugAssign) and isinstance(x.target, ast.Name) and x.target.id == name:
                return True
            if dotted and isinstance(x, ast.Attribute):
                # a pseudo-variable `self.x`: any mention that is not a plain store is a read (also `self.x += ..`, `self.x.append(..)`)
                if ast.unparse(x) == name and (isinstance(x.ctx, ast.Load) or any(isinstance(p_, ast.AugAssign) and p_.target is x for p_ in ast.walk(e))):
                    return True
    return False


def _dead_at_header(cfg, hdr, body, name) -> bool:
    """The value `name` has at the loop header is never read: on every path from the header a definition comes before any use
    (inside the loop and behind it)."""
    seen = set()
    stack = [s_ for s_, lab in hdr.succ if lab != "exc"]
    if _node_reads(hdr, name):
        return False
    while stack:
        n = stack.pop()
        if n in seen or n is hdr:
            continue
        seen.add(n)
        if _node_reads(n, name):
            return False
        if any(d.name == name for d in cfg.defs_at.get(n, ())):
            continue
        if n.kind in ("exit",):
            continue
        stack.extend(s_ for s_, lab in n.succ if lab != "exc")
    return True


def loop_carried(chk: Check, ctx: FuncCtx, loop):
    """Loop-carried variables of `loop`: name -> dict(phi=term at loop head, next=[term at each back edge])."""
    cfg = ctx.cfg
    hdr = cfg.node_of[loop]
    body = cfg.loop_nodes[loop]
    memo = chk.memo.setdefault("carried", {})
    if (id(ctx), id(loop)) in memo:
        return memo[(id(ctx), id(loop))][0]
    out = {}
    memo[(id(ctx), id(loop))] = (out, loop)
    for name, defs in cfg.rd_in[hdr].items():
        inside = [d for d in defs if d.node in body]
        outside = [d for d in defs if d.node not in body]
        if not inside or not outside:
            continue
        if "." not in name and _dead_at_header(cfg, hdr, body, name):
            continue  # re-defined in every round before it is read, and not read behind the loop: nothing is carried
        phi = chk.R._name(ctx, name, hdr, {}, False, 0)
        nxt = []
        for src in cfg.back_edge_sources(loop):
            nxt.append((src, chk.R._name(ctx, name, src, {}, True, 0)))
        out[name] = dict(phi=phi, next=nxt)
    return out


class Rounds(list):
    """the rounds of a simulated loop; .final = the state after the last completed round"""
    final = None


class Round(tuple):
    """(state before, visited nodes, exit, watched values) plus .val = the valuation of the round"""
    val = None


def appended_in_round(chk: Check, ctx: FuncCtx, rnd, method="append"):
    """The values handed to `.append(..)` / `.add(..)` ... calls on the nodes a simulated round went through, in order."""
    out = []
    for node in rnd[1]:
        a = node.ast
        if isinstance(a, ast.Expr) and isinstance(a.value, ast.Call) and isinstance(a.value.func, ast.Attribute) and a.value.func.attr == method and a.value.args:
            try:
                out.append((a.value, S.ev(rx(chk, ctx, a.value.args[0], node), rnd.val)))
            except S.EvalError:
                out.append((a.value, None))
    return out


def simulate_loop(chk: Check, ctx: FuncCtx, loop, carried, inputs=None, fields=None, base=None, watch=(), call_models=None):
    """The loop as a transition system evaluated round by round: the state is the values of the loop-carried variables (from
    their entry terms), every round walks the body's CFG under the state plus that round's `inputs` override and, on a back
    edge, evaluates the variables' back-edge terms to get the next state.  No repository code runs: only reconstructed terms
    are evaluated.  -> [(state before, visited nodes, exit, {watched name: value at the exit})]"""
    cfg = ctx.cfg
    hdr = cfg.node_of[loop]
    within = cfg.loop_nodes[loop] | {hdr}
    if isinstance(loop, ast.For):
        start = [s for s, lab in hdr.succ if lab == "T"][0]
    else:
        start = hdr
    state = {}
    for name, inf in carried.items():
        phi = inf["phi"]
        if phi[0] == "phi":
            v0 = S.Valuation(1, override=base, fields=fields)
            v0.call_models = call_models
            try:
                state[name] = S.ev(phi[3], v0)
            except S.EvalError:
                state[name] = None
    if inputs is None:
        inputs = [{}] * 64
        if isinstance(loop, ast.For):
            # the elements the loop runs over, when its iterable evaluates to a concrete sequence under the model
            it = chk.R.expr(ctx, loop.iter, hdr, binds={"__exclude_loop__": loop})
            v0 = S.Valuation(1, override=base, fields=fields)
            v0.call_models = call_models
            try:
                seq = S.ev(it, v0)
            except S.EvalError:
                seq = None
            if isinstance(seq, (tuple, list, range)) and len(seq) <= 4096:
                inputs = []
                for el in seq:
                    d = {("iter", it, None): el}
                    if isinstance(el, tuple):
                        for i_, x in enumerate(el):
                            d[("iter", it, i_)] = x
                    inputs.append(d)
            else:
                return Rounds()
    rounds = Rounds()
    rounds.final = dict(state)
    for inp in inputs:
        ov = dict(base or {})
        ov.update(inp)
        for name, v in state.items():
            ov[carried[name]["phi"]] = v
        val = S.Valuation(1, override=ov, fields=fields)
        val.call_models = call_models
        visited, ex = walk_cfg(chk, ctx, start, val, within=within)
        at = {}
        srcs = list(cfg.back_edge_sources(loop))
        back = ex[0] in ("back", "left", "continue") and not (ex[0] == "left" and ex[1] is not hdr)
        src = None
        if back:
            hit = [x for x in srcs if x in visited]
            src = hit[-1] if hit else None
        for name in watch:
            try:
                if back and src is not None:
                    at[name] = S.ev(dict(carried[name]["next"])[src], val)
                elif visited:
                    at[name] = S.ev(rn(chk, ctx, name, visited[-1], False), val)
            except S.EvalError:
                at[name] = None
        rnd = Round((dict(state), visited, ex, at))
        rnd.val = val
        rounds.append(rnd)
        if not back or src is None:
            break
        new = {}
        for name in state:
            try:
                new[name] = S.ev(dict(carried[name]["next"])[src], val)
            except S.EvalError:
                new[name] = None
        state = new
        rounds.final = dict(state)
    return rounds


def after_loop_valuation(chk: Check, ctx: FuncCtx, loop, carried, rounds, fields=None, call_models=None):
    """The valuation for the statements behind a simulated loop: there a carried variable reads as the join of its definitions,
    and that join has the final state's value."""
    within = ctx.cfg.loop_nodes[loop] | {ctx.cfg.node_of[loop]}
    ov = dict(rounds[-1].val.override) if rounds else {}
    for node in ctx.cfg.nodes:
        if node in within or not isinstance(getattr(node, "ast", None), ast.AST):
            continue
        for name in carried:
            if name in rounds.final:
                tt = rn(chk, ctx, name, node, False)
                if not S.is_const(tt) and tt not in ov:
                    ov[tt] = rounds.final[name]
    val = S.Valuation(1, override=ov, fields=fields)
    val.call_models = call_models
    return val


def simulate_generator(chk: Check, ctx: FuncCtx, loop, base=None, fields=None, call_models=None, max_rounds=64):
    """The values a single-loop generator yields for one model input: rounds of `simulate_loop` plus the statements behind the
    loop (evaluated with the final state).  -> list of values | None (not decidable by evaluation) | ("raise",)"""
    carried = loop_carried(chk, ctx, loop)
    out = []
    # the way to the loop: what is yielded in front of it, and a fast path that ends the generator there
    hdr0 = ctx.cfg.node_of[loop]
    v_pre = S.Valuation(1, override=base, fields=fields)
    v_pre.call_models = call_models
    pre_nodes, pre_exit = walk_cfg(chk, ctx, ctx.cfg.entry, v_pre, stop=lambda n_: n_ is hdr0)
    if pre_exit[0] not in ("stop", "return", "exit"):
        return ("raise",) if pre_exit[0] == "raise" else None
    rounds = simulate_loop(chk, ctx, loop, carried, None, fields=fields, base=base, call_models=call_models) if pre_exit[0] == "stop" else Rounds()
    if not rounds and not isinstance(loop, ast.For) and pre_exit[0] == "stop":
        return None

    def collect(nodes, val):
        for node in nodes:
            a = node.ast
            if node.kind != "stmt" or not isinstance(a, ast.AST):
                continue
            for y in ast.walk(a):
                if isinstance(y, ast.Yield):
                    out.append(S.ev(rx(chk, ctx, y.value, node), val) if y.value is not None else None)

    try:
        collect(pre_nodes, v_pre)
        if pre_exit[0] != "stop":
            return out
        for r in rounds:
            if r[2][0] in ("fork", "limit"):
                return None
            collect(r[1], r.val)
        last = rounds[-1] if rounds else None
        kind = last[2][0] if last is not None else "exhausted"
        if kind == "raise":
            return ("raise",)
        if kind == "return" or kind == "exit":
            return out
        hdr = ctx.cfg.node_of[loop]
        if isinstance(loop, ast.For) and kind in ("back", "continue", "exhausted", "break"):
            # the elements are used up (or the loop was left by break): go on behind the loop
            after = [s_ for s_, lab in hdr.succ if lab != "T" and lab != "exc"]
            if not after:
                return out
            start = after[0]
            if kind == "break":
                return None  # values at a break are not the header's: not handled
            if not rounds:
                rounds = Rounds()
                rounds.final = {}
                v0 = S.Valuation(1, override=base, fields=fields)
                v0.call_models = call_models
                for name, inf in carried.items():
                    if inf["phi"][0] == "phi":
                        try:
                            rounds.final[name] = S.ev(inf["phi"][3], v0)
                        except S.EvalError:
                            rounds.final[name] = None

                class _R:
                    val = v0
                rounds.append(_R())
        elif kind != "left" or last[2][1] is hdr:
            return None
        else:
            start = last[2][1]
        val = after_loop_valuation(chk, ctx, loop, carried, rounds, fields=fields, call_models=call_models)
        visited, ex = walk_cfg(chk, ctx, start, val)
        if ex[0] in ("fork", "limit"):
            return None
        collect(visited, val)
        if ex[0] == "raise":
            return ("raise",)
    except S.EvalError:
        return None
    return out


def simulate_assembly(chk: Check, ctx: FuncCtx, loop, base=None, fields=None, call_models=None, own_handle=None, parent=None, max_rounds=64, inputs=None):
    """How a read loop assembles its result for one model input, by evaluating the loop round by round: the pieces handed to
    `<acc>.append(piece)` (placed one after the other) or stored with `<buf>[a:b] = piece` (placed at a), each classified as
    zeros / own-file read at the position of the seek that precedes it / parent read.
    -> ([(output offset, length, 'zeros' | 'file' | 'parent', source offset | None)], total length | None) or None (not decidable)"""
    R = chk.R
    carried = loop_carried(chk, ctx, loop)
    # the way to the loop: a fast path in front of it may answer the request on its own (`return <one piece>`)
    hdr0 = ctx.cfg.node_of[loop]
    v_pre = S.Valuation(1, override=base, fields=fields)
    v_pre.call_models = call_models
    pre_nodes, pre_exit = walk_cfg(chk, ctx, ctx.cfg.entry, v_pre, stop=lambda n_: n_ is hdr0)
    early = None
    if pre_exit[0] == "return":
        early = pre_exit[1]
    elif pre_exit[0] == "raise":
        return None
    elif pre_exit[0] != "stop":
        return None

    class _Pre(tuple):
        val = v_pre
    if early is not None:
        rounds = Rounds([_Pre(({}, pre_nodes, ("left", None), {}))])
    elif isinstance(loop, ast.For) and inputs is None:
        # a for loop: over the elements its iterable evaluates to under the model
        rounds = simulate_loop(chk, ctx, loop, carried, None, fields=fields, base=base, call_models=call_models)
        if any(r[2][0] not in ("back", "continue") for r in rounds[:-1]) or (rounds and rounds[-1][2][0] not in ("back", "continue", "break")):
            return None
        it_ = R.expr(ctx, loop.iter, hdr0, binds={"__exclude_loop__": loop})
        try:
            seq_ = S.ev(it_, v_pre)
        except S.EvalError:
            return None
        if not isinstance(seq_, (tuple, list, range)) or (len(rounds) != len(seq_) and not (rounds and rounds[-1][2][0] == "break")):
            return None
    else:
        rounds = simulate_loop(chk, ctx, loop, carried, [{}] * max_rounds if inputs is None else inputs, fields=fields, base=base, call_models=call_models)
        if inputs is None:
            if not rounds or rounds[-1][2][0] != "left":
                return None
        elif len(rounds) != len(inputs) or any(r[2][0] not in ("back", "continue") for r in rounds):
            return None  # a loop over given elements runs once per element
    segs = []
    pos = 0
    last_seek = {}
    total = None
    try:
        # a pre-sized zero buffer: bytearray(n)
        for n in _own_nodes(ctx.func):
            if isinstance(n, ast.Assign) and isinstance(n.value, ast.Call) and isinstance(n.value.func, ast.Name) and n.value.func.id in ("bytearray", "bytes") \
                    and len(n.value.args) == 1 and not any(n is x for x in ast.walk(loop)):
                v0 = S.Valuation(1, override=base, fields=fields)
                v0.call_models = call_models
                tv = S.ev(R.expr(ctx, n.value.args[0], ctx.cfg.node_of.get(n)), v0)
                if isinstance(tv, int):
                    total = tv
        for r in rounds:
            if r[2][0] in ("fork", "limit"):
                return None
            for node in r[1]:
                a = node.ast
                if node.kind != "stmt" or not isinstance(a, ast.AST):
                    continue
                for c in ast.walk(a):
                    if isinstance(c, ast.Call) and isinstance(c.func, ast.Attribute) and c.func.attr == "seek" and c.args:
                        h = rx(chk, ctx, c.func.value, node)
                        last_seek[h] = S.ev(rx(chk, ctx, c.args[0], node), r.val)
                piece = where = None
                if isinstance(a, ast.Expr) and isinstance(a.value, ast.Call) and isinstance(a.value.func, ast.Attribute) and a.value.func.attr == "append" and len(a.value.args) == 1:
                    piece = a.value.args[0]
                elif early is not None and node is early and isinstance(a, ast.Return) and a.value is not None:
                    piece = a.value  # the fast path's answer is the whole result
                elif isinstance(a, ast.Assign) and len(a.targets) == 1 and isinstance(a.targets[0], ast.Subscript) and isinstance(a.targets[0].slice, ast.Slice):
                    sl = a.targets[0].slice
                    if sl.lower is None or sl.step is not None:
                        return None
                    where = S.ev(rx(chk, ctx, sl.lower, node), r.val)
                    piece = a.value
                if piece is None:
                    continue
                t = rx(chk, ctx, piece, node)
                # a conditional piece: the alternative whose conditions hold
                chosen = None
                for extra, alt in split_alternatives(t):
                    if eval_conds(list(extra), r.val):
                        chosen = alt
                        break
                if chosen is None:
                    return None
                eff = classify_effect(chosen, own_handle, parent)
                if eff[0] == "PADDED":
                    eff = eff[1]
                at = pos if where is None else where
                if eff[0] == "ZEROS":
                    ln = S.ev(eff[1], r.val)
                    segs.append((at, ln, "zeros", None))
                elif eff[0] == "FILE":
                    ln = S.ev(eff[2], r.val) if eff[2] is not None else None
                    src = last_seek.get(eff[1])
                    if ln is None or src is None:
                        return None
                    # (several handles in play - a walk over storages: the piece names the handle it was read from)
                    segs.append((at, ln, "file" if own_handle is not None else f"file:{S._key(S.ev(eff[1], r.val))}", src))
                    last_seek[eff[1]] = src + ln
                elif eff[0] == "PARENT":
                    src = None
                    if eff[1] == ".read":
                        ln = S.ev(eff[2][0], r.val) if eff[2] else None
                        for h, v in last_seek.items():
                            if parent is not None and same_handle(h, parent):
                                src = v
                    elif eff[1] == "._read" and len(eff[2]) == 2:
                        src, ln = S.ev(eff[2][0], r.val), S.ev(eff[2][1], r.val)  # parent._read(offset, length)
                    else:
                        return None
                    if ln is None:
                        return None
                    segs.append((at, ln, "parent", src))
                else:
                    return None
                if not isinstance(ln, int) or isinstance(ln, bool):
                    return None
                if where is None:
                    pos += ln
    except S.EvalError:
        return None
    return segs, total


def carried_with_entry(chk: Check, carried, entry_term):
    """The loop-carried variable whose value on loop entry equals `entry_term`."""
    for name, info in carried.items():
        phi = info["phi"]
        if phi[0] != "phi":
            continue
        if S.is_const(entry_term) or S.is_const(phi[3]):
            # constants: same value AND same type (0 is not False, None is not 0)
            if S.is_const(entry_term) and S.is_const(phi[3]) and phi[3][1] == entry_term[1] and type(phi[3][1]) is type(entry_term[1]):
                return name, info
            continue
        if S.equiv(phi[3], entry_term, n=40).equal is True:
            return name, info
    return None, None


def zeros_len(t):
    """If t denotes a run of zero bytes, return the term of its length, else None."""
    if S.is_const(t) and isinstance(t[1], (bytes, bytearray)) and set(t[1]) <= {0}:
        return S.C(len(t[1]))
    if t[0] == "op" and t[1] == "mul":
        for a, b in ((t[2], t[3]), (t[3], t[2])):
            la = zeros_len(a)
            if la is not None and zeros_len(b) is None:
                return S.op("mul", la, b)
    if t[0] == "call" and t[1] in ("bytes", "bytearray") and len(t[2]) == 1:
        return t[2][0]
    return None


def split_alternatives(t, conds=()):
    """A value selected by conditions, ite(c, a, b), as separate (extra path conditions, value) alternatives."""
    if isinstance(t, tuple) and t and t[0] == "ite":
        return split_alternatives(t[2], conds + ((t[1], True),)) + split_alternatives(t[3], conds + ((t[1], False),))
    return [(conds, t)]


def site_with_conds(node, extra):
    """A stand-in for `node` (same position, same parent) that carries extra path conditions for conds_sym."""
    if not extra:
        return node
    import copy

    c = copy.copy(node)
    c._hv_extra_conds = tuple(getattr(node, "_hv_extra_conds", ())) + tuple(extra)
    c._hv_origin = getattr(node, "_hv_origin", node)
    return c


def appends_in(chk: Check, ctx: FuncCtx):
    """`<list>.append(x)` calls of a function: (call, term of x).  When x is a value chosen by conditions (the result of
    an inlined helper, a conditional expression) every alternative is a site of its own carrying those conditions."""
    out = []
    for n in calls_named(ctx, "append"):
        if len(n.args) == 1:
            t = chk.R.expr(ctx, n.args[0])
            for extra, alt in split_alternatives(t):
                out.append((site_with_conds(n, extra), alt))
    return out


CURRENT = None  # the running Check (set by the engine): lets AST-level helpers consult the reconstruction


def _memo_store(func: ast.FunctionDef, n) -> bool:
    """Is the store `n` (inside `func`) a per-instance memo: `self.A[K] = V` or `self.A = (K, V)` where
      - A is created in __init__ (and is no class-level name), and only this function mentions it,
      - V is a function of K and of the object alone: once the components of K are taken as given, V's term mentions no parameter of
        the function any more,
      - what the function reads back from A is read under the same key (`self.A[K]`, or `self.A[0] == K` guarding `self.A[1]`)?
    Such a store can only ever make a later call return what it would have computed anyway."""
    chk = CURRENT
    if chk is None or not isinstance(n, ast.Assign) or len(n.targets) != 1:
        return False
    try:
        R = chk.R
        ctx = R.ctx_of(func)
        if ctx.ci is None:
            return False
        selfname = func.args.args[0].arg
        tgt = n.targets[0]
        node = ctx.cfg.node_of.get(n)
        if isinstance(tgt, ast.Subscript) and isinstance(tgt.value, ast.Attribute) and isinstance(tgt.value.value, ast.Name) and tgt.value.value.id == selfname:
            attr, K_ast, V_ast, slot = tgt.value.attr, tgt.slice, n.value, False
        elif isinstance(tgt, ast.Attribute) and isinstance(tgt.value, ast.Name) and tgt.value.id == selfname and isinstance(n.value, ast.Tuple) and len(n.value.elts) == 2:
            attr, K_ast, V_ast, slot = tgt.attr, n.value.elts[0], n.value.elts[1], True
        else:
            return False
        ci = ctx.ci
        if attr in ci.class_assigns or attr in ci.annotations and attr not in [a for a in ci.self_assigns]:
            if attr in ci.class_assigns:
                return False
        inits = [(f, st) for f, st, _v in ci.self_assigns.get(attr, ()) if f.name == "__init__"]
        if not inits:
            return False
        # nobody else touches it
        for m in ci.methods.values():
            if m is func or m.name == "__init__":
                continue
            if any(isinstance(x, ast.Attribute) and x.attr == attr for x in ast.walk(m)):
                return False
        K = R.expr(ctx, K_ast, node)
        V = R.expr(ctx, V_ast, node)
        comps = list(K[1]) if K[0] == "tuple" else [K]
        mapping = {c: ("unk", f"key-component-{i}") for i, c in enumerate(comps) if not S.is_const(c)}
        V2 = S.subst(V, mapping) if mapping else V
        params = {("p", ctx.qual, i) for i in range(len(func.args.args))}
        if S.contains(V2, lambda x: x in params):
            return False
        if S.opaque_parts(V) and False:
            return False
        # reads of the table in this function use the same key
        for x in ast.walk(func):
            if isinstance(x, ast.Subscript) and isinstance(x.ctx, ast.Load):
                b = x.value
                if isinstance(b, ast.Attribute) and b.attr == attr and isinstance(b.value, ast.Name) and b.value.id == selfname and not slot:
                    if R.expr(ctx, x.slice, ctx.cfg.node_for(x)) != K:
                        return False
        if slot:
            # single slot: some comparison of the remembered key with K guards the reuse
            ok = False
            for x in ast.walk(func):
                if isinstance(x, ast.Compare) and len(x.ops) == 1 and isinstance(x.ops[0], ast.Eq):
                    for a_, b_ in ((x.left, x.comparators[0]), (x.comparators[0], x.left)):
                        try:
                            if R.expr(ctx, b_, ctx.cfg.node_for(x)) == K and "0" in ast.unparse(a_):
                                ta = R.expr(ctx, a_, ctx.cfg.node_for(x))
                                if S.contains(ta, lambda y: isinstance(y, tuple) and y and y[0] == "sub" and y[2] == S.C(0)):
                                    ok = True
                        except Exception:
                            pass
            if not ok:
                return False
        return True
    except Exception:
        return False


def memo_read_returns(func: ast.FunctionDef):
    """Return statements of `func` that hand back an entry of a per-instance memo table (see _memo_store): on such a path the
    function does not compute anything - an earlier call, which did, left exactly this value."""
    selfname = func.args.args[0].arg if func.args.args else None
    attrs = set()
    for n in ast.walk(func):
        if isinstance(n, ast.Assign) and _memo_store(func, n):
            t = n.targets[0]
            attrs.add(t.value.attr if isinstance(t, ast.Subscript) else t.attr)
    out = []
    if not attrs:
        return out
    for r in ast.walk(func):
        if isinstance(r, ast.Return) and r.value is not None:
            v = r.value
            names = set()
            if isinstance(v, ast.Name):
                # a local bound from the table (`cached = self._c; ... return cached[1]` is a Subscript; `v = self._c.get(k)`)
                continue
            base = v
            while isinstance(base, ast.Subscript):
                base = base.value
            if isinstance(base, ast.Attribute) and base.attr in attrs and isinstance(base.value, ast.Name) and base.value.id == selfname and isinstance(v, ast.Subscript):
                out.append(r)
            elif isinstance(base, ast.Name) and isinstance(v, ast.Subscript):
                # cached = self.A ; return cached[1]
                for a_ in ast.walk(func):
                    if isinstance(a_, ast.Assign) and len(a_.targets) == 1 and isinstance(a_.targets[0], ast.Name) and a_.targets[0].id == base.id \
                            and isinstance(a_.value, ast.Attribute) and a_.value.attr in attrs:
                        out.append(r)
                        break
    return out


def self_stores(func: ast.FunctionDef):
    """Stores to attributes/subscripts of self (and mutating calls on them) inside a function body.  (A per-instance memo keyed
    by everything its value depends on - see _memo_store - is not reported.)"""
    selfname = func.args.args[0].arg if func.args.args else None
    out = []
    MUT = {"append", "extend", "insert", "pop", "remove", "clear", "update", "setdefault", "sort", "reverse",
           "popitem", "add", "discard", "__setitem__", "frombytes", "fromstring"}
    for n in _own_nodes(func):
        targets = []
        if isinstance(n, ast.Assign):
            targets = n.targets
        elif isinstance(n, (ast.AugAssign, ast.AnnAssign)):
            targets = [n.target]
        elif isinstance(n, ast.Delete):
            targets = n.targets
        for t in targets:
            for tt in (t.elts if isinstance(t, (ast.Tuple, ast.List)) else [t]):
                base = tt
                while isinstance(base, (ast.Attribute, ast.Subscript)):
                    base = base.value
                if isinstance(tt, (ast.Attribute, ast.Subscript)) and isinstance(base, ast.Name) and base.id == selfname:
                    if _memo_store(func, n):
                        continue
                    out.append((n, f"store to {ast.unparse(tt)}"))
        if isinstance(n, ast.Call) and isinstance(n.func, ast.Attribute) and n.func.attr in MUT:
            base = n.func.value
            while isinstance(base, (ast.Attribute, ast.Subscript)):
                base = base.value
            if isinstance(base, ast.Name) and base.id == selfname and isinstance(n.func.value, (ast.Attribute, ast.Subscript)):
                out.append((n, f"mutating call {ast.unparse(n.func)}()"))
    return out


# ---------------------------------------------------------------------------------------
# decision tables


def cmp_subject(t):
    """For a comparison term with one constant side return (subject, op, constant), else None."""
    if t[0] == "cmp":
        if S.is_const(t[3]) and not S.is_const(t[2]):
            return t[2], t[1], t[3][1]
        if S.is_const(t[2]) and not S.is_const(t[3]):
            return t[3], t[1], t[2][1]
    if t[0] == "not":
        return cmp_subject(t[1])
    return None


def decision_on(conds, subject, values, seed=1, fields=None, extra=None):
    """value -> do all path conditions that mention `subject` hold when subject := value?
    (conditions that do not mention the subject are assumed to hold)"""
    rel = [(t, p) for t, p in conds if S.contains(t, lambda x: x == subject)]
    out = {}
    for v in values:
        ov = {subject: v}
        if extra:
            ov.update(extra)
        out[v] = eval_conds(rel, S.Valuation(seed, override=ov, fields=fields))
    return out


def decision_fields(conds, fieldkey, values, seed=1, extra_fields=None, only_relevant=True):
    """Like decision_on, with the subject given as (struct, offset): every instance of that field."""
    def has(t):
        return S.contains(t, lambda x: isinstance(x, tuple) and x and x[0] == "f" and (x[1], x[2]) == fieldkey)
    rel = [(t, p) for t, p in conds if has(t)] if only_relevant else conds
    out = {}
    for v in values:
        f = {fieldkey: v}
        if extra_fields:
            f.update(extra_fields)
        out[v] = eval_conds(rel, S.Valuation(seed, fields=f))
    return out


def all_alternatives_are_field(t, struct, offset, width):
    alts = S.alternatives(t)
    return bool(alts) and all(a[0] == "f" and a[1] == struct and a[2] == offset and a[3] == width for a in alts)


# ---------------------------------------------------------------------------------------
# shared stream rules


def _ValSub(term, value, seed=1):
    """Valuation that forces the value of one (possibly non-leaf) term."""
    return S.Valuation(seed, override={term: value})


def _byte_to_sector(chk: Check, rel, qual, sector_size_term, names=None):
    """_read(offset, length) -> read_sectors(offset // S, ceil(length / S))"""
    R = chk.R
    ctx = chk.func(rel, qual)
    env = {"offset": ("p", ctx.qual, 1), "length": ("p", ctx.qual, 2), "SS": sector_size_term}
    calls = [n for n in ast.walk(ctx.func) if isinstance(n, ast.Call) and isinstance(n.func, ast.Attribute)
             and n.func.attr == "read_sectors"]
    if not calls:
        chk.undecided("K-FORMULA", "byte-to-sector", ctx.func, "no read_sectors call in the byte interface")
        return
    c = calls[0]
    chk.formula("K-FORMULA", "byte-to-sector:sector", c, R.expr(ctx, c.args[0]), spec_expr("offset // SS", env))
    chk.formula("K-FORMULA", "byte-to-sector:count", c, R.expr(ctx, c.args[1]), spec_expr("ceildiv(length, SS)", env))
    rets = [n for n in ast.walk(ctx.func) if isinstance(n, ast.Return)]
    ok = len(rets) == 1 and rets[0].value is c
    chk.decide(ok, "K-FORMULA", "byte-to-sector:returns-sector-read", ctx.func,
               "the byte interface returns exactly the sector read's result")


def ctype_reads(chk: Check, ctx):
    """cstruct type calls `c_x.T(handle)` / `c_x.T[n](handle)` of a function: (call node, handle term)."""
    out = []
    for n in _own_nodes(ctx.func):
        if not isinstance(n, ast.Call):
            continue
        t = chk.R.expr(ctx, n)
        rd = t[2] if t[0] == "inst" and isinstance(t[2], tuple) and t[2] and t[2][0] == "read" else t if t[0] == "read" else None
        if rd is None or len(rd) < 5 or rd[4][1] != ctx.qual:
            continue
        # the read site must be this very call (not one inlined from elsewhere)
        h = rd[3]
        if not n.args:
            continue
        h = chk.R.expr(ctx, n.args[0])
        if not _looks_like_handle(h) or (h[0] == "call" and h[1] == "ext:io.BytesIO"):
            continue  # parsing from an in-memory buffer / bytes
        out.append((n, h))
    return out


def _typestate(chk: Check, ctx, tag, allow_end=False, extra=(), handle_pred=None):
    extra = list(extra) + ctype_reads(chk, ctx)
    def default_pred(h):
        # file handles come from constructor parameters / open(); objects built in memory are not position-shared
        if S.contains(h, lambda x: isinstance(x, tuple) and x and x[0] == "call" and x[1] in ("ext:io.BytesIO", ".stream_reader", "ext:zlib.decompressobj")):
            return False
        return True

    res = check_typestate(chk, ctx, handle_pred or default_pred, tag, allow_end=allow_end, extra_reads=extra)
    for call, ok, why, h in res:
        chk.decide(ok, "K-TYPESTATE", f"{tag}:seek-before-read", call, why)
    return res


# ---------------------------------------------------------------------------------------
# effect classification and decision tables over controlled subjects


def classify_effect(t, own_handle=None, parent=None):
    """Class of the data appended to a result list: ('ZEROS', length) / ('FILE', handle, length) /
    ('PARENT', callee, args) / ('CALL', name, args) / ('JOIN', [classes]) / ('OTHER', term)."""
    z = zeros_len(t)
    if z is not None:
        return ("ZEROS", z)
    if t[0] == "join":
        return ("JOIN", [classify_effect(a, own_handle, parent) for a in t[1]])
    if t[0] == "ite":
        return ("JOIN", [classify_effect(t[2], own_handle, parent), classify_effect(t[3], own_handle, parent)])
    if t[0] == "call" and t[1].startswith(".") and t[2]:
        recv = t[2][0]
        if parent is not None and same_handle(recv, parent):
            return ("PARENT", t[1], t[2][1:])
        if t[1] == ".read" and (own_handle is None or same_handle(recv, own_handle)):
            return ("FILE", recv, t[2][1] if len(t[2]) > 1 else None)
        if t[1] in (".ljust",):
            inner = classify_effect(recv, own_handle, parent)
            return ("PADDED", inner, t[2][1:])
        return ("OTHER", t)
    if t[0] == "call":
        return ("CALL", t[1], t[2])
    if t[0] == "sub":
        inner = classify_effect(t[1], own_handle, parent)
        if inner[0] == "CALL":
            return ("CALL", inner[1], inner[2], t[2])
    return ("OTHER", t)


def reach_table(conds, controlled: dict, combos, override=None, fields=None):
    """controlled: name -> term (or ('field', key)); combos: list of dict name -> value.
    For each combo: do all path conditions that mention a controlled subject hold?"""
    terms = {n: t for n, t in controlled.items() if not (isinstance(t, tuple) and t and t[0] == "field")}
    fkeys = {n: t[1] for n, t in controlled.items() if isinstance(t, tuple) and t and t[0] == "field"}

    def mentions(c):
        def hit(x):
            if not (isinstance(x, tuple) and x):
                return False
            if x in terms.values():
                return True
            if x[0] == "f":
                return (x[1], x[2], x[5]) in fkeys.values() or (x[1], x[2]) in fkeys.values()
            return False
        return S.contains(c, hit)

    rel = [(t, p) for t, p in conds if mentions(t)]
    out = []
    for combo in combos:
        ov = dict(override or {})
        ov.update({terms[n]: v for n, v in combo.items() if n in terms})
        fl = dict(fields or {})
        fl.update({fkeys[n]: v for n, v in combo.items() if n in fkeys})
        out.append(eval_conds(rel, S.Valuation(1, override=ov, fields=fl)))
    return out


# ---------------------------------------------------------------------------------------
# loop-free function evaluation (decision structure), dead reads


def func_outcomes(chk: Check, ctx: FuncCtx):
    """Return/raise exits of a function with their path conditions: [(kind, stmt, conds, value term|None)]."""
    out = []
    for n in sorted((x for x in _own_nodes(ctx.func) if isinstance(x, (ast.Return, ast.Raise))),
                    key=lambda x: (x.lineno, x.col_offset)):
        conds = conds_sym(chk, ctx, n)
        if isinstance(n, ast.Return):
            v = chk.R.expr(ctx, n.value, ctx.cfg.node_for(n)) if n.value is not None else S.C(None)
            out.append(("return", n, conds, v))
        else:
            out.append(("raise", n, conds, None))
    return out


def func_eval(outcomes, val):
    """Evaluate a loop-free function's decision structure under a valuation.
    -> ('return', value) | ('raise', stmt) | ('ambiguous', n) | ('fallthrough',)"""
    hits = []
    for kind, stmt, conds, v in outcomes:
        r = eval_conds(conds, val)
        if r:
            hits.append((kind, stmt, v))
    if not hits:
        return ("fallthrough",)
    kind, stmt, v = hits[0]  # source order: the first exit whose path condition holds is taken
    if kind == "raise":
        return ("raise", stmt)
    try:
        return ("return", S.ev(v, val))
    except S.EvalError:
        return ("ambiguous", 0)


def superseded_derivations(chk: Check, ctx: FuncCtx, attr: str):
    """Stores `self.y = f(self.<attr>)` whose `self.<attr>` is not the value the object ends up with.

    `self.<attr>` is (re)assigned inside this method (e.g. a footer copy replaces the primary header).  A value derived from
    it and kept on the object must be derived from the FINAL value: the definitions of the pseudo-variable `self.<attr>` that
    reach the store must be exactly those that reach the method's exit.  Reads inside conditions are not stores and are free
    to look at the earlier value (that is how the replacement is decided).  -> [(stmt, stored name)]"""
    cfg = ctx.cfg
    if not cfg.params:
        return []
    selfname = cfg.params[0]
    pseudo = f"{selfname}.{attr}"
    out = []
    for n in sorted((x for x in _own_nodes(ctx.func) if isinstance(x, (ast.Assign, ast.AugAssign, ast.AnnAssign))), key=lambda x: x.lineno):
        targets = n.targets if isinstance(n, ast.Assign) else [n.target]
        stored = [t for t in targets if isinstance(t, ast.Attribute) and isinstance(t.value, ast.Name) and t.value.id == selfname and t.attr != attr]
        if not stored or n.value is None:
            continue
        reads = [x for x in ast.walk(n.value) if isinstance(x, ast.Attribute) and x.attr == attr and isinstance(x.value, ast.Name) and x.value.id == selfname]
        if not reads:
            continue
        node = cfg.node_for(n)
        # forward reachability within one pass: back edges are not followed (a re-assignment in the next round of an
        # enclosing loop is followed by a re-derivation in that round)
        back = {(p_, cfg.node_of[lp]) for lp in cfg.loop_nodes for p_ in cfg.back_edge_sources(lp)}
        after, stack = set(), [node]
        while stack:
            cur = stack.pop()
            if cur in after:
                continue
            after.add(cur)
            for s_, _lab in cur.succ:
                if (cur, s_) not in back:
                    stack.append(s_)
        later = [d for nn in after if nn is not node for d in cfg.defs_at.get(nn, ()) if d.name == pseudo and d.kind != "attr-entry"]
        if later:
            out.append((n, stored[0].attr))
    return out


def check_superseded(chk: Check, rels, kind="K-LIVE"):
    """For every method of the classes in `rels` that assigns some `self.<attr>` more than once: no value kept on the
    object is derived from a `self.<attr>` that the same pass replaces afterwards (superseded_derivations)."""
    from .calls import iter_functions

    n = 0
    for mi, ci, fn in iter_functions(chk.prog):
        if ci is None or mi.mod.relpath not in rels or not fn.args.args:
            continue
        ctx = chk.R.ctx_of(fn)
        sn = fn.args.args[0].arg
        cnt = {}
        for x in _own_nodes(fn):
            if isinstance(x, ast.Assign):
                for t in x.targets:
                    if isinstance(t, ast.Attribute) and isinstance(t.value, ast.Name) and t.value.id == sn:
                        cnt[t.attr] = cnt.get(t.attr, 0) + 1
        for a, c in sorted(cnt.items()):
            if c < 2:
                continue
            n += 1
            bad = superseded_derivations(chk, ctx, a)
            q = ctx.qual.split("::")[-1]
            if bad:
                st, name = bad[0]
                chk.violated(kind, f"derived-from-final:{q}.{a}", st,
                             f"self.{name} is computed from self.{a}, which is replaced later in the same pass: the kept value belongs to the "
                             f"superseded {a} (e.g. the primary header instead of the footer copy) while everything else uses the final one")
            else:
                chk.holds(kind, f"derived-from-final:{q}.{a}", fn, f"self.{a} is assigned {c} times; nothing kept on the object is derived from a superseded value",
                          nontrivial=False)
    return n


def dead_reads(chk: Check, ctx: FuncCtx):
    """Handle reads whose result is overwritten before any use on every path (K-LIVE).
    -> [(stmt, description)] for self-attribute targets and locals."""
    out = []
    cfg = ctx.cfg
    selfname = ctx.func.args.args[0].arg if ctx.func.args.args else None

    def is_read(v):
        t = chk.R.expr(ctx, v)
        if t[0] == "inst" and isinstance(t[2], tuple) and t[2] and t[2][0] == "read":
            return True
        if t[0] == "read":
            return True
        if t[0] == "call" and t[1] in (".read",):
            return True
        if t[0] == "call" and t[1].startswith("(") and "ctype" in t[1]:
            return True
        return False

    assigns = []
    for n in _own_nodes(ctx.func):
        if isinstance(n, ast.Assign) and len(n.targets) == 1:
            tg = n.targets[0]
            if isinstance(tg, ast.Attribute) and isinstance(tg.value, ast.Name) and tg.value.id == selfname:
                assigns.append((n, ("attr", tg.attr)))
    for n, (kind, name) in assigns:
        if not _reads_handle(n.value):
            continue
        node = cfg.node_of.get(n)
        if node is None:
            continue
        # walk forward: does every path hit another store to self.name before any load of self.name or exit?
        dead = _overwritten_before_use(cfg, node, name, selfname)
        if dead:
            out.append((n, f"self.{name} is read from the file here and overwritten at line {dead.lineno} before any use"))
    return out


def _reads_handle(v: ast.AST) -> bool:
    """syntactic: the value is a call with a file-handle-looking argument or a .read()"""
    for x in ast.walk(v):
        if isinstance(x, ast.Call):
            if isinstance(x.func, ast.Attribute) and x.func.attr == "read":
                return True
            if isinstance(x.func, (ast.Subscript, ast.Attribute)) and x.args:
                return True
    return False


def _overwritten_before_use(cfg, start, name, selfname):
    """If on all paths from `start` the next access of self.<name> is a store, return one such store stmt."""
    seen = set()
    stack = [s for s, _ in start.succ]
    store_hit = None
    while stack:
        n = stack.pop()
        if n in seen:
            continue
        seen.add(n)
        if n.kind in ("exit", "raise"):
            if n.kind == "exit":
                return None  # value survives to the end: it is the object's state
            continue
        a = n.ast
        loads, stores = _attr_access(n, name, selfname)
        if loads:
            return None
        if stores:
            store_hit = a
            continue
        stack.extend(s for s, _ in n.succ)
    return store_hit


def _attr_access(node, name, selfname):
    exprs = []
    a = node.ast
    if node.kind == "test":
        exprs = [a.test]
    elif node.kind == "for":
        exprs = [a.iter]
    elif node.kind == "with":
        exprs = [it.context_expr for it in a.items]
    elif node.kind == "stmt":
        exprs = [a]
    loads = stores = False
    for e in exprs:
        for x in ast.walk(e):
            if isinstance(x, ast.Attribute) and x.attr == name and isinstance(x.value, ast.Name) and x.value.id == selfname:
                if isinstance(x.ctx, ast.Store):
                    stores = True
                else:
                    loads = True
    # a store statement evaluates its right-hand side first
    return loads, stores and not loads


def select_branch(t, val):
    """Resolve conditional terms under a valuation: ite(c, a, b) -> a or b."""
    while t[0] == "ite":
        try:
            t = t[2] if S.ev(t[1], val) else t[3]
        except S.EvalError:
            return t
    return t


# ---------------------------------------------------------------------------------------
# CFG walk under a valuation of terms (predicate abstraction: tests are evaluated on the checker's terms)


def rx(chk: Check, ctx: FuncCtx, expr, node):
    """Memoised chk.R.expr(ctx, expr, node) (no binds): simulations evaluate the same terms under many valuations."""
    cache = chk.memo.setdefault("rx", {})
    key = (id(ctx), id(expr), id(node))
    if key not in cache:
        cache[key] = (chk.R.expr(ctx, expr, node), expr)
    return cache[key][0]


def rn(chk: Check, ctx: FuncCtx, name, node, after):
    cache = chk.memo.setdefault("rn", {})
    key = (id(ctx), name, id(node), after)
    if key not in cache:
        cache[key] = (chk.R._name(ctx, name, node, {}, after, 0), node)
    return cache[key][0]


def walk_cfg(chk: Check, ctx: FuncCtx, start, val, stop=None, limit=400, within=None):
    """Follow the CFG from `start` choosing test edges by evaluating the test term under `val`.
    Returns (visited nodes in order, exit) with exit in 'return' / 'raise' / 'break' / 'continue' / 'back' /
    'exit' / 'stop' / 'fork' (a test could not be evaluated) / 'limit'.
    `within`: set of nodes; leaving it ends the walk with ('left', node)."""
    node = start
    seen = []
    for _ in range(limit):
        if stop is not None and stop(node) and node is not start:
            return seen, ("stop", node)
        if node.kind in ("exit",):
            return seen, ("exit", node)
        if node.kind == "raise":
            return seen, ("raise", node)
        if within is not None and node not in within:
            return seen, ("left", node)
        if node in seen and node.kind in ("test", "for") and isinstance(node.ast, (ast.While, ast.For)):
            return seen, ("back", node)
        seen.append(node)
        a = node.ast
        if node.kind == "stmt":
            if isinstance(a, ast.Return):
                return seen, ("return", node)
            if isinstance(a, ast.Raise):
                return seen, ("raise", node)
            if isinstance(a, ast.Break):
                return seen, ("break", node)
            if isinstance(a, ast.Continue):
                return seen, ("continue", node)
        succ = [(s, lab) for s, lab in node.succ if lab != "exc"]
        if node.kind == "test":
            t = rx(chk, ctx, a.test, node)
            try:
                v = bool(S.ev(t, val))
            except S.EvalError:
                return seen, ("fork", node)
            nxt = [s for s, lab in succ if lab == ("T" if v else "F")]
            if not nxt:
                return seen, ("exit", node)
            node = nxt[0]
            continue
        if node.kind == "for":
            # entering the body is decided by the caller through `start`; reaching the header again is a back edge
            if node is not start:
                return seen, ("back", node)
            nxt = [s for s, lab in succ if lab == "T"]
            node = nxt[0] if nxt else succ[0][0]
            continue
        if not succ:
            return seen, ("exit", node)
        node = succ[0][0]
    return seen, ("limit", node)
