"""D10: Snapshots.top_guid - an Element without children is falsy, so TopGUID is never parsed; D14: parent cycle."""
import sys, signal
from defusedxml import ElementTree
from dissect.hypervisor.disk.hdd import Snapshots, Descriptor
from uuid import UUID

xml = """<Snapshots><TopGUID>{11111111-2222-3333-4444-555555555555}</TopGUID>
<Shot><GUID>{11111111-2222-3333-4444-555555555555}</GUID><ParentGUID>{00000000-0000-0000-0000-000000000000}</ParentGUID></Shot></Snapshots>"""
s = Snapshots.from_xml(ElementTree.fromstring(xml))
print("top_guid", repr(s.top_guid))
ok1 = s.top_guid == UUID("11111111-2222-3333-4444-555555555555")

xml2 = """<Snapshots>
<Shot><GUID>{11111111-2222-3333-4444-555555555555}</GUID><ParentGUID>{66666666-2222-3333-4444-555555555555}</ParentGUID></Shot>
<Shot><GUID>{66666666-2222-3333-4444-555555555555}</GUID><ParentGUID>{11111111-2222-3333-4444-555555555555}</ParentGUID></Shot>
</Snapshots>"""
d = Descriptor.__new__(Descriptor)
d.snapshots = Snapshots.from_xml(ElementTree.fromstring(xml2))
def alarm(*a):
    print("TIMEOUT: snapshot chain walk does not terminate"); sys.exit(1)
signal.signal(signal.SIGALRM, alarm); signal.alarm(5)
try:
    d.get_snapshot_chain(UUID("11111111-2222-3333-4444-555555555555"))
    ok2 = False
    print("cycle not detected")
except ValueError as e:
    ok2 = True
    print("cycle refused:", e)
sys.exit(0 if ok1 and ok2 else 1)
