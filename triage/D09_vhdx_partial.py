"""D9: _iter_partial_runs with a non-zero start bit in a mixed byte; bitmap read too short by the start bit."""
import itertools, sys
from dissect.hypervisor.disk.vhdx import _iter_partial_runs

def ref(bitmap, start, length):
    bits = []
    for i in range(start, start + length):
        bits.append((bitmap[i // 8] >> (i % 8)) & 1)
    return [(k, len(list(g))) for k, g in itertools.groupby(bits)]

bad = total = 0
first = None
for b0 in (0x00, 0xFF, 0xF0, 0x0F, 0xA5, 0x3C):
    for b1 in (0x00, 0xFF, 0x5A):
        bm = bytes([b0, b1, 0x81])
        for start in range(8):
            for length in range(1, 17):
                nbytes = (start + length + 7) // 8
                total += 1
                try:
                    got = list(_iter_partial_runs(bm[:nbytes], start, length))
                except Exception as e:
                    got = repr(e)
                if got != ref(bm, start, length):
                    bad += 1
                    first = first or (bm[:nbytes], start, length, got, ref(bm, start, length))
print("cases", total, "wrong", bad, "first", first)
sys.exit(1 if bad else 0)
