"""D3: extended L2 entries (sub-cluster bitmaps): contiguous-range counting is wrong and reads never terminate."""
import io, signal, sys
sys.path.insert(0, "/verif/triage")
from qcow2_build import build
from dissect.hypervisor.disk.qcow2 import QCow2

cs = 1 << 16
sc = cs // 32
def pat(c):  # distinct byte per sub-cluster
    return b"".join(bytes([c * 32 + i + 1 & 0xFF or 1]) * sc for i in range(32))
alloc = lambda bits: sum(1 << b for b in bits)
zero = lambda bits: sum(1 << (32 + b) for b in bits)
l2 = [
    ((3 * cs) | (1 << 63), alloc(range(0, 16)) | zero(range(16, 24))),      # 0-15 data, 16-23 zero, 24-31 unallocated
    ((4 * cs) | (1 << 63), alloc(range(0, 32))),                            # fully allocated, contiguous with previous
    (0, zero(range(0, 32))),                                                # all zero, unallocated cluster
    ((5 * cs) | (1 << 63), alloc([0, 2, 31])),                              # scattered
]
data = {3 * cs: pat(0), 4 * cs: pat(1), 5 * cs: pat(2)}
img = build(version=3, cluster_bits=16, size=4 * cs, l2=l2, ext_l2=True, data=data)
want = bytearray(4 * cs)
want[0:16 * sc] = pat(0)[:16 * sc]
want[cs:2 * cs] = pat(1)
p2 = pat(2)
for b in (0, 2, 31):
    want[3 * cs + b * sc:3 * cs + (b + 1) * sc] = p2[b * sc:(b + 1) * sc]

def alarm(*a):
    print("TIMEOUT: read did not terminate"); sys.exit(1)
signal.signal(signal.SIGALRM, alarm); signal.alarm(10)
q = QCow2(io.BytesIO(img))
bad = 0
for off, ln in [(0, 4 * cs), (sc * 3 + 17, cs), (15 * sc, 3 * sc), (cs - 5, 10), (3 * cs + sc, 3 * sc), (2 * cs, cs)]:
    q.seek(off)
    got = q.read(ln)
    ok = got == bytes(want[off:off + ln])
    print(off, ln, "ok" if ok else f"MISMATCH len={len(got)}")
    bad += not ok
sys.exit(1 if bad else 0)
