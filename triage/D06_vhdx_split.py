"""D6: VHDX.read_sectors does not clamp a request at the block boundary."""
import sys
sys.path.insert(0, "/verif/triage")
from common import PatternFile, sector_ids
from dissect.hypervisor.disk.vhdx import VHDX
from dissect.hypervisor.disk.c_vhdx import c_vhdx

MB = 1 << 20
v = VHDX.__new__(VHDX)
v.fh = PatternFile()
v.sector_size = 512
v._sectors_per_block = 2048  # 1 MiB blocks
v.parent = None


class Ent:
    def __init__(self, mb):
        self.state = c_vhdx.PAYLOAD_BLOCK_FULLY_PRESENT
        self.file_offset_mb = mb


class Bat:
    def pb(self, block):
        return Ent({0: 7, 1: 3, 2: 5}[block])  # blocks stored out of order


v.bat = Bat()
# 4 sectors starting 2 sectors before the end of block 0
data = v.read_sectors(2046, 4)
got = sector_ids(data)
want = [7 * 2048 + 2046, 7 * 2048 + 2047, 3 * 2048 + 0, 3 * 2048 + 1]
print("got ", got)
print("want", want)
sys.exit(0 if got == want else 1)
