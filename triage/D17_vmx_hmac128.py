"""D17: HMAC-SHA-1-128 stores a 16-byte (truncated) MAC; the 20-byte digest is compared untruncated."""
import hashlib, hmac, os, sys
from Crypto.Cipher import AES
from dissect.hypervisor.descriptor.vmx import _decrypt_hmac

key = bytes(range(32))
iv = bytes(16)
plain = b"type=key:cipher=AES-256:key=AAAA"
pad = 16 - len(plain) % 16
ct = AES.new(key, AES.MODE_CBC, iv=iv).encrypt(plain + bytes([pad]) * pad)
bad = 0
for name, n in (("HMAC-SHA-1", 20), ("HMAC-SHA-1-128", 16), ("HMAC-SHA-256", 32)):
    alg = "sha256" if "256" in name else "sha1"
    mac = hmac.digest(key, plain, alg)[:n]
    try:
        out = _decrypt_hmac(key, iv + ct + mac, name)
        print(name, "ok", out == plain)
        bad += out != plain
    except Exception as e:
        print(name, "raised", type(e).__name__, e)
        bad += 1
    # tampered mac must fail
    try:
        _decrypt_hmac(key, iv + ct + bytes([mac[0] ^ 1]) + mac[1:], name)
        print(name, "tampered MAC accepted"); bad += 1
    except ValueError:
        pass
sys.exit(1 if bad else 0)
