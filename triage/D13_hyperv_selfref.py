"""D13: an object-table entry of type ObjectTable that points back at the first object table grows the list forever."""
import io, signal, struct, sys
from dissect.hypervisor.descriptor.hyperv import HyperVFile

buf = bytearray(0x3000)
def header(seq):
    return struct.pack("<IIHIQIQQI", 0x01282014, 0, seq, 0x400, 0, 0x1000, 0x2800, 0x100, 0x2E)
buf[0:46] = header(1)
buf[0x1000:0x1000 + 46] = header(2)
buf[0x2800:0x2800 + 34] = struct.pack("<IIIBIIIIIB", 0x01110003, 0, 0, 0, 0, 0, 0, 0, 0, 0)
# object table at 0x2000 with one allocated entry: type ObjectTable (1) pointing at 0x2000 itself
buf[0x2000:0x2008] = struct.pack("<II", 0x01110001, 1)
buf[0x2008:0x2008 + 18] = struct.pack("<BIQIB", 1, 0, 0x2000, 0x100, 1)
def alarm(*a):
    print("TIMEOUT: object table walk does not terminate"); sys.exit(1)
signal.signal(signal.SIGALRM, alarm); signal.alarm(5)
try:
    f = HyperVFile(io.BytesIO(bytes(buf)))
    print("opened; object tables:", len(f.object_tables))
    sys.exit(0 if len(f.object_tables) <= 2 else 1)
except Exception as e:
    print("raised", type(e).__name__, e)
    sys.exit(0)
