"""D18: stream-optimized extent (grain directory located by the footer) with more than 128 directory entries
fails to open: a dead read of the directory from the current position runs off the end of the file."""
import io, sys
from dissect.hypervisor.disk.vmdk import SparseDisk
from dissect.hypervisor.disk.c_vmdk import c_vmdk

def hdr(gd):
    return c_vmdk.VMDKSparseExtentHeader(
        magic=b"KDMV", version=3, flags=0x30001, capacity=10485760, grain_size=128, descriptor_offset=0,
        descriptor_size=0, num_grain_table_entries=512, secondary_grain_directory_offset=0,
        primary_grain_directory_offset=gd, overhead=128, is_dirty=0, single_end_line_char=b"\n",
        non_end_line_char=b" ", double_end_line_chars=b"\r\n", compress_algorithm=1, pad=b"\0" * 433).dumps()

buf = bytearray(20 * 512)
buf[0:512] = hdr(0xFFFFFFFFFFFFFFFF)
buf[18 * 512:19 * 512] = hdr(10)
try:
    d = SparseDisk(io.BytesIO(bytes(buf)))
except Exception as e:
    print("open raised", type(e).__name__, e)
    sys.exit(1)
print("opened; directory entries:", len(d._grain_directory), "size", d.size)
sys.exit(0 if len(d._grain_directory) == 160 else 1)
