"""D8: HDS._iter_runs merges a sparse run with an allocated cluster whose file offset equals the run size."""
import sys
sys.path.insert(0, "/verif/triage")
from common import PatternFile, sector_ids
from dissect.hypervisor.disk.hdd import HDS

h = HDS.__new__(HDS)
h.fh = PatternFile()
h.parent = None
h.cluster_size = 1 << 20
h._bat_multiplier = 2048   # v2: BAT entries in clusters
h.size = 3 << 20
# cluster 0 unallocated; cluster 1 stored at file offset 1 cluster (the usual first data cluster); cluster 2 at 2
h.__dict__["bat"] = [0, 1, 2]
runs = list(h._iter_runs(0, 3 << 20))
print("runs", runs)
want = [(None, 1 << 20), (1 << 20, 2 << 20)]
data = h._read(0, 3 << 20)
ids = sector_ids(data)
print("cluster firsts", ids[0], ids[2048], ids[4096], "want None 2048 4096")
sys.exit(0 if runs == want and (ids[0], ids[2048], ids[4096]) == (None, 2048, 4096) else 1)
