"""D5: reading up to the end of a VMDK whose size is not a multiple of the stream buffer raises IndexError."""
import io, sys
from dissect.hypervisor.disk.vmdk import VMDK

raw = bytes(range(256)) * 200  # 51200 bytes = 100 sectors
v = VMDK([io.BytesIO(raw[:100 * 512])])
try:
    data = v.read()
except Exception as e:
    print("read() raised", type(e).__name__, e)
    sys.exit(1)
print("read", len(data), "ok", data == raw[:51200])
v.seek(0)
ok2 = v.read_sectors(98, 5) == raw[98 * 512:100 * 512]
print("tail sector read ok", ok2)
sys.exit(0 if data == raw[:51200] and ok2 else 1)
