"""D2: a backing file shorter than the image: the missing part must read as zeros, not be dropped."""
import io, sys
sys.path.insert(0, "/verif/triage")
from qcow2_build import build
from dissect.hypervisor.disk.qcow2 import QCow2

cs = 1 << 16
img = build(version=3, cluster_bits=16, size=3 * cs, l2=[0, 0, 0], backing=b"base.img")
backing = io.BytesIO(b"B" * (cs + 100))          # shorter than 3 clusters
q = QCow2(io.BytesIO(img), backing_file=backing)
data = q.read(3 * cs)
want = b"B" * (cs + 100) + b"\0" * (2 * cs - 100)
print("len", len(data), "want", len(want), "equal", data == want)
sys.exit(0 if data == want else 1)
