"""D21: _decrypt_hmac strips PKCS#7 padding by its last byte only and authenticates the stripped plaintext, so altered
ciphertext / IV bytes that only change padding bytes are accepted (the property demands that every altered byte of the
encrypted configuration makes unlocking fail).  Also `decrypted[:-0]` for a last byte of 0."""
import hmac, sys
from Crypto.Cipher import AES
from dissect.hypervisor.descriptor.vmx import _decrypt_hmac

key = bytes(range(32))
iv = bytes(range(100, 116))
accepted = []
for plain in (b'a = "b"', b"guestOS = \"other\"\nmemsize = \"512\"", b"0123456789abcdef"):
    pad = 16 - len(plain) % 16
    ct = AES.new(key, AES.MODE_CBC, iv=iv).encrypt(plain + bytes([pad]) * pad)
    mac = hmac.digest(key, plain, "sha1")
    blob = iv + ct + mac
    assert _decrypt_hmac(key, blob, "HMAC-SHA-1") == plain
    for pos in range(len(blob)):
        for bit in (1, 0x80):
            t = bytearray(blob)
            t[pos] ^= bit
            try:
                out = _decrypt_hmac(key, bytes(t), "HMAC-SHA-1")
                accepted.append((len(plain), pos, bit, out == plain))
            except ValueError:
                pass
print(f"{len(accepted)} single-bit alterations accepted:", accepted[:12])
sys.exit(1 if accepted else 0)
