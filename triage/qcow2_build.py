"""Triage helper: build small QCOW2 images in memory (NOT part of any check)."""
import struct


def build(version=3, cluster_bits=16, size=None, l2=None, ext_l2=False, backing=None, extensions=(), data=None,
          snapshots_blob=None, nb_snapshots=0, incompat=0):
    cs = 1 << cluster_bits
    l2 = l2 or []
    esize = 16 if ext_l2 else 8
    nl2 = cs // esize
    size = size if size is not None else max(1, len(l2)) * cs
    if ext_l2:
        incompat |= 1 << 4
    hdr_len = 112 if version == 3 else 72
    img = bytearray(cs * 3)
    l1_off, l2_off = cs, 2 * cs
    backing_off = backing_len = 0
    ext = b""
    for magic, payload in extensions:
        ext += struct.pack(">II", magic, len(payload)) + payload + b"\0" * (-len(payload) % 8)
    ext += struct.pack(">II", 0, 0)
    if backing:
        backing_off = hdr_len + len(ext)
        backing_len = len(backing)
    snap_off = 0
    h = struct.pack(">IIQIIQIIQQIIQ", 0x514649FB, version, backing_off, backing_len, cluster_bits, size, 0,
                    1, l1_off, 0, 0, nb_snapshots, snap_off)
    if version == 3:
        h += struct.pack(">QQQII", incompat, 0, 0, 4, 112) + b"\0" * 8
    img[0:len(h)] = h
    img[hdr_len:hdr_len + len(ext)] = ext
    if backing:
        img[backing_off:backing_off + backing_len] = backing
    img[l1_off:l1_off + 8] = struct.pack(">Q", l2_off | (1 << 63))
    for i, e in enumerate(l2):
        if ext_l2:
            ent, bm = e
            img[l2_off + i * 16:l2_off + i * 16 + 16] = struct.pack(">QQ", ent, bm)
        else:
            img[l2_off + i * 8:l2_off + i * 8 + 8] = struct.pack(">Q", e)
    for off, blob in (data or {}).items():
        if len(img) < off + len(blob):
            img.extend(b"\0" * (off + len(blob) - len(img)))
        img[off:off + len(blob)] = blob
    if snapshots_blob is not None:
        snap_off = len(img)
        img.extend(snapshots_blob)
        img[64:72] = struct.pack(">Q", snap_off)
    return bytes(img)
