"""D1: a version-2 QCOW2 header is 72 bytes; the reader parses version-3 fields out of the extension area."""
import io, sys
sys.path.insert(0, "/verif/triage")
from qcow2_build import build
from dissect.hypervisor.disk.qcow2 import QCow2

cs = 1 << 16
img = build(version=2, cluster_bits=16, l2=[(3 * cs) | (1 << 63)], extensions=[(0xE2792ACA, b"qcow2")],
            data={3 * cs: b"D" * cs})
try:
    q = QCow2(io.BytesIO(img))
    data = q.read(cs)
except Exception as e:
    print("raised", type(e).__name__, e)
    sys.exit(1)
print("backing_format", q.backing_format, "data ok", data == b"D" * cs)
sys.exit(0 if data == b"D" * cs and q.backing_format == "QCOW2" else 1)
