"""D7: VDI._read treats a multi-block request as one contiguous file read and uses a stale in-block offset."""
import array, sys
sys.path.insert(0, "/verif/triage")
from common import PatternFile, sector_ids
from dissect.hypervisor.disk.vdi import VDI

v = VDI.__new__(VDI)
v.fh = PatternFile()
v.parent = None
v.block_size = 1 << 20
v.data_offset = 2 << 20
v.map = array.array("i", [2, 1, 0])  # blocks stored in reverse order
spb = 2048
# (a) 3 MiB from 0
data = v._read(0, 3 << 20)
got = sector_ids(data)
want = [4096 + (2 - b) * 2048 + s for b in range(3) for s in range(spb)]
ok1 = got == want
print("(a) len", len(data), "first of each block", got[0::2048][:4], "want", want[0::2048])
# (b) start mid-block: 1024 bytes starting 512 bytes before the end of block 0
data = v._read((1 << 20) - 512, 1024)
got = sector_ids(data)
want = [4096 + 2 * 2048 + 2047, 4096 + 1 * 2048 + 0]
print("(b) got", got, "want", want)
sys.exit(0 if ok1 and got == want else 1)
