"""D19: snapshot table entries are 8-byte aligned; extra data beyond the known 24 bytes is part of extra_data_size."""
import io, struct, sys
sys.path.insert(0, "/verif/triage")
from qcow2_build import build
from dissect.hypervisor.disk.qcow2 import QCow2

def entry(l1_off, id_, name, extra):
    h = struct.pack(">QIHHIIQII", l1_off, 1, len(id_), len(name), 0, 0, 0, 0, len(extra))
    e = h + extra + id_ + name
    return e + b"\0" * (-len(e) % 8)

cs = 1 << 16
extra24 = struct.pack(">QQQ", 0, 3 * cs, 0)
extra32 = extra24 + b"UNKNOWN!"
blob = entry(cs, b"1", b"snap1", extra24) + entry(cs, b"2", b"second", extra32) + entry(cs, b"3", b"third", extra24[:16])
img = build(version=3, cluster_bits=16, l2=[0], snapshots_blob=blob, nb_snapshots=3)
q = QCow2(io.BytesIO(img))
try:
    snaps = q.snapshots
    got = [(s.id_str, s.name, s.header.l1_size, s.unknown_extra) for s in snaps]
except Exception as e:
    print("raised", type(e).__name__, e); sys.exit(1)
print(got)
want = [("1", "snap1", 1, None), ("2", "second", 1, b"UNKNOWN!"), ("3", "third", 1, None)]
sys.exit(0 if got == want else 1)
