"""D20: QCow2Snapshot.open() copies the live stream object including its alignment buffer; seek(0) keeps a buffer whose
aligned position is already 0, so a snapshot view opened after a read near the start of the active disk returns the ACTIVE
disk's first buffer instead of the snapshot's."""
import io, struct, sys
sys.path.insert(0, "/verif/triage")
from qcow2_build import build
from dissect.hypervisor.disk.qcow2 import QCow2

cs = 1 << 16
# file layout: 0 header | cs: active L1 | 2cs: active L2 | 3cs: active data | 4cs: snapshot L1 | 5cs: snapshot L2 | 6cs: snapshot data
COPIED = 1 << 63
data = {
    3 * cs: b"A" * cs,
    4 * cs: struct.pack(">Q", 5 * cs | COPIED),
    5 * cs: struct.pack(">Q", 6 * cs | COPIED),
    6 * cs: b"S" * cs,
}
extra = struct.pack(">QQQ", 0, cs, 0)
h = struct.pack(">QIHHIIQII", 4 * cs, 1, 1, 5, 0, 0, 0, 0, len(extra))
e = h + extra + b"1" + b"snap1"
blob = e + b"\0" * (-len(e) % 8)
img = build(version=3, cluster_bits=16, l2=[3 * cs | COPIED], data=data, snapshots_blob=blob, nb_snapshots=1)

def view(touch_active_first):
    q = QCow2(io.BytesIO(img))
    if touch_active_first:
        q.seek(100)
        assert q.read(10) == b"A" * 10      # leaves the active disk's first 8 KiB in the alignment buffer
    s = q.snapshots[0].open()
    return s.read(16), q

cold, _ = view(False)
warm, q = view(True)
print("snapshot view, fresh object      :", cold)
print("snapshot view, after active read :", warm)
ok = cold == b"S" * 16 and warm == b"S" * 16
# the live object is not disturbed
q.seek(0)
ok = ok and q.read(4) == b"AAAA"
sys.exit(0 if ok else 1)
