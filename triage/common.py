"""Triage helpers (NOT part of any check): tiny virtual files to demonstrate defects against the real code."""
import io


class PatternFile:
    """A sparse virtual file: explicit byte ranges over a background where byte at position p is marker(p)."""

    def __init__(self, size=1 << 40, chunks=None):
        self.size = size
        self.pos = 0
        self.chunks = dict(chunks or {})  # offset -> bytes

    def seek(self, off, whence=0):
        if whence == 0:
            self.pos = off
        elif whence == 1:
            self.pos += off
        else:
            self.pos = self.size + off
        return self.pos

    def tell(self):
        return self.pos

    def read(self, n=-1):
        if n < 0:
            n = self.size - self.pos
        n = max(0, min(n, self.size - self.pos))
        out = bytearray(self.marker(self.pos, n))
        for off, data in self.chunks.items():
            lo = max(off, self.pos)
            hi = min(off + len(data), self.pos + n)
            if lo < hi:
                out[lo - self.pos:hi - self.pos] = data[lo - off:hi - off]
        self.pos += n
        return bytes(out)

    @staticmethod
    def marker(pos, n):
        # every 512-byte sector is filled with a 4-byte little-endian sector number pattern
        out = bytearray()
        p = pos
        end = pos + n
        while p < end:
            sec = p // 512
            pat = (sec & 0xFFFFFFFF).to_bytes(4, "little") * 128
            take = min(end - p, 512 - p % 512)
            out += pat[p % 512:p % 512 + take]
            p += take
        return bytes(out)


def sector_ids(data, sector=512):
    """decode the marker: list of file-sector numbers the data was read from (None for zeros)"""
    out = []
    for i in range(0, len(data), sector):
        s = data[i:i + 4]
        blk = data[i:i + sector]
        if blk == b"\0" * len(blk):
            out.append(None)
        else:
            out.append(int.from_bytes(s, "little"))
    return out
