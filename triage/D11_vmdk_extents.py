"""D11/D12: SESPARSE extent lines are dropped by the grammar; ZERO extents are parsed and then silently skipped."""
import sys, tempfile, os
from pathlib import Path
from dissect.hypervisor.disk.vmdk import DiskDescriptor, VMDK

d = DiskDescriptor.parse('# Disk DescriptorFile\nversion=1\nCID=fffffffe\nparentCID=ffffffff\ncreateType="seSparse"\nRW 4096 SESPARSE "x-sesparse.vmdk"\n')
print("SESPARSE extents parsed:", [(e.type, e.filename, e.sectors) for e in d.extents])
ok1 = [(e.type, e.filename, e.sectors) for e in d.extents] == [("SESPARSE", "x-sesparse.vmdk", 4096)]

tmp = Path(tempfile.mkdtemp(prefix="d12_"))
try:
    (tmp / "a-flat.vmdk").write_bytes(b"A" * 8 * 512)
    (tmp / "b-flat.vmdk").write_bytes(b"B" * 8 * 512)
    (tmp / "disk.vmdk").write_text('# Disk DescriptorFile\nversion=1\nCID=fffffffe\nparentCID=ffffffff\ncreateType="twoGbMaxExtentFlat"\n'
                                   'RW 8 FLAT "a-flat.vmdk" 0\nRW 16 ZERO\nRW 8 FLAT "b-flat.vmdk" 0\n')
    v = VMDK(tmp / "disk.vmdk")
    data = v.read()
    want = b"A" * 4096 + b"\0" * 8192 + b"B" * 4096
    print("size", v.size, "want", len(want), "content ok", data == want)
    ok2 = v.size == len(want) and data == want
finally:
    for f in tmp.iterdir():
        f.unlink()
    tmp.rmdir()
sys.exit(0 if ok1 and ok2 else 1)
