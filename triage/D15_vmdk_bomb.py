"""D15: a compressed grain may inflate to any size (no output bound)."""
import io, struct, sys, zlib
from dissect.hypervisor.disk.vmdk import SparseDisk
from dissect.hypervisor.disk.c_vmdk import c_vmdk

d = SparseDisk.__new__(SparseDisk)
class H: flags = 0x30000; grain_size = 128
d.header = H()
bomb = zlib.compress(b"\0" * (64 << 20), 9)      # 64 MiB of zeros -> ~64 KiB
grain = struct.pack("<QI", 0, len(bomb)) + bomb
d.fh = io.BytesIO(b"\0" * 512 + grain + b"\0" * 512)
out = d._read_compressed_grain(1)
print("compressed", len(bomb), "inflated", len(out), "grain bytes", 128 * 512)
sys.exit(0 if len(out) <= 128 * 512 else 1)
