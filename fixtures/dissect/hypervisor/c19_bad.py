# Planted violations for C19 (never imported, only parsed by hvlint).
from __future__ import annotations

import importlib
from xml.etree import ElementTree as StdET

from defusedxml import ElementTree


def parse_std(text):
    return StdET.fromstring(text)


def parse_unprotected(text):
    return ElementTree.fromstring(text, forbid_entities=False)


def dyn(name):
    return importlib.import_module(name)
