# Planted violations for C09 (never imported, only parsed by hvlint).
from __future__ import annotations

import io
import os
from pathlib import Path

from dissect.cstruct import cstruct

c_fix = cstruct().load("""
struct hdr {
    uint32 a;
};
""")


def reopen(path: Path):
    return path.open("r+b")


def scrub(path: Path, fh):
    os.remove(str(path))
    path.unlink()
    path.replace(path.with_suffix(".bak"))
    fh.write(b"x")
    c_fix.uint32.write(fh, 1)


def fine():
    buf = io.BytesIO()
    buf.write(b"ok")
    return buf.getvalue()
