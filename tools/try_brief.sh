#!/bin/bash
# usage: try_brief.sh Cxx A|B
/venv/bin/python /verif/tools/try_seed.py /tmp/seed/out/$1 $2 | /venv/bin/python -c "
import json,sys
d=json.load(sys.stdin)
print(d['dir'][-3:], d['variant'], 'orig',d.get('demo_on_original'),'tests',d.get('tests'),'demo',d.get('demo_with_change'), d.get('apply_error',''))
for k,v in d.get('checks_fired',{}).items(): print('   ',k,'rc',v['rc'], (v['reports'][0][:200] if v['reports'] else ''))
if not d.get('checks_fired'): print('    *** NO CHECK FIRED ***')
"
