#!/venv/bin/python
"""Create scratch worktrees of /repo under /tmp/seed and the prompt texts for independent sub-agents.
usage: mk_prompts.py regress <name> <prop> [note...]   |   mk_prompts.py refactor <name> <scope files, comma separated> <props, comma separated>
Prompts are written to /tmp/seed/prompt_<name>.txt; property texts are generated from /verif/properties.jsonl (text only)."""
import json, subprocess, sys
from pathlib import Path

SEED = Path("/tmp/seed")
HERE = Path(__file__).parent


def prop_text(pid, short=False):
    for l in open("/verif/properties.jsonl"):
        d = json.loads(l)
        if d["id"] == pid:
            if short:
                return f"{pid} - {d['title']}\nSTATEMENT: {d['statement']}\n"
            a = d["anchors"]
            mech = "; ".join(f"{m['name']} ({m['where']})" for m in a.get("mechanism", []))
            return (f"{pid} - {d['title']}\n\nSTATEMENT: {d['statement']}\n\nQUANTIFIED OVER: {d['quantifier']['text']}\n\n"
                    f"WHY THE EXISTING TESTS CANNOT SETTLE IT: {d['why_tests_cant']}\n\nCODE ANCHORS: files {a['files']}; mechanisms: {mech}\n")
    raise SystemExit(f"unknown property {pid}")


def worktree(name):
    wt = SEED / name
    (SEED / "out" / name).mkdir(parents=True, exist_ok=True)
    if not wt.exists():
        subprocess.run(f"git -C /repo worktree add -q --detach {wt} HEAD", shell=True, check=True)
    return wt


def main():
    kind, name = sys.argv[1], sys.argv[2]
    wt = worktree(name)
    out = SEED / "out" / name
    if kind == "regress":
        t = (HERE / "REGRESSION_TEMPLATE.txt").read_text()
        text = prop_text(sys.argv[3])
        note = " ".join(sys.argv[4:])
        t = t.replace("PROPERTY_TEXT", text)
        if note:
            t = t.replace("TASK: produce TWO", f"NOTE: {note}\n\nTASK: produce TWO")
    else:
        t = (HERE / "REFACTOR_TEMPLATE.txt").read_text()
        t = t.replace("SCOPE_FILES", ", ".join("dissect/hypervisor/" + f for f in sys.argv[3].split(",")))
        t = t.replace("PROPERTY_TEXT", "\n".join(prop_text(p, short=True) for p in sys.argv[4].split(",")))
    t = t.replace("WORKTREE", str(wt)).replace("OUTDIR", str(out))
    (SEED / f"prompt_{name}.txt").write_text(t)
    print(SEED / f"prompt_{name}.txt")


main()
