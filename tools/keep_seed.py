#!/venv/bin/python
"""Store a confirmed seeded change under /verif/seeded/<id>/ (patch.diff, demo.py, meta.json)."""
import json, shutil, subprocess, sys
from pathlib import Path

def main():
    prop, X, needs = sys.argv[1], sys.argv[2], sys.argv[3]
    src = Path(f"/tmp/seed/out/{prop}")
    r = subprocess.run(["/venv/bin/python", "/verif/tools/try_seed.py", str(src), X], capture_output=True, text=True)
    d = json.loads(r.stdout)
    assert d["demo_on_original"] == 0 and d["demo_with_change"] != 0 and d["tests"].startswith("47 passed"), d
    sid = f"{prop}-{X}"
    if len(sys.argv) > 4:
        sid = sys.argv[4]
    dst = Path("/verif/seeded") / sid
    dst.mkdir(parents=True, exist_ok=True)
    shutil.copy(src / f"patch{X}.diff", dst / "patch.diff")
    shutil.copy(src / f"demo{X}.py", dst / "demo.py")
    readme = (src / "README.md").read_text() if (src / "README.md").exists() else ""
    meta = {
        "id": sid, "property": prop[:3], "origin": "independent sub-agent given only the property text and a scratch worktree",
        "needs_to_manifest": needs,
        "confirmed": {"demo_on_original_exit": d["demo_on_original"], "existing_tests_with_change": d["tests"], "demo_with_change_exit": d["demo_with_change"],
                      "how": "tools/try_seed.py: scratch worktree under /tmp, PYTHONPATH=<worktree>; demo before / apply / pytest / demo after; worktree removed"},
        "checks_that_report_it": {k: v["reports"][:2] for k, v in d["checks_fired"].items()},
        "ran": f"git -C /repo apply seeded/{sid}/patch.diff; every quick_cmd of MANIFEST.json; git -C /repo checkout -- .",
        "author_notes": readme[:3000],
    }
    (dst / "meta.json").write_text(json.dumps(meta, indent=1))
    print(sid, "kept; caught by", sorted(d["checks_fired"]))

main()
