#!/venv/bin/python
"""Confirm an independently produced behaviour-preserving refactoring and run every check against it.

usage: try_twin.py <dir with patchRn.diff/equivRn.py> <Rn> [--keep <twin id>]
Steps: scratch worktree of /repo under /tmp -> equivRn.py on the original (digest) -> git apply -> pytest (47 passed)
-> equivRn.py (same digest) -> every property's quick analysis with root=<worktree> (no evidence written) -> worktree removed.
Any check that does not exit 0 on a confirmed twin is a false alarm of the checker.
With --keep the patch, the differential test and a meta.json are stored under /verif/seeded/twins/<id>/.
"""
import json, os, shutil, subprocess, sys, tempfile
from concurrent.futures import ProcessPoolExecutor
from pathlib import Path

sys.path.insert(0, "/verif")
PROPS = [f"C{i:02d}" for i in range(1, 21)]


def sh(cmd, cwd=None, env=None, timeout=1800):
    r = subprocess.run(cmd, shell=True, cwd=cwd, env=env, capture_output=True, text=True, timeout=timeout)
    return r.returncode, r.stdout + r.stderr


def one(args):
    prop, root = args
    from hvlint.engine import run_check

    rc, chk = run_check(prop, "quick", root=root, quiet=True, write=False)
    reports = []
    if chk is not None:
        for i in list(getattr(chk, "new_violations", [])) + list(getattr(chk, "undecided_armed", [])):
            reports.append(f"{i.rel}:{i.line} {i.func}: [{i.kind}/{i.name}] {i.verdict} {(i.detail or '')[:200]}")
    return prop, rc, reports


def last_line(o):
    ls = [l for l in o.strip().splitlines() if l.strip()]
    return ls[-1] if ls else ""


def main():
    d, X = Path(sys.argv[1]), sys.argv[2]
    keep = sys.argv[sys.argv.index("--keep") + 1] if "--keep" in sys.argv else None
    patch, equiv = d / f"patch{X}.diff", d / f"equiv{X}.py"
    out = {"dir": str(d), "variant": X}
    reuse = os.environ.get("TWIN_WT")  # a differential test that insists on the path of the author's worktree
    if reuse:
        wt = Path(reuse)
        rc, o = sh("git status --porcelain", cwd=wt)
        if o.strip():
            print("refusing: worktree not clean")
            return 2
    else:
        wt = Path(tempfile.mkdtemp(prefix="twinverify_", dir="/tmp"))
        shutil.rmtree(wt)
        sh(f"git -C /repo worktree add -q --detach {wt} HEAD")
    env = dict(os.environ, PYTHONPATH=str(wt))
    try:
        rc, o = sh(f"/venv/bin/python {equiv}", cwd=wt, env=env)
        out["equiv_on_original"] = (rc, last_line(o))
        rc, o = sh(f"git apply {patch}", cwd=wt)
        out["patch_applies"] = rc == 0
        if rc != 0:
            out["apply_error"] = o[-300:]
            print(json.dumps(out, indent=1))
            return 2
        rc, o = sh("/venv/bin/python -m pytest -q -p no:cacheprovider tests", cwd=wt, env=env)
        out["tests"] = last_line(o)
        rc, o = sh(f"/venv/bin/python {equiv}", cwd=wt, env=env)
        out["equiv_with_change"] = (rc, last_line(o))
        out["confirmed"] = (out["equiv_on_original"][0] == 0 and out["equiv_with_change"][0] == 0
                            and out["equiv_on_original"][1] == out["equiv_with_change"][1] and out["tests"].startswith("47 passed"))
        fired = {}
        with ProcessPoolExecutor(16) as ex:
            for prop, rc, reports in ex.map(one, [(p, str(wt)) for p in PROPS]):
                if rc != 0:
                    fired[prop] = {"rc": rc, "reports": reports[:3]}
        # known findings of the unchanged tree print KNOWN-FINDING and exit 0, so anything here is new
        out["checks_not_silent"] = fired
    finally:
        if reuse:
            sh("git checkout -- . && git clean -fdq", cwd=wt)
        else:
            sh(f"git -C /repo worktree remove --force {wt}")
    print(json.dumps(out, indent=1))
    if keep and out.get("confirmed"):
        dst = Path("/verif/seeded/twins") / keep
        dst.mkdir(parents=True, exist_ok=True)
        shutil.copy(patch, dst / "patch.diff")
        shutil.copy(equiv, dst / "equiv.py")
        readme = (d / "README.md").read_text() if (d / "README.md").exists() else ""
        meta = {"id": keep, "kind": "behaviour-preserving refactoring (twin)",
                "origin": "independent sub-agent given only property texts and a scratch worktree",
                "confirmed": {"digest_before": out["equiv_on_original"][1], "digest_after": out["equiv_with_change"][1], "existing_tests_with_change": out["tests"]},
                "checks_not_silent": fired, "author_notes": readme[:2500]}
        (dst / "meta.json").write_text(json.dumps(meta, indent=1))
    return 0 if out.get("confirmed") and not out.get("checks_not_silent") else 1


if __name__ == "__main__":
    sys.exit(main())
